#!/bin/bash
# tools/reeval.sh <ID> <k> [base-commit]
# Re-runs only the registered quick check of <ID> against seeded change <ID>-<k> (step 3 of
# seedeval.sh) after the check was strengthened, and records the outcome in eval.json.
set -u
ID="$1"; K="$2"; BASE="${3:-main}"; id=$(echo "$ID" | tr A-Z a-z)
WT=/tmp/seed/$ID; H=/tmp/seed/$ID-h; DEST=/verif/seeded/$ID-$K
export CARGO_NET_OFFLINE=true
cd "$WT" && git reset -q --hard && git clean -fdq && git checkout -q --detach "$BASE" || exit 2
git apply "$DEST/patch.diff" 2>/dev/null || git apply -3 "$DEST/patch.diff" || { echo "patch does not apply"; git reset -q --hard; exit 2; }
git reset -q
mkdir -p "$H/.cargo" "$H/verif/evidence"
cp /verif/harness/Cargo.lock "$H/"; cp /verif/harness/.cargo/config.toml "$H/.cargo/"
members="\"engine\", \"$id\""; [ "$id" = "c08" ] && members="\"engine\", \"c02\", \"c08\""
sed -e "s#/repo/crates#$WT/crates#g" -e "s#members = .*#members = [$members]#" /verif/harness/Cargo.toml > "$H/Cargo.toml"
ln -sfn /verif/harness/engine "$H/engine"; ln -sfn "/verif/harness/$id" "$H/$id"; [ "$id" = "c08" ] && ln -sfn /verif/harness/c02 "$H/c02"
cp /verif/known_findings.json "$H/verif/"; rm -rf "$H/verif/replays"; mkdir -p "$H/verif/replays"; [ -d "/verif/replays/$ID" ] && cp -r "/verif/replays/$ID" "$H/verif/replays/"
rm -rf "$H/verif/replays/$ID/found"
( cd "$H" && CARGO_TARGET_DIR="$H/target" cargo build --release --offline -p "vh-$id" 2>&1 | tail -3 ) || exit 2
t0=$(date +%s)
( cd "$H" && VERIF_DIR="$H/verif" timeout 3600 "$H/target/release/vh-$id" --tier quick > "$DEST/recheck.log" 2>&1 ); rc=$?
t1=$(date +%s)
cd "$WT" && git reset -q --hard && git clean -fdq
keys=$(grep -o "key=[^ ]*" "$DEST/recheck.log" | sort -u | head -4 | tr '\n' ' ')
grep "^VIOLATION" "$DEST/recheck.log" | head -5
echo "$ID-$K rc=$rc wall=$((t1-t0))s $keys"
python3 - <<PY
import json
p="$DEST/eval.json"; e=json.load(open(p))
viol=sum(1 for l in open("$DEST/recheck.log") if l.startswith("VIOLATION"))
e["after_strengthening"]={"check_quick_exit":$rc,"check_violation_lines":viol,"check_wall_s":$t1-$t0,"keys":"$keys".split(),"base":"$BASE"}
import os
if $rc==1 and viol>0 and not e.get("detected"):
    e["detected_after_strengthening"]=(os.environ.get("NOTE","").strip()+"; " if os.environ.get("NOTE") else "")+"re-run: VIOLATION "+" ".join("$keys".replace("key=","").split()[:2])
json.dump(e,open(p,"w"),indent=1)
PY
