#!/usr/bin/env python3
"""Regenerates the generated tables of DESIGN.md §10 (between <!-- BEGIN:name --> / <!-- END:name --> markers)
from known_findings.json, /repo's git log and seeded/*/{meta,eval}.json."""
import json, os, re, subprocess, glob
HERE = os.path.dirname(os.path.dirname(os.path.abspath(__file__)))
kf = json.load(open(os.path.join(HERE, "known_findings.json")))
log = subprocess.run(["git", "-C", "/repo", "log", "--format=%h %s", "fd670e7..HEAD"], capture_output=True, text=True).stdout.splitlines()
subj = {l.split()[0]: l.split(" ", 1)[1] for l in log}

def cell(s):
    return s.replace("|", "\\|").replace("\n", " ")

# fixes: group fixed entries by commit
by_commit = {}
for e in kf:
    if e["status"] == "fixed":
        by_commit.setdefault(e.get("commit", "?"), []).append(e)
rows = ["| commit | subject | properties | keys closed |", "|---|---|---|---|"]
order = [l.split()[0] for l in reversed(log) if l.split(" ", 1)[1].startswith("fix:")]
seen = set()
for c in order:
    es = [e for k, v in by_commit.items() if k.startswith(c[:7]) or c.startswith(k[:7]) for e in v]
    props = sorted({e["property"] for e in es})
    rows.append(f"| `{c}` | {cell(subj[c])} | {', '.join(props) or '—'} | {len(es)} |")
    seen.add(c)
fixes_md = "\n".join(rows)

rows = ["| property | key | what fails |", "|---|---|---|"]
for e in kf:
    if e["status"] == "open":
        rows.append(f"| {e['property']} | `{cell(e['key'])}` | {cell(e['what'])} |")
open_md = "\n".join(rows)

rows = ["| id | breaks / needs | existing suite with the change | quick check |", "|---|---|---|---|"]
for d in sorted(glob.glob(os.path.join(HERE, "seeded", "*")), key=lambda x: (os.path.basename(x).split("-")[0], int(os.path.basename(x).split("-")[1]) if os.path.basename(x).split("-")[1].isdigit() else 0)):
    try:
        m = json.load(open(os.path.join(d, "meta.json"))); ev = json.load(open(os.path.join(d, "eval.json")))
    except Exception:
        continue
    res = "**detected**" if ev.get("detected") else ("not confirmed" if not ev.get("confirmed") else "MISSED")
    if ev.get("superseded"):
        res = "masked at evaluation time, harmless now (" + ev["superseded"] + ")"
    if ev.get("detected_by_other_check"):
        res = "missed by this property's check; **detected** by another registered check (" + ev["detected_by_other_check"] + ")"
    if ev.get("not_pursued"):
        res = "**not detected**, left so (" + ev["not_pursued"] + ")"
    if ev.get("detected_after_strengthening"):
        res = "missed at first; **detected** after strengthening (" + ev["detected_after_strengthening"] + ")"
    rows.append(f"| {ev['id']} | {cell(m.get('title',''))} — needs: {cell(m.get('needs',''))[:260]} | {ev.get('existing_suite_with_patch','')} | {res} |")
seeded_md = "\n".join(rows)

p = os.path.join(HERE, "DESIGN.md")
s = open(p).read()
for name, md in (("fixes", fixes_md), ("open", open_md), ("seeded", seeded_md)):
    s = re.sub(rf"<!-- BEGIN:{name} -->.*?<!-- END:{name} -->", lambda _m, name=name, md=md: f"<!-- BEGIN:{name} -->\n{md}\n<!-- END:{name} -->", s, flags=re.S)
open(p, "w").write(s)
print("tables regenerated:", len(order), "fix commits,", sum(1 for e in kf if e['status']=='open'), "open findings")
