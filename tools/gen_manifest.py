#!/usr/bin/env python3
"""Regenerates /verif/MANIFEST.json from the table below (keeps it schema-valid)."""
import json, os, subprocess, sys
HERE = os.path.dirname(os.path.dirname(os.path.abspath(__file__)))

# id -> (engine, level category, technique, level text, level note, design ref)
CHECKS = {
 "C09": ("pbt+enum", "exploration",
         "differential testing against reference implementations (lookup3, Salsa20 spec, RC4, RFC 1321) and against the portable fallback, over enumerated lengths and proptest-generated inputs",
         "Every length 0..=1024 (hashes), 0..=300 (Salsa20), every key length (ARC4), every split point, every buffer length 0..=200 and difference/needle position for the SIMD helpers under every CPU-feature subset of the host are enumerated; keys/IVs/seeds/block indices beyond that are sampled. Agreement with an independent reference on this domain is the strongest evidence execution can give for 'computes the published function'.",
         "Trusted: the reference implementations in harness/engine/src/refimpl (pinned by the published test vectors, run at setup and at the start of every run); host CPU features bound the SIMD subsets; counter carry past 2^32 blocks not reachable.",
         "DESIGN.md §3 C09"),
 "C05": ("pbt+enum", "exploration",
         "model-based stateful testing: generated operation histories (with a Burst combinator filling the 1260-entry update section) interpreted against IndexManager / ResidencyDb and a BTreeMap reference model, compared after every operation; exhaustive enumeration of the fill-boundary scenarios",
         "Histories over add/update/status/remove/flush/save+reload/clear_bucket (and mark/delete/save/load for residency) with keys constructed into one bucket, shared 9-byte prefixes and field-limit locations; after every op lookup, enumeration, counts and the returned booleans are compared with the model. The boundary grid (fill 1259/1260/1261 x mutation x reload/flush) is enumerated completely.",
         "Trusted: the BTreeMap model and the harness's bucket solver (which uses the crate's own bucket_for_key); ext4/tmpfs semantics for save+reload. Histories are bounded (<= ~30 ops plus bursts <= 1500).",
         "DESIGN.md §3 C05"),
 "C10": ("pbt+enum", "exploration",
         "model-based stateful testing: generated put/get/remove/clear/size/stats histories over every eviction policy and limit grid against a latest-value model with conservative (may-evict) clauses; enumeration of the paused-clock background-cleanup scenarios",
         "Every policy x max_entries x max_memory_bytes x default-TTL configuration is sampled with histories of up to 60 ops over a key pool larger than capacity; disk histories include drop-and-recreate on the same directory; the five oracle clauses of DESIGN §3 C10 are judged after every op. Background cleanup is enumerated on tokio's paused clock (no wall-clock verdicts).",
         "Trusted: the model; TTLs are only ZERO or 1 h so elapsed real time never decides a verdict; tokio paused clock for the cleanup scenario.",
         "DESIGN.md §3 C10"),
 "C01": ("pbt", "exploration",
         "generated builder programs (config calls interleaved with data calls, all modes/ciphers/chunk sizes) judged by round trip through the library AND by an independent BLTE decoder that audits the chunk table",
         "Programs over add_data / add_mixed_data / add_encrypted_data / add_chunk and the free constructors with payload lengths aimed at chunk_size-1/chunk_size/chunk_size+1/k*chunk_size, empty and 1-byte payloads, payloads starting with mode bytes, nested BLTE; every produced container must decode (library decoder with key store, and an independent decoder written from the format docs with reference Salsa20/RC4) to exactly the concatenation of the payloads, and every table entry (sizes, checksum) must be truthful.",
         "Trusted: the independent decoder in harness/c01/src/decoder.rs, flate2/lz4_flex as codecs, the reference ciphers of C09. chunk_size 0 and Frame mode are outside the domain. Payloads <= 32 KiB (quick) / 1 MiB (thorough).",
         "DESIGN.md §3 C01"),
 "C04": ("pbt+enum", "exploration",
         "model-based stateful testing: generated write/read/query/remove/flush/reopen/compact histories over DynamicContainer, Installation and ArchiveManager against a map model keyed by the independently computed encoding key; exhaustive grid of size orders and payload classes",
         "Histories of up to 25 ops with size scripts (large->small, growing, equal, empty), payload classes that look like BLTE containers or local headers, all three compression modes, and drop+reopen on the same directory; after every step every live key must read back byte-for-byte and removed/never-written keys must be absent. The size-order grid (all ordered pairs/triples of 6 sizes x 3 systems, every payload class) is enumerated completely.",
         "Trusted: the harness's own single-chunk BLTE encoder + reference MD5 for the key, the map model. Sizes <= 8 KiB mostly, 100 KiB steps, >64 MiB only in thorough. Working directories on /dev/shm when present.",
         "DESIGN.md §3 C04"),
 "C17": ("pbt+enum", "exploration",
         "model-based stateful testing against a textbook VecDeque LRU: exhaustive enumeration of all short operation sequences (capacities 1-3, 4 keys incl. the all-zero key) plus proptest histories up to length 200 / capacity 64, compared after every operation",
         "All sequences over touch/remove/evict_tail/evict_to_target/bump_generation/reset up to length 5 (6 thorough) and all sequences with one persistence op (reload, run_cycle) up to length 4 (5 thorough) are enumerated; random histories cover long runs and larger capacities. After every op len, contains for every pool key, tail->head order, capacity and documented return values equal the reference.",
         "Trusted: the VecDeque reference; a hang (cyclic list) is decided by a watchdog with a deterministic re-run. Slot numbers, bytes_freed and generation numbers are unspecified and not asserted.",
         "DESIGN.md §3 C17"),
 "C16": ("pbt+enum", "exploration",
         "differential testing: every patch produced by every builder is applied by every library patcher (all buffer sizes) and by an independent reference bspatch and compared with the new file; exhaustive over all pairs of short strings on a 2-letter alphabet, a boundary grid, and proptest edit scripts; mutated patches for the length clause",
         "All (old,new) in ({a,b}^<=6)^2 x 11 builder configurations are enumerated (<=8 letters thorough); a grid of prefix/middle/suffix lengths around the 4-byte match and 256-byte extra thresholds; random edit scripts (insert/delete/move/dup/overwrite) up to 64 KiB; block-level and raw corruption of generated patches for 'Err or exactly output_size bytes, no panic'.",
         "Trusted: the reference bspatch in harness/c16/src/refpatch.rs (self-tested against the five CDN old/patch/new triplets), flate2. A builder may refuse (Err) - only patches it returns are judged.",
         "DESIGN.md §3 C16"),
 "C18": ("pbt+enum", "exploration",
         "generated files and span sets for extract_compact_segment judged against the concatenation of the live spans (and byte-identity on refusal); generated and exhaustively enumerated segment populations for plan_archive_merge judged by executing the plan on an interval model",
         "Span sets from sorted cut points (adjacent, gapped, zero-length, first span after 0, spans larger than the buffer, unsorted order, five overlap perturbations) x buffer budgets; merge plans for up to 12 segments, and every population of <= 4 segments over {frozen,thawed} x write positions 0..=4 (plus all-frozen 5-segment populations) x three thresholds enumerated completely. Every move: source live, destination free at that moment, within segment size, destinations disjoint; every live byte exactly once at the end.",
         "Trusted: the interval model in harness/c18/src/plan.rs (mapping quoted from the rustdoc of MoveItem/SegmentInfo). Spans always lie inside the file, as index-derived spans do.",
         "DESIGN.md §3 C18"),
 "C19": ("pbt+enum", "exploration",
         "generated builder programs for install/download/size manifests judged against a set model (tag -> file set, shifting on remove_file) and by an independent MSB-first bit reader on the serialised bytes; exhaustive enumeration of file counts 0..=70 and of every single remove_file",
         "Every file count 0..=70 x {each single index, all, even, odd} x tag before/after files, and every (count, removed index) x 7 association patterns, are enumerated for install, download and size manifests; random programs use the whole builder API (0-20 tags, up to 300 files, all versions, sizes up to 2^40-1, priorities over i8). After build->bytes->parse every per-tag / all-of / any-of / platform / priority query and every size total equals the model, and the independent reader finds bit i of each tag at byte i/8, mask 0x80>>(i%8), with masks of exactly ceil(n/8) bytes.",
         "Trusted: the set model and the independent reader in harness/c19/src/raw.rs (written from the documented layout). Tag names unique among live tags and NUL-free; encoding keys unique.",
         "DESIGN.md §3 C19"),
 "C08": ("iso+pbt", "exploration",
         "round-trip / fixed-point oracle (parse->build->parse->build, logical projections per format) over mutation-fuzzed accepted inputs executed in isolated worker processes, plus proptest builder programs and byte-identity of the CDN fixtures",
         "The C02 input stream (seeds, truncations, deterministic boundary sweep, shape generators, stacked mutations with integrity fix-ups) for all 18 CascFormat types; every accepted input must rebuild, re-parse, rebuild byte-identically and keep its logical projection. Builder programs for size manifest, patch archive, patch index, build/CDN/patch/keyring config, BPSV and ESpec must parse back to what was built. Every repo CDN fixture must rebuild to identical bytes.",
         "Trusted: the projections in harness/c02/src/project.rs (entries, keys, sizes, flags, tags; not raw buffers, derived counts, layout offsets or record order where build() sorts). Inputs that crash or over-allocate are left to C02. Values in a named non-round-tripping class get that class as their key (Project::diagnose).",
         "DESIGN.md §3 C08"),
 "C02": ("iso", "exploration",
         "mutation fuzzing in isolated worker processes with a crash / abort / allocation-size / CPU-budget oracle: seeds (repo fixtures + builder outputs), every short truncation, a deterministic boundary-value sweep over header and trailer fields, integrity fix-up mutators, deep-shape generators and stacked random mutations for 31 parser targets",
         "Every parser/decoder that accepts outside bytes (BLTE parse+decompress, encoding, CDN archive index/group/chunked, root, install, download, size, TVFS, patch archive/index, ZBSDIFF parse+apply, all configs, BPSV, ESpec, V1 MIME, .idx load, update section, residency DB, LRU file + manager ops, shmem control block, .build.info, local header) is run on ~500k generated inputs per quick run; a tracking allocator refuses any single request above max(64 MiB, 1024*len) (1 GiB + 64 MiB for decompressing targets), the master attributes panics, aborts, stack overflows and CPU-budget hangs to the input in flight, minimises it and saves it as a replay.",
         "Trusted: allocation tracking through the Rust global allocator in the worker; one input in flight per worker; a hang is only reported after a second, solitary run exceeds the larger CPU budget. Absence of crashes is not established beyond the generated inputs.",
         "DESIGN.md §3 C02"),
 "C03": ("pbt+enum", "exploration",
         "model-based testing of build->serialise->parse->lookup for encoding tables, archive indices (incl. chunked), archive groups, root V1-V4, TVFS and the ContentResolver: every inserted key must return exactly its value, neighbours key+-1 and other non-inserted probes nothing, batch = element-wise single, every lookup flavour = linear scan; boundary grids enumerated",
         "Key sets aimed at page/chunk capacity multiples +-1 (exhaustive grids: key size 1..16 x offset width 4/5/6 x {cap-1,cap,cap+1,2cap,2cap+1,3cap+1}; encoding page fills; archive-group counts around 157n; root totals 0..110 x versions; TVFS offset-width thresholds), shared 8-15 byte prefixes, all-00/all-FF keys, 1..255 encoding keys per content key; oracle = map model + linear scan + independent TVFS walk.",
         "Trusted: the map models and the shared key generator; padding sentinels (all-zero record with size 0 / espec 0) are excluded from the domain and counted.",
         "DESIGN.md §3 C03"),
 "C14": ("pbt+enum", "exploration",
         "exhaustive enumeration of the policy grid x every canonical outcome sequence, plus proptest sampling beyond it, executed by RetryPolicy::execute on tokio's paused clock; oracle = attempt bound, stop conditions, result identity and per-gap back-off bounds from the statement",
         "max_attempts 0..=3 (0..=4 thorough) x initial/max back-off grid (incl. initial > max, zero, u64::MAX s) x multipliers {0,0.5,1,2,10,1e30,NaN,-1} x jitter x every canonical outcome sequence of length <= max_attempts+2 over {Ok, retryable, rate-limited with hint 0/1 s/1 h, without hint, non-retryable} is enumerated (2.2 M cases quick); sampled policies reach max_attempts 5 and off-grid values; from_env is driven with the same values as strings.",
         "Trusted: tokio's paused clock (no wall-clock verdicts). Policies whose documented delay lies in [1e14 s, 2^63 s) are not built (tokio clamps such sleeps); jitter is judged by bounds only.",
         "DESIGN.md §3 C14"),
 "C06": ("crash+pbt", "fault_enumeration",
         "crash-point enumeration: a recorder installed on the verif-hooks crash_point call sites snapshots the directory between the I/O steps of every save routine; each snapshot is expanded into crash images (in-flight un-synced file replaced by every prefix, zeros, stale bytes, mixed) and a fresh instance must load each image as completely old or completely new; histories leading to the save are proptest-generated",
         "For index bucket save (incl. the retry loop), ResidencyDb::save, LRU checkpoint/shutdown, DiskCache::write_file and the compaction backup journal: all hook sites x all images are enumerated for every generated history (about 790k images per quick run). Oracle: the fresh instance opens, and every object equals what a fresh instance sees on the directory before or after the interrupted operation.",
         "Crash model: rename is atomic and ordered after the preceding fsync; un-synced file content may be any prefix / zeros / stale / mixed; directory-entry durability and sector reordering inside one write are not modelled. A hook label is trusted (a mutant that drops an fsync but keeps the after_sync site is not seen). Guard: a section that reaches zero crash points reports infrastructure trouble (exit 2).",
         "DESIGN.md §3 C06, §4"),
 "C20": ("pbt+net", "exploration",
         "generated hostile strings (separators, '..', absolute paths, over-long names, non-ASCII) for every public API that turns a string into a file path or URL, executed inside a sandbox directory; oracle = recursive before/after listing of the sandbox parent (nothing outside the configured root created, changed, read or removed), no panic, and injectivity of well-formed typed keys",
         "DiskCache (flat and hashed layouts) with free-string and all ten typed keys, ProtocolCache, RibbitTactClient::query against a loopback mock, CdnClient download/download_archive_index/download_range with keys of length 0..=32 and offsets/lengths incl. 0 and u64::MAX, Storage::open_installation, and the fixed-width path builders. Reads/deletes outside the root are made observable by planting a foreign file at the resolved target and using a fresh instance.",
         "Safety and domain: every string is resolved lexically before the call and skipped (counted) unless it stays inside the sandbox parent (<= 8 '..' components, absolute paths only below the parent); no symlinks, no NUL bytes. CDN hosts are loopback spellings only.",
         "DESIGN.md §3 C20"),
 "C12": ("pbt+enum", "exploration",
         "model-based stateful testing of MultiLayerCacheImpl: generated and exhaustively enumerated histories of puts/gets/promotions/removes/batches/validated accesses interleaved with corruption of the disk layer's files, judged against a per-key per-layer model with eviction uncertainty; every case runs under a watchdog for the 'every call returns' clause",
         "[Memory(2-3), Disk] and [Memory(1-2), Memory(8), Disk], all eviction policies and promotion strategies, hooks none/MD5/NGDP; all sequences of <= 4 ops (5 thorough) over a 10-op alphabet on one hot key are enumerated. Hard clauses: a served value was put for that key and not removed; after remove/clear/validation drop every layer misses; a value held only by a slower layer is found; faster layers first; validated reads only return bytes hashing to the key and drop corrupted entries everywhere; batch = element-wise single; plus the latest-value clause.",
         "Trusted: the layer model (first layer uncertain once the model counts it full); the reference MD5. A hang is reported only if two runs (60 s, then 180 s) stop in the same call with the thread asleep; statement-silent behaviour (contains==true, get_from_layer staleness, Err after a delete fault) is not judged.",
         "DESIGN.md §3 C12"),
 "C07": ("enum+pbt", "fault_enumeration",
         "fault enumeration: every single-bit flip (exhaustive for regions <= 8 KiB, sampled for fixtures), byte substitutions, deletions and insertions inside the protected region of valid artifacts must make the load fail; proptest put/corrupt/get sequences on the validating caches; acceptances are re-judged with reference MD5/lookup3 so true guard collisions are counted, not reported",
         "Encoding pages and stored page MD5s (builder file exhaustively, CDN fixtures sampled), archive index footer [8..28) (parse and ChunkedArchiveIndex::open), every byte of .lru checkpoint files, update entries / update section / .idx loader, local headers for every base offset mod 4, real V1 responses produced by the server code (every byte before the Checksum line), and ContentAddressedCache / MultiLayerCacheImpl sequences with corruption of the backing store: a validating read never returns bytes whose MD5 differs from the key and a detected corruption removes the entry everywhere.",
         "Trusted: reference MD5 and lookup3; a case whose un-mutated artifact is rejected is vacuous and reported as infrastructure trouble. A raw status byte that aliases to the same entry is counted, not reported. toc_hash is documented as unchecked and excluded.",
         "DESIGN.md §3 C07"),
 "C11": ("sched", "exploration",
         "deterministic schedule exploration: every concurrent task is an OS thread with its own current-thread runtime, a baton scheduler driven by the verif-hooks sched_point call sites lets the generated schedule pick the next thread at every shared-state access; exhaustive DFS over all interleavings with a pre-emption bound for 2x2 programs, proptest-generated programs and schedules beyond; oracle = Wing-Gong linearizability search against the sequential cache model + bookkeeping sweep",
         "MemoryCache (1,998 one-key 2x2 programs x 3 set-ups at <= 3 pre-emptions, 9,770 two-key programs at <= 2: 650k schedules), DiskCache (<= 2 pre-emptions) and DynamicContainer (<= 3) are explored exhaustively; random sections run 2-3 tasks x 1-3 ops over up to 3 keys, and an eviction section with max_entries 1-3. Judged: a linearization exists, no torn/foreign value, no error without a conflicting overlapping op, counters equal contents after the sweep, no panic.",
         "Interleavings only at the 40 hook sites (none where a lock guard is held); races inside DashMap/parking_lot and real multi-core memory ordering are outside the hook granularity. A failing run is attributed to a known key when that key's racing pairs are a subset of the run's. A hand-over that does not complete within 60 s is infrastructure trouble (exit 2).",
         "DESIGN.md §3 C11, §4"),
 "C15": ("net+pbt", "exploration",
         "generated build databases served by the REAL Ribbit TCP (v1, v2) and HTTP servers on loopback ports and read back by this project's own clients (incl. V1 MIME checksum verification); oracle = the generated database (newest build by instant, ties accepted); plus generated hostile request lines from concurrent clients with a liveness probe",
         "An enumeration of 263 single-feature databases (18 special strings x {product, version, cdn_path} x {start, middle, end, alone}, build/keyring/hash-case/tie/UTC-offset variants) and proptest databases (1-6 products, 1-4 builds, adversarial strings, mixed offsets, ties); every product x {versions, cdns, bgdl} x {RibbitClient v1, v2, TactClient http} + v1 summary is compared by typed column. Hostile traffic: unknown product/endpoint, wrong arity, empty, 64 KiB, non-UTF-8, unknown version prefix, HTTP garbage (thorough: never-terminated and bursts) must get an error or a close, never data, while a well-formed probe keeps being answered; server task panics are detected.",
         "Real kernel sockets on the loopback; the multi-client clause interleaves tasks on one runtime thread and is best effort; a probe counts as unanswered only after 4 missed attempts (>= 2 minutes); other watchdog hits are infrastructure trouble.",
         "DESIGN.md §3 C15"),
 "C13": ("net+pbt", "exploration",
         "generated fault assignments and query scripts against three loopback mock endpoints owned by the harness (two HTTP mocks in the TACT HTTPS/HTTP slots, one Ribbit TCP mock), judged by a decision table derived from the statement on the mocks' ordered request logs and the returned documents; exhaustive sweep of TCP segmentations",
         "Behaviours per endpoint: valid BPSV, valid V1 MIME in 8 wire formats, 5xx, 429 +- Retry-After, 4xx (some with a valid body), 200 with 6 malformed bodies, refused, closed at accept / in the head / in the body (thorough: stall until the client's own timeout) x 5 endpoint classes x memory cache or cache directory x TTLs ZERO/1 h x scripts with second queries, behaviour flips and a new client on the same cache directory. Clauses: contact order HTTPS, HTTP, TCP; next endpoint iff the failure was transient; definitive refusal stops; first well-formed answer returned; nothing cached after a failed query; cache hit without traffic iff TTL 1 h. Every single split point of a 1-row answer in each wire format (and random multi-splits up to 13 KiB) must parse to the unsplit document.",
         "TLS is not exercised (the client accepts http:// URLs in the HTTPS slot); packet splits are best effort on the real kernel (TCP_NODELAY, 2 ms gaps); mocks answer Connection: close. Every failure must reproduce in one of two re-executions, otherwise it is infrastructure trouble (exit 2).",
         "DESIGN.md §3 C13"),
}

NOT_YET = "check not built yet in this session (work in progress; see DESIGN.md §3 for the planned generator and oracle)"

def main():
    props = [json.loads(l) for l in open(os.path.join(HERE, "properties.jsonl"))]
    hooks_commits = []
    try:
        out = subprocess.run(["git", "-C", "/repo", "log", "--format=%H %s"], capture_output=True, text=True).stdout
        hooks_commits = [l.split()[0] for l in out.splitlines() if "verif-hooks" in l]
    except Exception:
        pass
    checks, na = [], []
    for p in props:
        pid = p["id"]
        if pid in CHECKS:
            eng, cat, tech, text, note, ref = CHECKS[pid]
            checks.append({
                "property_id": pid,
                "quick_cmd": f"./check {pid} --tier quick",
                "thorough_cmd": f"./check {pid} --tier thorough",
                "evidence_file": f"/verif/evidence/{pid}.json",
                "replay_cmd_template": f"./check {pid} --replay {{path}}",
                "engine": eng,
                "level_claimed": {"category": cat, "text": text + " Sections and generator classes added after the five rounds of seeded changes (DESIGN.md §10.5.1) run in the same tiers; the evidence file lists every section with its case counts and classes.", "design_ref": ref},
                "level_note": note,
                "technique": tech,
            })
        else:
            na.append({"property_id": pid, "reason": NOT_YET})
    m = {
        "version": 1,
        "setup_cmd": "cd /verif/harness && CARGO_NET_OFFLINE=true cargo build --release --offline --workspace && ./target/release/vh-selftest",
        "hooks": {
            "guard": "verif-hooks",
            "enable": "cargo feature `verif-hooks` on cascette-cache and cascette-client-storage; enabled by the path dependencies in /verif/harness/Cargo.toml, so every ./check build compiles /repo's working tree with hooks on",
            "baseline_off_cmd": "cd /repo && cargo test --workspace --no-fail-fast --offline",
            "source_commits": hooks_commits,
            "add_only": True,
        },
        "engines": [
            {"name": "iso", "path": "harness/engine/src/iso.rs", "serves_properties": ["C02", "C08"],
             "kind_free_text": "mutation fuzzing with master/worker process isolation: a tracking global allocator refuses out-of-proportion requests, the master attributes worker deaths (abort, stack overflow, OOM) and CPU-budget hangs to the input in flight, minimises failing inputs and writes them as replay files"},
            {"name": "pbt+enum", "path": "harness/engine/src/lib.rs", "serves_properties": sorted(CHECKS),
             "kind_free_text": "proptest TestRunner driven from per-property binaries (fixed seeds from VERIF_SEED, sharded over threads, shrinking to a JSON replay file) plus deterministic enumeration of finite sub-scopes; explicit oracles (reference model, round trip, differential, invariant)"},
        ],
        "checks": checks,
        "not_applicable": na,
        "notes": "All checks are property-based testing / fuzzing: generated inputs, histories, schedules or faults judged by an explicit oracle. Exit 2 = infrastructure trouble, never a verdict. known_findings.json lists genuine defects recorded rather than repaired.",
    }
    json.dump(m, open(os.path.join(HERE, "MANIFEST.json"), "w"), indent=1)
    print(f"MANIFEST.json: {len(checks)} checks, {len(na)} not yet claimed")

if __name__ == "__main__":
    main()
