#!/usr/bin/env python3
"""tools/kf.py merge <proposed.json> [--fixed key=commit ...]
Merges proposed known-finding entries into /verif/known_findings.json (dev-time tool; the checks never write that file)."""
import json, sys, os
HERE = os.path.dirname(os.path.dirname(os.path.abspath(__file__)))
path = os.path.join(HERE, "known_findings.json")
cur = json.load(open(path))
prop = json.load(open(sys.argv[2]))
fixed = {}
for a in sys.argv[3:]:
    if a == "--fixed": continue
    k, c = a.rsplit("=", 1)
    fixed[k] = c
keys = {e["key"]: e for e in cur}
for e in prop:
    e = dict(e)
    if e["key"] in fixed:
        e["status"] = "fixed"
        e["commit"] = fixed[e["key"]]
    keys[e["key"]] = e
out = sorted(keys.values(), key=lambda e: (e["property"], e["key"]))
json.dump(out, open(path, "w"), indent=1)
print(f"{len(out)} entries ({sum(1 for e in out if e['status']=='open')} open)")
