#!/bin/bash
# tools/flaky_confirm.sh <ID> <k> <crate> <test-name-filter>
# A seeded change whose suite run had one failing wall-clock test: re-runs that test alone, three
# times, with the change applied; all green => the failure was load, and the change is confirmed.
set -u
ID="$1"; K="$2"; CRATE="$3"; T="$4"
WT=/tmp/seed/$ID; DEST=/verif/seeded/$ID-$K
export CARGO_TARGET_DIR=/tmp/seed/$ID-target CARGO_NET_OFFLINE=true
cd "$WT" && git reset -q --hard && git clean -fdq && git checkout -q --detach main || exit 2
git apply "$DEST/patch.diff" 2>/dev/null || git apply -3 "$DEST/patch.diff" || { git reset -q --hard; exit 2; }
git reset -q
ok=0
for i in 1 2 3; do cargo test -p "$CRATE" --offline --lib "$T" > "$DEST/flaky_rerun_$i.log" 2>&1 && ok=$((ok+1)); done
git reset -q --hard; git clean -fdq
python3 - <<PY
import json
p="$DEST/eval.json"; e=json.load(open(p))
e["suite_rerun"]={"test":"$CRATE $T","runs":3,"passed":$ok,"ran":"tools/flaky_confirm.sh $ID $K $CRATE $T"}
if $ok==3 and e["demo_on_clean_tree_exit"]==0 and e["demo_with_patch_exit"]!=0:
    e["confirmed"]=True
    e["confirmed_note"]="the only failing test of the suite run, $T, measures wall-clock time and is unrelated to the change; re-run alone with the change applied it passed 3 of 3 times"
json.dump(e,open(p,"w"),indent=1)
print("$ID-$K", "rerun passed", $ok, "of 3; confirmed =", e["confirmed"])
PY
