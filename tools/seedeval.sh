#!/bin/bash
# tools/seedeval.sh <ID> <k>
# Confirms a seeded change produced by an independent sub-agent (in /tmp/seed/<ID>-out/<k>/) and
# runs the registered quick check of <ID> against it, without touching /repo:
#   1. clean worktree /tmp/seed/<ID>: demo passes
#   2. with the patch: demo fails, the whole existing workspace test suite still passes
#   3. harness copy /tmp/seed/<ID>-h (path deps -> the patched worktree): ./vh-cNN --tier quick
# Result: /verif/seeded/<ID>-<k>/{patch.diff,demo/,meta.json,eval.json,check.log}
set -u
ID="$1"; K="$2"; id=$(echo "$ID" | tr A-Z a-z)
WT=/tmp/seed/$ID; OUT=/tmp/seed/$ID-out/$K; H=/tmp/seed/$ID-h; DEST=/verif/seeded/$ID-$K
export CARGO_TARGET_DIR=/tmp/seed/$ID-target CARGO_NET_OFFLINE=true
[ -f "$OUT/patch.diff" ] || { echo "no patch in $OUT"; exit 2; }
mkdir -p "$DEST"; cp "$OUT/patch.diff" "$OUT/meta.json" "$DEST/"; rm -rf "$DEST/demo"; cp -r "$OUT/demo" "$DEST/demo"
copy_to=$(python3 -c "import json;print(json.load(open('$OUT/meta.json'))['demo_copy_to'].split(' (')[0].strip())")
crate=$(echo "$copy_to" | sed -E 's#crates/([^/]+)/.*#\1#')
tname=$(basename "$copy_to" .rs)
# the demo is run with the command its author recorded (it may need --features verif-hooks)
demo_cmd=$(python3 -c "import json;print(json.load(open('$OUT/meta.json')).get('demo_cmd',''))")
case "$demo_cmd" in *cargo\ test*) ;; *) demo_cmd="cargo test -p $crate --offline --test $tname";; esac
cd "$WT" && git reset -q --hard && git clean -fdq && git checkout -q --detach main
# 1. demo on clean tree
mkdir -p "$(dirname "$copy_to")"; cp "$OUT/demo/$(basename "$copy_to")" "$copy_to" 2>/dev/null || cp "$OUT"/demo/*.rs "$copy_to"
( eval "$demo_cmd" ) > "$DEST/demo_clean.log" 2>&1; demo_clean=$?
# 2. with the patch
git apply "$OUT/patch.diff" 2>/dev/null || git apply -3 "$OUT/patch.diff" || { echo "patch does not apply to $(git log --format=%h -1)"; git reset -q --hard; git clean -fdq; exit 2; }
git reset -q
( eval "$demo_cmd" ) > "$DEST/demo_patched.log" 2>&1; demo_patched=$?
rm -f "$copy_to"; rmdir "$(dirname "$copy_to")" 2>/dev/null
cargo test --workspace --offline --no-fail-fast > "$DEST/suite_patched.log" 2>&1; suite=$?
suite_summary=$(grep -E "^test result" "$DEST/suite_patched.log" | awk '{p+=$4; f+=$6} END {print p" passed, "f" failed"}')
# 3. the registered quick check against the patched tree
mkdir -p "$H/.cargo" "$H/verif/evidence"
cp /verif/harness/Cargo.lock "$H/"; cp /verif/harness/.cargo/config.toml "$H/.cargo/"
members="\"engine\", \"$id\""; [ "$id" = "c08" ] && members="\"engine\", \"c02\", \"c08\""
sed -e "s#/repo/crates#$WT/crates#g" -e "s#members = .*#members = [$members]#" /verif/harness/Cargo.toml > "$H/Cargo.toml"
ln -sfn /verif/harness/engine "$H/engine"; ln -sfn "/verif/harness/$id" "$H/$id"; [ "$id" = "c08" ] && ln -sfn /verif/harness/c02 "$H/c02"
cp /verif/known_findings.json "$H/verif/"; rm -rf "$H/verif/replays"; mkdir -p "$H/verif/replays"; [ -d "/verif/replays/$ID" ] && cp -r "/verif/replays/$ID" "$H/verif/replays/"
rm -rf "$H/verif/replays/$ID/found"
( cd "$H" && CARGO_TARGET_DIR="$H/target" cargo build --release --offline -p "vh-$id" > "$DEST/check_build.log" 2>&1 )
build=$?
t0=$(date +%s)
( cd "$H" && VERIF_DIR="$H/verif" timeout 3600 "$H/target/release/vh-$id" --tier quick > "$DEST/check.log" 2>&1 ); check=$?
t1=$(date +%s)
viol=$(grep -c "^VIOLATION" "$DEST/check.log")
mkdir -p "$DEST/found"; cp "$H"/verif/replays/$ID/found/*.json "$DEST/found/" 2>/dev/null
cd "$WT" && git checkout -q -- . && git clean -fdq
python3 - <<PY
import json
json.dump({"id":"$ID-$K","property":"$ID","demo_on_clean_tree_exit":$demo_clean,"demo_with_patch_exit":$demo_patched,
 "existing_suite_with_patch_exit":$suite,"existing_suite_with_patch":"$suite_summary","confirmed": ($demo_clean==0 and $demo_patched!=0 and $suite==0),
 "check_build_exit":$build,"check_quick_exit":$check,"check_violation_lines":$viol,"check_wall_s":$t1-$t0,
 "detected": ($check==1 and $viol>0),
 "ran":"tools/seedeval.sh $ID $K (demo on clean tree; demo + cargo test --workspace --offline --no-fail-fast with the patch; vh-$id --tier quick against the patched worktree)"},
 open("$DEST/eval.json","w"),indent=1)
PY
cat "$DEST/eval.json"
