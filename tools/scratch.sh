#!/bin/bash
# tools/scratch.sh <id>           e.g. tools/scratch.sh c05
# Creates, for sensitivity experiments that must not touch /repo:
#   /tmp/wt-<id>      git worktree of /repo HEAD (mutate this one)
#   /tmp/h-<id>       harness workspace whose path deps point at the worktree;
#                     engine/ and <id>/ are symlinks to /verif/harness (edits are live)
# Run the check against the scratch tree with:
#   cd /tmp/h-<id> && cargo build --release --offline -p vh-<id> && VERIF_DIR=/tmp/h-<id>/verif ./target/release/vh-<id> --tier quick
# Remove both when done:  tools/scratch.sh <id> --remove
set -eu
id="$1"
if [ "${2:-}" = "--remove" ]; then
  git -C /repo worktree remove --force "/tmp/wt-$id" 2>/dev/null || true
  rm -rf "/tmp/wt-$id" "/tmp/h-$id"
  git -C /repo worktree prune
  exit 0
fi
[ -d "/tmp/wt-$id" ] || git -C /repo worktree add --detach "/tmp/wt-$id" HEAD >/dev/null
mkdir -p "/tmp/h-$id/verif/evidence" "/tmp/h-$id/verif/replays" "/tmp/h-$id/.cargo"
cp /verif/harness/Cargo.lock "/tmp/h-$id/Cargo.lock"
cp /verif/harness/.cargo/config.toml "/tmp/h-$id/.cargo/config.toml"
sed -e "s#/repo/crates#/tmp/wt-$id/crates#g" -e "s#members = .*#members = [\"engine\", \"$id\"]#" /verif/harness/Cargo.toml > "/tmp/h-$id/Cargo.toml"
ln -sfn /verif/harness/engine "/tmp/h-$id/engine"
ln -sfn "/verif/harness/$id" "/tmp/h-$id/$id"
cp /verif/known_findings.json "/tmp/h-$id/verif/known_findings.json"
[ -d "/verif/replays/$(echo "$id" | tr a-z A-Z)" ] && cp -r "/verif/replays/$(echo "$id" | tr a-z A-Z)" "/tmp/h-$id/verif/replays/" || true
echo "worktree: /tmp/wt-$id   harness: /tmp/h-$id"
