#!/bin/bash
# tools/recheck_seeds.sh <ID>...   — re-runs the registered quick check of each <ID> against every
# seeded change of that property applied to the *current* /repo main (scratch worktree /tmp/seed/<ID>,
# harness copy /tmp/seed/<ID>-h) and records the outcome as "recheck" in seeded/<ID>-<k>/eval.json.
set -u
for ID in "$@"; do
  id=$(echo "$ID" | tr A-Z a-z); WT=/tmp/seed/$ID; H=/tmp/seed/$ID-h
  [ -d "$WT" ] || git -C /repo worktree add --detach "$WT" main >/dev/null 2>&1
  mkdir -p "$H/.cargo" "$H/verif/evidence"
  cp /verif/harness/Cargo.lock "$H/"; cp /verif/harness/.cargo/config.toml "$H/.cargo/"
  members="\"engine\", \"$id\""; [ "$id" = "c08" ] && members="\"engine\", \"c02\", \"c08\""
  sed -e "s#/repo/crates#$WT/crates#g" -e "s#members = .*#members = [$members]#" /verif/harness/Cargo.toml > "$H/Cargo.toml"
  ln -sfn /verif/harness/engine "$H/engine"; ln -sfn "/verif/harness/$id" "$H/$id"; [ "$id" = "c08" ] && ln -sfn /verif/harness/c02 "$H/c02"
  for K in 1 2 3 4 5 6; do
    D=/verif/seeded/$ID-$K; [ -f "$D/patch.diff" ] || continue
    cd "$WT" && git reset -q --hard && git clean -fdq && git checkout -q --detach main
    base=$(git log --format=%h -1)
    if git apply "$D/patch.diff" 2>/dev/null || git apply -3 "$D/patch.diff" 2>/dev/null; then git reset -q; applies=true; else git reset -q --hard; applies=false; fi
    viol=0; rc=-1; keys=""
    if $applies; then
      cp /verif/known_findings.json "$H/verif/"; rm -rf "$H/verif/replays"; mkdir -p "$H/verif/replays"; [ -d "/verif/replays/$ID" ] && cp -r "/verif/replays/$ID" "$H/verif/replays/"; rm -rf "$H/verif/replays/$ID/found"
      ( cd "$H" && CARGO_TARGET_DIR="$H/target" cargo build --release --offline -p "vh-$id" > "$D/recheck_build.log" 2>&1 )
      if [ $? -eq 0 ]; then
        ( cd "$H" && VERIF_DIR="$H/verif" timeout 3600 "$H/target/release/vh-$id" --tier quick > "$D/recheck.log" 2>&1 ); rc=$?
        viol=$(grep -c "^VIOLATION" "$D/recheck.log")
        keys=$(grep "^failure" "$D/recheck.log" | sed -E 's/.* key=([^ ]+) msg=.*/\1/' | sort -u | head -3 | tr '\n' ' ')
      else rc=-2; fi
    fi
    python3 - "$D/eval.json" "$base" "$applies" "$rc" "$viol" "$keys" <<'PY'
import json,sys
p,base,applies,rc,viol,keys=sys.argv[1:7]
e=json.load(open(p))
e['recheck']={'repo_main':base,'patch_applies':applies=='true','check_quick_exit':int(rc),'violation_lines':int(viol),'detected':applies=='true' and int(rc)==1 and int(viol)>0,'first_keys':keys.split()}
json.dump(e,open(p,'w'),indent=1)
PY
    cd "$WT" && git reset -q --hard
    echo "$ID-$K applies=$applies rc=$rc viol=$viol $keys"
  done
done
