//! Payload classes and the harness's own BLTE / local-header encoders.
//!
//! Nothing here calls the code under test: the encoding key of an object is
//! computed from the documented layout (`MD5(BLTE(single chunk, 'N'))`) with
//! the reference MD5 of the engine.

use serde::{Deserialize, Serialize};
use vh_engine::refimpl::{lookup3, md5};
use vh_engine::util::Rng;

#[derive(Debug, Clone, Copy, PartialEq, Eq, Serialize, Deserialize)]
pub enum Class {
    /// uniformly random bytes
    Random,
    /// short period repeated (compresses well under Z / LZ4)
    Compressible,
    /// "BLTE" followed by random bytes (not a valid BLTE file)
    StartsBlte,
    /// random bytes with "BLTE" at offset 0x1E (what an archive entry looks like)
    BlteAt1E,
    /// a complete, valid single-chunk BLTE file (header size 0, mode 'N')
    NestedBlte,
    /// a complete, valid BLTE file with a chunk table (two 'N' chunks, MD5 checksums)
    NestedBlteMulti,
    /// a complete 30-byte local header followed by a valid BLTE file
    HeaderPlusBlte,
}

pub const ALL_CLASSES: [Class; 7] = [
    Class::Random,
    Class::Compressible,
    Class::StartsBlte,
    Class::BlteAt1E,
    Class::NestedBlte,
    Class::NestedBlteMulti,
    Class::HeaderPlusBlte,
];

impl Class {
    pub fn label(self) -> &'static str {
        match self {
            Class::Random => "payload:random",
            Class::Compressible => "payload:compressible",
            Class::StartsBlte => "payload:starts-with-BLTE",
            Class::BlteAt1E => "payload:BLTE-at-0x1E",
            Class::NestedBlte => "payload:nested-blte",
            Class::NestedBlteMulti => "payload:nested-blte-chunk-table",
            Class::HeaderPlusBlte => "payload:local-header+blte",
        }
    }
}

/// BLTE file with header size 0: magic, 0u32, then one chunk = mode byte + data.
pub fn blte_single_n(data: &[u8]) -> Vec<u8> {
    let mut v = Vec::with_capacity(data.len() + 9);
    v.extend_from_slice(b"BLTE");
    v.extend_from_slice(&0u32.to_be_bytes());
    v.push(b'N');
    v.extend_from_slice(data);
    v
}

/// BLTE file with a standard chunk table (flags 0x0F, 24-byte infos).
pub fn blte_table_n(chunks: &[&[u8]]) -> Vec<u8> {
    let n = chunks.len();
    let header_size = 8 + 4 + 24 * n;
    let mut v = Vec::new();
    v.extend_from_slice(b"BLTE");
    v.extend_from_slice(&(header_size as u32).to_be_bytes());
    v.push(0x0F);
    v.extend_from_slice(&(n as u32).to_be_bytes()[1..]);
    let mut bodies = Vec::new();
    for c in chunks {
        let mut body = Vec::with_capacity(c.len() + 1);
        body.push(b'N');
        body.extend_from_slice(c);
        v.extend_from_slice(&(body.len() as u32).to_be_bytes());
        v.extend_from_slice(&(c.len() as u32).to_be_bytes());
        v.extend_from_slice(&md5::md5(&body));
        bodies.push(body);
    }
    for b in bodies {
        v.extend_from_slice(&b);
    }
    v
}

/// The key under which the storage documents to index an object written
/// without compression: MD5 of its single-chunk 'N' BLTE encoding.
pub fn ekey_n(data: &[u8]) -> [u8; 16] {
    md5::md5(&blte_single_n(data))
}

/// 30-byte local header as laid out in `local_header.rs`'s module docs:
/// reversed key | BE size incl. header | LE flags | checksum A | checksum B.
pub fn local_header(ekey: &[u8; 16], blte_len: u32, base_offset: usize) -> [u8; 30] {
    let mut h = [0u8; 30];
    for i in 0..16 {
        h[i] = ekey[15 - i];
    }
    h[16..20].copy_from_slice(&(blte_len + 30).to_be_bytes());
    let a = lookup3::hashlittle(&h[..22], 0x3D6B_E971);
    h[22..26].copy_from_slice(&a.to_le_bytes());
    let mut b = [0u8; 4];
    for i in 0..26 {
        b[(base_offset + i) & 3] ^= h[i];
    }
    h[26..30].copy_from_slice(&b);
    h
}

/// Build the payload for (class, len, seed). The result has length `len`
/// for the unstructured classes and at least the structure's minimum for the
/// structured ones. For the classes that are a valid BLTE container the second
/// value is the content *inside* that container (what a reader that decodes
/// once too often would hand back) — used only to attribute a mismatch to its
/// root cause, never for the verdict.
pub fn build(class: Class, len: u32, seed: u64) -> (Vec<u8>, Option<Vec<u8>>) {
    let len = len as usize;
    let mut r = Rng::new(seed);
    match class {
        Class::Random => (r.bytes(len), None),
        Class::Compressible => {
            let period = 1 + r.below(16) as usize;
            let pat = r.bytes(period);
            ((0..len).map(|i| pat[i % period]).collect(), None)
        }
        Class::StartsBlte => {
            let mut v = r.bytes(len);
            for (i, b) in b"BLTE".iter().enumerate() {
                if i < v.len() {
                    v[i] = *b;
                }
            }
            (v, None)
        }
        Class::BlteAt1E => {
            let mut v = r.bytes(len);
            for (i, b) in b"BLTE".iter().enumerate() {
                if 30 + i < v.len() {
                    v[30 + i] = *b;
                }
            }
            (v, None)
        }
        Class::NestedBlte => {
            let inner = r.bytes(len.saturating_sub(9));
            (blte_single_n(&inner), Some(inner))
        }
        Class::NestedBlteMulti => {
            let inner = r.bytes(len.saturating_sub(62));
            let cut = if inner.is_empty() { 0 } else { r.below(inner.len() as u64 + 1) as usize };
            (blte_table_n(&[&inner[..cut], &inner[cut..]]), Some(inner))
        }
        Class::HeaderPlusBlte => {
            let inner = r.bytes(len.saturating_sub(39));
            let blte = blte_single_n(&inner);
            let key = md5::md5(&blte);
            let mut v = local_header(&key, blte.len() as u32, r.below(4) as usize).to_vec();
            v.extend_from_slice(&blte);
            (v, Some(inner))
        }
    }
}

/// Does the content carry the BLTE magic where a BLTE sniffing reader would
/// look for it (offset 0 or offset 0x1E)?  Used for the non-trivial rule and
/// to pick the narrow failure key — never for the verdict itself.
pub fn looks_like_blte(data: &[u8]) -> bool {
    (data.len() >= 4 && &data[..4] == b"BLTE") || (data.len() >= 34 && &data[30..34] == b"BLTE")
}
