//! C04 — local storage returns every stored object byte-for-byte, at any later time.
//!
//! Three systems are driven through histories of writes, reads, queries,
//! removes, flushes and reopen, against a map model keyed by the encoding key
//! the harness computes itself (`MD5(BLTE(single chunk,'N'))`):
//!   (a) `DynamicContainer` through the `Container` trait,
//!   (b) `Installation::{write_file, read_file_by_encoding_key, has_encoding_key}`,
//!   (c) `ArchiveManager::{write_content_with_mode(N|Z|4), read_content}`.

mod payload;

use cascette_client_storage::container::{Container, DynamicContainer};
use cascette_client_storage::storage::archive_file::ArchiveManager;
use cascette_client_storage::{Installation, StorageError};
use cascette_crypto::EncodingKey;
use cascette_formats::blte::CompressionMode;
use payload::{ALL_CLASSES, Class};
use proptest::prelude::*;
use serde::{Deserialize, Serialize};
use std::collections::BTreeMap;
use std::future::Future;
use std::path::{Path, PathBuf};
use std::pin::Pin;
use std::sync::Arc;
use std::task::{Context, Poll};
use vh_engine::refimpl::md5;
use vh_engine::util::{PanicInfo, Rng, catch_panic};
use vh_engine::{Check, Known, Section, Tier, Verdict, pick_idx};

// ---------------------------------------------------------------------------
// narrow keys of the root causes this check can tell apart
// ---------------------------------------------------------------------------

/// The entry is intact on disk but the read is bounded by a memory mapping
/// taken before the entry was appended.
const KEY_MMAP: &str = "C04:archive-mmap:stale-mapping-hides-written-entry";
/// `Installation` decodes BLTE a second time by sniffing the magic in the
/// already decoded content.
const KEY_DOUBLE_DECODE: &str = "C04:installation:blte-looking-content-altered-or-rejected";
/// Same path, but the second decode panics inside the BLTE parser
/// (`expect("valid header flags byte")`) instead of returning an error.
const KEY_DOUBLE_DECODE_PANIC: &str = "C04:installation:blte-looking-content-panics-in-second-decode";
/// `Installation::write_file` never saves its index: nothing survives reopen.
const KEY_INSTALL_LOST: &str = "C04:installation:index-not-persisted-across-reopen";

#[derive(Debug, Clone, Copy, PartialEq, Eq, Serialize, Deserialize)]
enum Sys {
    Container,
    Installation,
    Archive,
}

impl Sys {
    fn name(self) -> &'static str {
        match self {
            Sys::Container => "container",
            Sys::Installation => "installation",
            Sys::Archive => "archive",
        }
    }
}

#[derive(Debug, Clone, Serialize, Deserialize)]
enum Op {
    /// store a new object. `mode`: archive system 0=N 1=Z 2=LZ4; installation: compress flag = mode != 0
    Write { class: Class, len: u32, seed: u64, mode: u8 },
    /// store the content of the i-th earlier write once more
    Rewrite(u16),
    Read(u16),
    Query(u16),
    /// query/read a key derived from the seed that was never written
    QueryAbsent(u64),
    Remove(u16),
    Flush,
    FlushBucket(u8),
    /// drop the object and open the same directory again
    Reopen,
    Compact,
    /// a write while the process may not let any file grow beyond the current size of the largest
    /// data file plus `slack` bytes (RLIMIT_FSIZE; SIGXFSZ ignored): the disk is as good as full,
    /// the write fails after part of its bytes reached the file. Only in a section that runs on one
    /// thread: the limit is the process's
    WriteAtFileSizeLimit { len: u32, seed: u64, slack: u16 },
    /// store `n` distinct 8-byte objects whose encoding keys all fall into index bucket `bucket`
    /// (contents are re-drawn from `seed` until the key does): fills one bucket's update log
    FillBucket { bucket: u8, n: u16, seed: u64 },
}

#[derive(Debug, Clone, Serialize, Deserialize)]
struct Case {
    sys: Sys,
    /// observe every object after every step (true) or only on Read/Query ops,
    /// after Reopen and at the end (false)
    sweep_every_step: bool,
    ops: Vec<Op>,
}

// ---------------------------------------------------------------------------
// system under test
// ---------------------------------------------------------------------------

#[derive(Debug, Clone, Copy)]
struct Loc {
    archive_id: u16,
    offset: u32,
    size: u32,
}

enum Sut {
    C(DynamicContainer),
    I(Installation),
    A(ArchiveManager),
}

fn comp_mode(mode: u8) -> CompressionMode {
    match mode % 3 {
        0 => CompressionMode::None,
        1 => CompressionMode::ZLib,
        _ => CompressionMode::LZ4,
    }
}

impl Sut {
    /// The documented open sequence of each system on `root`.
    async fn open(sys: Sys, root: &Path) -> Result<Sut, StorageError> {
        match sys {
            Sys::Container => {
                let c = DynamicContainer::builder(root.join("store")).build()?;
                c.open().await?;
                Ok(Sut::C(c))
            }
            Sys::Installation => {
                let i = Installation::open(root.join("install"))?;
                i.initialize().await?;
                Ok(Sut::I(i))
            }
            Sys::Archive => {
                let dir = root.join("arch");
                std::fs::create_dir_all(&dir)?;
                let mut a = ArchiveManager::new(&dir);
                a.open_all().await?;
                Ok(Sut::A(a))
            }
        }
    }

    fn data_dir(sys: Sys, root: &Path) -> PathBuf {
        match sys {
            Sys::Container => root.join("store"),
            Sys::Installation => root.join("install").join(cascette_client_storage::DATA_DIR),
            Sys::Archive => root.join("arch"),
        }
    }

    async fn write(&mut self, key: &[u8; 16], data: &[u8], mode: u8) -> Result<Option<(Loc, [u8; 16])>, StorageError> {
        match self {
            Sut::C(c) => c.write(key, data).await.map(|()| None),
            Sut::I(i) => i.write_file(data.to_vec(), mode != 0).await.map(|_| None),
            Sut::A(a) => a
                .write_content_with_mode(data, comp_mode(mode))
                .map(|(archive_id, offset, size, ekey)| Some((Loc { archive_id, offset, size }, ekey))),
        }
    }

    async fn read(&self, key: &[u8; 16], loc: Option<Loc>, expect_len: usize) -> Result<Vec<u8>, StorageError> {
        match self {
            Sut::C(c) => {
                let mut buf = vec![0xA5u8; expect_len + 64];
                let n = c.read(key, 0, expect_len as u32, &mut buf).await?;
                buf.truncate(n);
                Ok(buf)
            }
            Sut::I(i) => i.read_file_by_encoding_key(&EncodingKey::from_bytes(*key)).await,
            Sut::A(a) => {
                let l = loc.expect("archive objects carry their location");
                a.read_content(l.archive_id, l.offset, l.size)
            }
        }
    }

    /// `read`, with a panic inside the call turned into `Err(PanicInfo)`.
    async fn read_caught(&self, key: &[u8; 16], loc: Option<Loc>, expect_len: usize) -> Result<Result<Vec<u8>, StorageError>, PanicInfo> {
        CatchPanic(Box::pin(self.read(key, loc, expect_len))).await
    }

    /// `None`: the system has no query API.
    async fn query(&self, key: &[u8; 16]) -> Option<Result<bool, StorageError>> {
        match self {
            Sut::C(c) => Some(c.query(key).await),
            Sut::I(i) => Some(Ok(i.has_encoding_key(&EncodingKey::from_bytes(*key)).await)),
            Sut::A(_) => None,
        }
    }
}

/// Future adapter: a panic while polling becomes `Err(PanicInfo)`.
struct CatchPanic<'a, T>(Pin<Box<dyn Future<Output = T> + 'a>>);

impl<T> Future for CatchPanic<'_, T> {
    type Output = Result<T, PanicInfo>;
    fn poll(mut self: Pin<&mut Self>, cx: &mut Context<'_>) -> Poll<Self::Output> {
        let inner = &mut self.0;
        match catch_panic(|| inner.as_mut().poll(cx)) {
            Ok(Poll::Pending) => Poll::Pending,
            Ok(Poll::Ready(v)) => Poll::Ready(Ok(v)),
            Err(p) => Poll::Ready(Err(p)),
        }
    }
}

// ---------------------------------------------------------------------------
// model
// ---------------------------------------------------------------------------

struct Obj {
    ekey: [u8; 16],
    data: Arc<Vec<u8>>,
    /// content inside the payload when the payload is itself a BLTE container (diagnosis only)
    inner: Option<Arc<Vec<u8>>>,
    class: Class,
    loc: Option<Loc>,
    /// where the harness expects the entry in data.000 (diagnosis only)
    exp_off: u64,
    exp_total: u64,
}

#[derive(Clone, Copy, PartialEq, Eq, Debug)]
enum St {
    Live,
    Removed,
    /// no expectation (tolerated known loss, or a remove that reported an error)
    Unknown,
}

#[derive(Default)]
struct Flags {
    writes: u32,
    read_nonlatest: bool,
    reopen_with_live: bool,
    blte_read_back: bool,
    classes: Vec<&'static str>,
    known_hits: Vec<String>,
}

impl Flags {
    fn class(&mut self, c: &'static str) {
        if !self.classes.contains(&c) {
            self.classes.push(c);
        }
    }
    fn hit(&mut self, k: &str) {
        if !self.known_hits.iter().any(|x| x == k) {
            self.known_hits.push(k.to_string());
        }
    }
}

struct Fail {
    key: String,
    msg: String,
}

fn fail(key: impl Into<String>, msg: impl Into<String>) -> Fail {
    Fail { key: key.into(), msg: msg.into() }
}

fn hex8(k: &[u8; 16]) -> String {
    k[..8].iter().map(|b| format!("{b:02x}")).collect()
}

/// Is the entry complete and correct in the data file itself?  (Reads the
/// file with plain I/O, bypassing the code under test.)
fn on_disk_intact(data_dir: &Path, off: u64, total: u64, ekey: &[u8; 16]) -> bool {
    use std::io::{Read, Seek, SeekFrom};
    let Ok(mut f) = std::fs::File::open(data_dir.join("data.000")) else { return false };
    let Ok(md) = f.metadata() else { return false };
    if md.len() < off + total || total < 39 {
        return false;
    }
    let mut buf = vec![0u8; total as usize];
    if f.seek(SeekFrom::Start(off)).is_err() || f.read_exact(&mut buf).is_err() {
        return false;
    }
    &buf[30..34] == b"BLTE" && &md5::md5(&buf[30..]) == ekey
}

fn is_bounds_error(e: &StorageError) -> bool {
    match e {
        StorageError::TruncatedRead(_) => true,
        StorageError::Archive(m) => m.contains("beyond archive bounds"),
        _ => false,
    }
}

struct World<'a> {
    sys: Sys,
    root: &'a Path,
    known: &'a Known,
    sut: Sut,
    objs: Vec<Obj>,
    st: BTreeMap<[u8; 16], St>,
    next_off: u64,
    fl: Flags,
}

impl World<'_> {
    fn tolerate(&mut self, key: &str, msg: String) -> Result<(), Fail> {
        if self.known.is_open(key) {
            self.fl.hit(key);
            Ok(())
        } else {
            Err(fail(key, msg))
        }
    }

    fn state_of(&self, i: usize) -> St {
        match self.sys {
            Sys::Archive => St::Live,
            _ => *self.st.get(&self.objs[i].ekey).unwrap_or(&St::Unknown),
        }
    }

    /// Observe object `i`: a live object reads back exactly and is reported
    /// present; a removed one is absent.
    async fn observe(&mut self, i: usize, phase: &'static str) -> Result<(), Fail> {
        let sys = self.sys.name();
        let (ekey, data, loc, class, inner) = {
            let o = &self.objs[i];
            (o.ekey, o.data.clone(), o.loc, o.class, o.inner.clone())
        };
        match self.state_of(i) {
            St::Unknown => Ok(()),
            St::Removed => {
                if let Some(q) = self.sut.query(&ekey).await {
                    if matches!(q, Ok(true)) {
                        return Err(fail(
                            format!("C04:{sys}:removed-key-still-present"),
                            format!("{phase}: query({}) is true after remove", hex8(&ekey)),
                        ));
                    }
                }
                if let Ok(b) = self.sut.read(&ekey, loc, data.len()).await {
                    return Err(fail(
                        format!("C04:{sys}:removed-key-still-readable"),
                        format!("{phase}: read({}) returned {} bytes after remove", hex8(&ekey), b.len()),
                    ));
                }
                Ok(())
            }
            St::Live => {
                if i + 1 < self.objs.len() && self.fl.writes >= 2 {
                    self.fl.read_nonlatest = true;
                }
                if let Some(q) = self.sut.query(&ekey).await {
                    match q {
                        Ok(true) => {}
                        Ok(false) => {
                            return Err(fail(
                                format!("C04:{sys}:live-key-reported-absent-by-query{}", if phase == "after-reopen" { ":after-reopen" } else { "" }),
                                format!("{phase}: object #{i} ({} bytes, key {}) written successfully, not removed, query says false", data.len(), hex8(&ekey)),
                            ));
                        }
                        Err(e) => {
                            return Err(fail(format!("C04:{sys}:query-error"), format!("{phase}: object #{i}: {e}")));
                        }
                    }
                }
                let blte_like = payload::looks_like_blte(&data);
                let got = match self.sut.read_caught(&ekey, loc, data.len()).await {
                    Ok(g) => g,
                    Err(p) => {
                        let msg = format!(
                            "{phase}: object #{i} class {:?} ({} bytes) read panicked at {}:{}: {}",
                            class,
                            data.len(),
                            p.file,
                            p.line,
                            p.msg
                        );
                        if self.sys == Sys::Installation && blte_like && p.file.contains("blte") {
                            return self.tolerate(KEY_DOUBLE_DECODE_PANIC, msg);
                        }
                        return Err(fail(format!("C04:{sys}:read-panics:{}:{}", p.file, p.norm_msg()), msg));
                    }
                };
                match got {
                    Ok(b) if b == *data => {
                        if blte_like {
                            self.fl.blte_read_back = true;
                            self.fl.class(class.label());
                        }
                        Ok(())
                    }
                    Ok(b) => {
                        let at = b.iter().zip(data.iter()).position(|(x, y)| x != y);
                        let msg = format!(
                            "{phase}: object #{i} class {:?}: wrote {} bytes, read back {} bytes, first difference at {:?}",
                            class,
                            data.len(),
                            b.len(),
                            at
                        );
                        // decoded once too often: the content inside the stored container came back
                        if self.sys == Sys::Installation && blte_like && inner.as_deref().is_some_and(|x| *x == b) {
                            return self.tolerate(KEY_DOUBLE_DECODE, format!("{msg}; the bytes returned are the content inside the stored BLTE container"));
                        }
                        if b.len() != data.len() {
                            Err(fail(format!("C04:{sys}:read-returns-wrong-length"), msg))
                        } else {
                            Err(fail(format!("C04:{sys}:read-returns-other-bytes"), msg))
                        }
                    }
                    Err(e) => {
                        let o = &self.objs[i];
                        let msg = format!(
                            "{phase}: object #{i} class {:?} ({} bytes, key {}, {} objects written) read failed: {e}",
                            class,
                            data.len(),
                            hex8(&ekey),
                            self.objs.len()
                        );
                        if is_bounds_error(&e) && on_disk_intact(&Sut::data_dir(self.sys, self.root), o.exp_off, o.exp_total, &ekey) {
                            return self.tolerate(KEY_MMAP, format!("{msg} — while the entry is intact in data.000 at offset {}", o.exp_off));
                        }
                        if self.sys == Sys::Installation && blte_like && matches!(&e, StorageError::Io(x) if x.to_string().contains("BLTE")) {
                            return self.tolerate(KEY_DOUBLE_DECODE, msg);
                        }
                        let kind = match &e {
                            StorageError::NotFound(_) => "live-key-reported-missing",
                            StorageError::TruncatedRead(_) => "live-key-reported-truncated",
                            _ => "live-key-read-error",
                        };
                        let suffix = if phase == "after-reopen" { ":after-reopen" } else { "" };
                        Err(fail(format!("C04:{sys}:{kind}{suffix}"), msg))
                    }
                }
            }
        }
    }

    async fn sweep(&mut self, phase: &'static str) -> Result<(), Fail> {
        let mut seen: Vec<[u8; 16]> = Vec::new();
        for i in 0..self.objs.len() {
            if self.sys != Sys::Archive {
                // one observation per key, through its most recent object
                let k = self.objs[i].ekey;
                if self.objs[i + 1..].iter().any(|o| o.ekey == k) || seen.contains(&k) {
                    continue;
                }
                seen.push(k);
            }
            self.observe(i, phase).await?;
        }
        Ok(())
    }

    async fn do_write(&mut self, data: Arc<Vec<u8>>, inner: Option<Arc<Vec<u8>>>, class: Class, mode: u8, key_style: u8, probe_first: bool) -> Result<(), Fail> {
        let sys = self.sys.name();
        let key_n = payload::ekey_n(&data);
        let mode = match self.sys {
            Sys::Container => 0,
            _ => mode,
        };
        // DynamicContainer::write files the entry under the encoding key it computes itself and
        // ignores the caller's `key` argument (the crate's own callers pass content keys): the
        // argument is therefore varied — true encoding key, content key MD5(data), unrelated key —
        // while the model stays keyed by the encoding key.
        let key_arg = match (self.sys, key_style % 3) {
            (Sys::Container, 1) => {
                self.fl.class("write-key-arg:content-key");
                vh_engine::refimpl::md5::md5(&data)
            }
            (Sys::Container, 2) => {
                self.fl.class("write-key-arg:unrelated");
                let mut k = key_n;
                for (i, b) in k.iter_mut().enumerate() {
                    *b = b.wrapping_mul(31).wrapping_add(i as u8 ^ 0x5a);
                }
                k
            }
            _ => key_n,
        };
        // A caller may ask for a key before the object exists (a legal probe that answers "absent"):
        // the write that follows must still become visible under that key.
        if probe_first && self.sys != Sys::Archive && !matches!(self.st.get(&key_n), Some(St::Live | St::Unknown)) {
            self.fl.class("probed-before-write");
            if matches!(self.sut.query(&key_n).await, Some(Ok(true))) {
                return Err(fail(format!("C04:{sys}:never-written-key-present"), format!("query({}) true before the write", hex8(&key_n))));
            }
            if let Ok(b) = self.sut.read(&key_n, None, data.len()).await {
                return Err(fail(format!("C04:{sys}:never-written-key-readable"), format!("read({}) returned {} bytes before the write", hex8(&key_n), b.len())));
            }
        }
        match self.sut.write(&key_arg, &data, mode).await {
            Err(_) => {
                // the statement speaks about writes that succeeded
                self.fl.class("write-error");
                Ok(())
            }
            Ok(ret) => {
                self.fl.writes += 1;
                let (ekey, loc, off, total) = match ret {
                    None => (key_n, None, self.next_off, 30 + 9 + data.len() as u64),
                    Some((loc, ekey)) => {
                        if mode % 3 == 0 && ekey != key_n {
                            return Err(fail(
                                format!("C04:{sys}:encoding-key-not-md5-of-blte"),
                                format!("mode N, {} bytes: returned {} expected {}", data.len(), hex8(&ekey), hex8(&key_n)),
                            ));
                        }
                        (ekey, Some(loc), loc.offset as u64, loc.size as u64)
                    }
                };
                self.next_off = off + total;
                self.objs.push(Obj { ekey, data, inner, class, loc, exp_off: off, exp_total: total });
                if self.sys != Sys::Archive {
                    self.st.insert(ekey, St::Live);
                } else if mode % 3 != 0 && !on_disk_intact(&Sut::data_dir(self.sys, self.root), off, total, &ekey) {
                    // documented: encoding_key is MD5(blte_data) of what was appended
                    return Err(fail(
                        format!("C04:{sys}:encoding-key-not-md5-of-stored-blte"),
                        format!("mode {}, {} bytes at offset {off} size {total}", mode % 3, self.objs.last().map(|o| o.data.len()).unwrap_or(0)),
                    ));
                }
                Ok(())
            }
        }
    }

    async fn reopen(&mut self) -> Result<(), Fail> {
        let sys = self.sys.name();
        let live = match self.sys {
            Sys::Archive => self.objs.len(),
            _ => self.st.values().filter(|s| **s == St::Live).count(),
        };
        // close: replace by a throw-away value first so the old object is dropped before open
        let old = std::mem::replace(&mut self.sut, Sut::A(ArchiveManager::new(self.root.join("unused"))));
        drop(old);
        match Sut::open(self.sys, self.root).await {
            Ok(s) => self.sut = s,
            Err(e) => {
                return Err(fail(format!("C04:{sys}:reopen-fails"), format!("open on the directory it wrote itself ({live} live objects): {e}")));
            }
        }
        if live > 0 {
            self.fl.reopen_with_live = true;
            self.fl.class("reopen-with-live");
        }
        if self.sys == Sys::Installation && live > 0 {
            // total, consistent loss of the index = the persistence finding
            let mut all_gone = true;
            for (k, s) in &self.st {
                if *s == St::Live && !matches!(self.sut.query(k).await, Some(Ok(false))) {
                    all_gone = false;
                    break;
                }
            }
            // ... and the signature of this root cause: the data file holds every
            // entry, but no index file was ever written next to it
            let dd = Sut::data_dir(self.sys, self.root);
            let no_idx = std::fs::read_dir(&dd)
                .map(|rd| !rd.filter_map(|e| e.ok()).any(|e| e.file_name().to_string_lossy().ends_with(".idx")))
                .unwrap_or(false);
            let data_ok = self.objs.iter().all(|o| on_disk_intact(&dd, o.exp_off, o.exp_total, &o.ekey));
            if all_gone && no_idx && data_ok {
                self.tolerate(
                    KEY_INSTALL_LOST,
                    format!("{live} successfully written objects; after drop + Installation::open + initialize none of their keys is known (has_encoding_key false)"),
                )?;
                for s in self.st.values_mut() {
                    if *s == St::Live {
                        *s = St::Unknown;
                    }
                }
            }
        }
        self.sweep("after-reopen").await
    }
}

fn run_case(c: &Case, known: &Known) -> Verdict {
    let base = std::env::var("VH_C04_TMP").ok().map(PathBuf::from).or_else(|| {
        let shm = PathBuf::from("/dev/shm");
        shm.is_dir().then_some(shm)
    });
    let dir = match &base {
        Some(b) => tempfile::Builder::new().prefix("vh-c04-").tempdir_in(b),
        None => tempfile::Builder::new().prefix("vh-c04-").tempdir(),
    }
    .expect("tempdir");
    let rt = tokio::runtime::Builder::new_current_thread().enable_all().build().expect("runtime");
    let res: Result<Flags, Fail> = rt.block_on(async {
        let sys = c.sys.name();
        let sut = Sut::open(c.sys, dir.path()).await.map_err(|e| fail(format!("C04:{sys}:open-empty-directory-fails"), e.to_string()))?;
        let mut w = World { sys: c.sys, root: dir.path(), known, sut, objs: Vec::new(), st: BTreeMap::new(), next_off: 0, fl: Flags::default() };
        for op in &c.ops {
            match op {
                Op::Write { class, len, seed, mode } => {
                    let (data, inner) = payload::build(*class, *len, *seed);
                    let (data, inner) = (Arc::new(data), inner.map(Arc::new));
                    match data.len() {
                        0 => w.fl.class("size:empty"),
                        1..=8192 => {}
                        8193..=1_000_000 => w.fl.class("size:100KiB-step"),
                        _ => w.fl.class("size:>64MiB-step"),
                    }
                    if let Some(prev) = w.objs.last() {
                        let (a, b) = (prev.data.len(), data.len());
                        w.fl.class(if b < a { "order:smaller-after-larger" } else if b == a { "order:equal" } else { "order:larger-after-smaller" });
                    }
                    if c.sys == Sys::Archive {
                        w.fl.class(["mode:N", "mode:Z", "mode:4"][(*mode % 3) as usize]);
                    }
                    w.do_write(data, inner, *class, *mode, (*seed >> 7) as u8, (*seed >> 15) & 1 == 1).await?;
                }
                Op::WriteAtFileSizeLimit { len, seed, slack } => {
                    let (data, inner) = payload::build(Class::Random, *len, *seed);
                    let dd = Sut::data_dir(c.sys, dir.path());
                    let largest = std::fs::read_dir(&dd)
                        .map(|rd| rd.flatten().filter(|e| e.file_name().to_string_lossy().starts_with("data.")).filter_map(|e| e.metadata().ok()).map(|m| m.len()).max().unwrap_or(0))
                        .unwrap_or(0);
                    let mut old = libc::rlimit { rlim_cur: 0, rlim_max: 0 };
                    // SAFETY: plain POSIX calls on this process's own limits and signal dispositions
                    let limited = unsafe {
                        libc::signal(libc::SIGXFSZ, libc::SIG_IGN);
                        libc::getrlimit(libc::RLIMIT_FSIZE, &mut old) == 0
                            && libc::setrlimit(libc::RLIMIT_FSIZE, &libc::rlimit { rlim_cur: largest + u64::from(*slack), rlim_max: old.rlim_max }) == 0
                    };
                    let before = w.fl.writes;
                    let r = w.do_write(Arc::new(data), inner.map(Arc::new), Class::Random, 0, 0, false).await;
                    if limited {
                        // SAFETY: as above
                        unsafe {
                            libc::setrlimit(libc::RLIMIT_FSIZE, &old);
                        }
                    }
                    r?;
                    if limited && w.fl.writes == before {
                        w.fl.class("write-failed-at-the-file-size-limit");
                    }
                }
                Op::Rewrite(ix) => {
                    if !w.objs.is_empty() {
                        let i = pick_idx(*ix, w.objs.len());
                        let (data, inner, class) = (w.objs[i].data.clone(), w.objs[i].inner.clone(), w.objs[i].class);
                        if w.state_of(i) == St::Removed {
                            w.fl.class("rewrite-after-remove");
                        } else {
                            w.fl.class("rewrite-same-content");
                        }
                        w.do_write(data, inner, class, 0, 0, *ix & 1 == 1).await?;
                    }
                }
                Op::Read(ix) | Op::Query(ix) => {
                    if !w.objs.is_empty() {
                        let i = pick_idx(*ix, w.objs.len());
                        if w.state_of(i) == St::Removed {
                            w.fl.class("observe-removed");
                        }
                        w.observe(i, "read-op").await?;
                    }
                }
                Op::QueryAbsent(seed) => {
                    let mut k = [0u8; 16];
                    k.copy_from_slice(&Rng::new(*seed).bytes(16));
                    if !w.st.contains_key(&k) && c.sys != Sys::Archive {
                        w.fl.class("query-absent");
                        if matches!(w.sut.query(&k).await, Some(Ok(true))) {
                            return Err(fail(format!("C04:{sys}:never-written-key-present"), format!("query({}) true", hex8(&k))));
                        }
                        if let Ok(b) = w.sut.read(&k, None, 0).await {
                            return Err(fail(format!("C04:{sys}:never-written-key-readable"), format!("read({}) returned {} bytes", hex8(&k), b.len())));
                        }
                    }
                }
                Op::Remove(ix) => {
                    if let (Sut::C(cont), false) = (&w.sut, w.objs.is_empty()) {
                        let i = pick_idx(*ix, w.objs.len());
                        let k = w.objs[i].ekey;
                        let r = cont.remove(&k).await;
                        w.fl.class("remove");
                        w.st.insert(k, if r.is_ok() { St::Removed } else { St::Unknown });
                    }
                }
                Op::Flush => {
                    if let Sut::C(cont) = &w.sut {
                        let _ = cont.flush_all_updates();
                        w.fl.class("flush");
                    }
                }
                Op::FlushBucket(b) => {
                    if let Sut::C(cont) = &w.sut {
                        let _ = cont.flush_bucket(*b & 0x0F);
                        w.fl.class("flush");
                    }
                }
                Op::FillBucket { bucket, n, seed } => {
                    if c.sys != Sys::Archive {
                        w.fl.class("fill-one-bucket");
                        if *n >= 64 {
                            w.fl.class("fill-one-bucket>=64");
                        }
                        let mut r = Rng::new(*seed);
                        let mut done = 0u16;
                        let mut tries = 0u32;
                        // bucket 255: the bucket of the object written first in this history
                        let want = if *bucket == 255 {
                            w.objs.first().map_or(0, |o| cascette_client_storage::index::IndexManager::bucket_for_key(&EncodingKey::from_bytes(o.ekey)))
                        } else {
                            *bucket & 0x0F
                        };
                        while done < *n && tries < 2_000_000 {
                            tries += 1;
                            let data = r.bytes(8);
                            let k = payload::ekey_n(&data);
                            if cascette_client_storage::index::IndexManager::bucket_for_key(&EncodingKey::from_bytes(k)) != want || w.st.contains_key(&k) {
                                continue;
                            }
                            w.do_write(Arc::new(data), None, Class::Random, 0, 0, false).await?;
                            done += 1;
                        }
                    }
                }
                Op::Reopen => w.reopen().await?,
                Op::Compact => {
                    if let Sut::A(a) = &mut w.sut {
                        let _ = a.compact();
                        w.fl.class("compact");
                    }
                }
            }
            if c.sweep_every_step {
                w.sweep("after-step").await?;
            }
        }
        w.sweep("final").await?;
        Ok(w.fl)
    });
    match res {
        Err(f) => Verdict::fail(f.key, f.msg),
        Ok(fl) => {
            let mut v = Verdict::pass().nontrivial((fl.writes >= 2 && fl.read_nonlatest) || fl.reopen_with_live || fl.blte_read_back);
            v = v.class_if(fl.read_nonlatest, "read-non-latest").class_if(fl.writes == 0, "no-successful-write");
            for c in fl.classes {
                v = v.class(c);
            }
            v.known_hits = fl.known_hits;
            v
        }
    }
}

// ---------------------------------------------------------------------------
// generators
// ---------------------------------------------------------------------------

fn len_strategy() -> BoxedStrategy<u32> {
    prop_oneof![
        1 => Just(0u32),
        3 => 0u32..64,
        2 => proptest::sample::select(vec![1u32, 3, 4, 5, 29, 30, 31, 33, 34, 35, 38, 39, 40, 43, 63, 64, 65]),
        4 => 0u32..2048,
        3 => 0u32..8193,
    ]
    .boxed()
}

fn class_strategy() -> BoxedStrategy<Class> {
    prop_oneof![
        4 => Just(Class::Random),
        2 => Just(Class::Compressible),
        1 => Just(Class::StartsBlte),
        1 => Just(Class::BlteAt1E),
        1 => Just(Class::NestedBlte),
        1 => Just(Class::NestedBlteMulti),
        1 => Just(Class::HeaderPlusBlte),
    ]
    .boxed()
}

fn op_strategy(sys: Sys) -> BoxedStrategy<Op> {
    let modes: u8 = match sys {
        Sys::Container => 1,
        Sys::Installation => 2,
        Sys::Archive => 3,
    };
    let write = (class_strategy(), len_strategy(), any::<u64>(), 0u8..modes).prop_map(|(class, len, seed, mode)| Op::Write { class, len, seed, mode });
    match sys {
        Sys::Container => prop_oneof![
            7 => write,
            1 => any::<u16>().prop_map(Op::Rewrite),
            4 => any::<u16>().prop_map(Op::Read),
            1 => any::<u16>().prop_map(Op::Query),
            1 => any::<u64>().prop_map(Op::QueryAbsent),
            2 => any::<u16>().prop_map(Op::Remove),
            1 => Just(Op::Flush),
            1 => (0u8..16).prop_map(Op::FlushBucket),
            2 => Just(Op::Reopen),
        ]
        .boxed(),
        Sys::Installation => prop_oneof![
            7 => write,
            1 => any::<u16>().prop_map(Op::Rewrite),
            4 => any::<u16>().prop_map(Op::Read),
            1 => any::<u16>().prop_map(Op::Query),
            1 => any::<u64>().prop_map(Op::QueryAbsent),
            2 => Just(Op::Reopen),
        ]
        .boxed(),
        Sys::Archive => prop_oneof![
            7 => write,
            1 => any::<u16>().prop_map(Op::Rewrite),
            5 => any::<u16>().prop_map(Op::Read),
            2 => Just(Op::Reopen),
            1 => Just(Op::Compact),
        ]
        .boxed(),
    }
}

/// Rearrange the write sizes of a history according to a size script.
fn apply_script(mut ops: Vec<Op>, script: u8, big: Option<(u16, u32)>) -> Vec<Op> {
    let idx: Vec<usize> = ops.iter().enumerate().filter(|(_, o)| matches!(o, Op::Write { .. })).map(|(i, _)| i).collect();
    let mut lens: Vec<u32> = idx
        .iter()
        .map(|&i| match &ops[i] {
            Op::Write { len, .. } => *len,
            _ => 0,
        })
        .collect();
    match script {
        // large -> small
        1 => lens.sort_by(|a, b| b.cmp(a)),
        // strictly growing
        2 => {
            lens.sort();
            for i in 1..lens.len() {
                if lens[i] <= lens[i - 1] {
                    lens[i] = lens[i - 1] + 1;
                }
            }
        }
        // all equal
        3 => {
            if let Some(&f) = lens.first() {
                lens.iter_mut().for_each(|l| *l = f);
            }
        }
        // every other write empty
        4 => lens.iter_mut().skip(1).step_by(2).for_each(|l| *l = 0),
        // 0 and 5+: interleaved, as generated
        _ => {}
    }
    if let Some((pos, size)) = big {
        if !lens.is_empty() {
            let p = pick_idx(pos, lens.len());
            lens[p] = size;
        }
    }
    for (k, &i) in idx.iter().enumerate() {
        if let Op::Write { len, .. } = &mut ops[i] {
            *len = lens[k];
        }
    }
    ops
}

fn case_strategy(sys: Sys, tier: Tier) -> BoxedStrategy<Case> {
    // one larger step per history: 100 KiB (both tiers), > 64 MiB (thorough only, rare)
    let big: BoxedStrategy<Option<(u16, u32)>> = match tier {
        Tier::Quick => prop_oneof![
            4 => Just(None),
            1 => (any::<u16>(), 100_000u32..110_000).prop_map(Some),
        ]
        .boxed(),
        Tier::Thorough => prop_oneof![
            4000 => Just(None),
            998 => (any::<u16>(), 100_000u32..110_000).prop_map(Some),
            // ~3 s and ~0.5 GB per history: keep it to a few hundred per thorough run
            2 => (any::<u16>(), (64u32 << 20) + 1..(64u32 << 20) + 8192).prop_map(Some),
        ]
        .boxed(),
    };
    (0u8..7, any::<bool>(), proptest::collection::vec(op_strategy(sys), 1..=25), big)
        .prop_map(move |(script, sweep_every_step, ops, big)| Case { sys, sweep_every_step, ops: apply_script(ops, script, big) })
        .boxed()
}

/// Deterministic grid: every ordered pair and triple of sizes from a small
/// set, then reopen; plus one write of every payload class at three sizes.
fn grid(seed: u64) -> Vec<Case> {
    const G: [u32; 6] = [0, 1, 50, 100, 1000, 5000];
    let mut out = Vec::new();
    for sys in [Sys::Container, Sys::Installation, Sys::Archive] {
        let w = |len: u32, n: u64, class: Class| Op::Write { class, len, seed: seed ^ (len as u64) << 8 ^ n, mode: 0 };
        for a in G {
            for b in G {
                out.push(Case { sys, sweep_every_step: true, ops: vec![w(a, 1, Class::Random), w(b, 2, Class::Random), Op::Reopen] });
                for c in G {
                    out.push(Case {
                        sys,
                        sweep_every_step: true,
                        ops: vec![w(a, 1, Class::Random), w(b, 2, Class::Random), w(c, 3, Class::Random), Op::Reopen],
                    });
                }
            }
        }
        for class in ALL_CLASSES {
            for len in [0u32, 64, 1000] {
                out.push(Case { sys, sweep_every_step: true, ops: vec![w(len, 4, class), Op::Reopen, w(len / 2, 5, class)] });
            }
        }
    }
    out
}

fn main() {
    let mut ck = Check::from_args("C04", "exploration");
    let tier = ck.tier;
    let seed = ck.seed;
    ck.extra(
        "rule",
        "histories of 1-25 ops {Write(class,size), Rewrite(i), Read(i), Query(i), QueryAbsent, Remove(i), Flush, FlushBucket, Reopen, Compact} against a map \
         model keyed by the harness-computed encoding key MD5(BLTE single chunk 'N'); size scripts large->small / strictly growing / equal / alternating empty / \
         interleaved with one optional 100 KiB (thorough: rarely > 64 MiB) step; every live object is read back (exact length and bytes) and queried, removed and \
         never-written keys must be absent, on explicit ops, after Reopen, at the end and (half of the cases) after every step. non-trivial = (>= 2 successful \
         writes and a read of a non-latest live object) or a Reopen with >= 1 live object or a BLTE-looking payload read back intact; distinct by case hash"
            .into(),
    );
    ck.assume("reference MD5 / lookup3 of vh_engine::refimpl are correct (pinned by published vectors in vh-selftest)");
    ck.assume("BLTE single-chunk layout is 'BLTE' | 0u32 | mode byte | data as in the format documentation; the harness encoder follows it");
    ck.assume("working directories live on /dev/shm when present (tmpfs: fsync is free, shared read-only mappings behave as on ext4); override with VH_C04_TMP");
    ck.assume("9-byte index key truncation: two generated contents never collide on the first 9 bytes of their MD5");
    ck.assume("a write that reports an error stores nothing the statement speaks about (counted in class write-error)");
    ck.assume("Installation::open builds its ArchiveManager with ArchiveManager::new (documented: no compression), so write_file(_, compress) stores mode 'N' for both flag values and the key is computable by the caller");
    let bad = vh_engine::refimpl::self_test();
    if !bad.is_empty() {
        for b in bad {
            ck.infra(format!("reference self-test failed: {b}"));
        }
        ck.finish();
    }

    let known = ck.known().clone();
    let k = known.clone();
    ck.run(
        Section::enumerate(
            "size-order-grid",
            "3 systems x (all ordered pairs and triples of sizes {0,1,50,100,1000,5000}, observed after every step, then Reopen) + every payload class x {0,64,1000} written, reopened, written again",
            move || Box::new(grid(seed).into_iter()),
            move |c: &Case| run_case(c, &k),
        )
        .shards(16),
    );
    let k = known.clone();
    ck.run(
        Section::enumerate(
            "one-bucket-fill",
            "container and installation x n = 1..=200 (and 6 larger counts up to 640): n distinct small objects whose keys all fall into one index bucket, written without a flush, then Reopen and a read of every object; and the same after an earlier flushed batch of 30 (update-log pages hold 21 entries: every page boundary and partial last page is crossed); a key written, removed and written again with 5..45 other updates of its bucket in between; 3800 objects in one bucket (sorted section above 64 KiB) followed by two unflushed writes and a reopen; 1259..=1262 and 2521 objects in one bucket (the update log holds 1260 records) and a reopen right behind the last one",
            move || {
                let mut v = Vec::new();
                for sys in [Sys::Container, Sys::Installation] {
                    for n in (1u16..=200).chain([211, 253, 316, 400, 505, 640]) {
                        let bucket = (n % 16) as u8;
                        v.push(Case { sys, sweep_every_step: false, ops: vec![Op::FillBucket { bucket, n, seed: seed ^ u64::from(n) }, Op::Reopen] });
                        if n % 3 == 0 {
                            v.push(Case {
                                sys,
                                sweep_every_step: false,
                                ops: vec![Op::FillBucket { bucket, n: 30, seed: seed ^ 0x5151 }, Op::Flush, Op::FillBucket { bucket, n, seed: seed ^ u64::from(n) }, Op::Reopen, Op::FillBucket { bucket, n: 3, seed: seed ^ 0x77 }, Op::Reopen],
                            });
                        }
                    }
                }
                // a key written, removed and written again with 5 / 20 / 21 / 22 / 45 other updates of its
                // bucket in between (an update-log page holds 21 records), no flush
                for between in [5u16, 20, 21, 22, 45] {
                    v.push(Case {
                        sys: Sys::Container,
                        sweep_every_step: false,
                        ops: vec![
                            Op::Write { class: Class::Random, len: 40, seed: seed ^ 0xA, mode: 0 },
                            Op::Remove(0),
                            Op::FillBucket { bucket: 255, n: between, seed: seed ^ u64::from(between) },
                            Op::Rewrite(0),
                            Op::Read(0),
                            Op::Reopen,
                        ],
                    });
                }
                // the write whose index record is the one that overflows the bucket's update log (60 pages
                // x 21 = 1260 records: the 1261st is appended after a flush), closed right behind it
                for sys in [Sys::Container, Sys::Installation] {
                    for n in [1_259u16, 1_260, 1_261, 1_262, 2_521] {
                        v.push(Case { sys, sweep_every_step: false, ops: vec![Op::FillBucket { bucket: 5, n, seed: seed ^ u64::from(n) }, Op::Reopen] });
                    }
                }
                // more than 64 KiB of sorted index records in one bucket (3640+ entries of 18 bytes),
                // then two more unflushed writes and a reopen
                for sys in [Sys::Container, Sys::Installation] {
                    let mut ops = vec![Op::FillBucket { bucket: 3, n: 3_800, seed: seed ^ 0x64 }];
                    if sys == Sys::Container {
                        ops.push(Op::Flush);
                    }
                    ops.extend([Op::FillBucket { bucket: 3, n: 2, seed: seed ^ 0x65 }, Op::Reopen]);
                    v.push(Case { sys, sweep_every_step: false, ops });
                }
                Box::new(v.into_iter())
            },
            move |c: &Case| run_case(c, &k),
        )
        .shards(16),
    );
    // a write that fails half-way (file size limit), then ordinary writes behind it
    let k = known.clone();
    ck.run(
        Section::enumerate(
            "write-after-a-failed-write",
            "3 systems x {one, two} objects, then a write of 7000 / 300 bytes that fails because no file may grow by more than 0 / 20 / 100 / 3000 bytes (RLIMIT_FSIZE), then two more objects, a read of everything, a reopen and a read of everything (one thread: the limit is the process's)".to_string(),
            move || {
                let mut v = Vec::new();
                for sys in [Sys::Container, Sys::Installation, Sys::Archive] {
                    for first in [1usize, 2] {
                        for (len, slack) in [(7000u32, 0u16), (7000, 20), (7000, 100), (7000, 3000), (300, 20), (300, 100)] {
                            let mut ops: Vec<Op> = (0..first).map(|i| Op::Write { class: Class::Random, len: 5000 + i as u32 * 11, seed: seed ^ (i as u64 + 1), mode: 0 }).collect();
                            ops.push(Op::WriteAtFileSizeLimit { len, seed: seed ^ 0xF5, slack });
                            ops.push(Op::Write { class: Class::Random, len: 5000, seed: seed ^ 0xA1, mode: 0 });
                            ops.push(Op::Write { class: Class::Random, len: 40, seed: seed ^ 0xA2, mode: 0 });
                            ops.push(Op::Reopen);
                            ops.push(Op::Write { class: Class::Random, len: 900, seed: seed ^ 0xA3, mode: 0 });
                            v.push(Case { sys, sweep_every_step: true, ops });
                        }
                    }
                }
                Box::new(v.into_iter())
            },
            move |c: &Case| run_case(c, &k),
        )
        .shards(1),
    );
    // entry sizes (30-byte header + 9-byte frame + content) with telling byte patterns in the size field
    let k = known.clone();
    ck.run(
        Section::enumerate(
            "entry-size-byte-patterns",
            "3 systems x contents whose stored entry size is 0xFFFF, 0x10000, 0x10001, 0x10100, 0x1FF00, 0x20000, 0x20100, 0x30100, 0x40200, 0x100000 or 0x100100 bytes: written, read, a small object written behind it, reopened, read".to_string(),
            move || {
                let mut v = Vec::new();
                for sys in [Sys::Container, Sys::Installation, Sys::Archive] {
                    for total in [0xFFFFu32, 0x1_0000, 0x1_0001, 0x1_0100, 0x1_FF00, 0x2_0000, 0x2_0100, 0x3_0100, 0x4_0200, 0x10_0000, 0x10_0100] {
                        v.push(Case {
                            sys,
                            sweep_every_step: true,
                            ops: vec![
                                Op::Write { class: Class::Random, len: total - 39, seed: seed ^ u64::from(total), mode: 0 },
                                Op::Write { class: Class::Random, len: 17, seed: seed ^ 0x11, mode: 0 },
                                Op::Reopen,
                            ],
                        });
                    }
                }
                Box::new(v.into_iter())
            },
            move |c: &Case| run_case(c, &k),
        )
        .shards(16),
    );
    let k = known.clone();
    ck.run(
        Section::pbt("container-history", tier.pick(16_000, 800_000), move || case_strategy(Sys::Container, tier), move |c: &Case| run_case(c, &k)).shards(16),
    );
    let k = known.clone();
    ck.run(
        Section::pbt("installation-history", tier.pick(8_000, 400_000), move || case_strategy(Sys::Installation, tier), move |c: &Case| run_case(c, &k))
            .shards(16),
    );
    let k = known.clone();
    ck.run(Section::pbt("archive-history", tier.pick(8_000, 400_000), move || case_strategy(Sys::Archive, tier), move |c: &Case| run_case(c, &k)).shards(16));
    ck.finish();
}
