//! Synchronous facade over the three systems under test.

use bytes::Bytes;
use cascette_cache::config::{DiskCacheConfig, MemoryCacheConfig};
use cascette_cache::disk_cache::DiskCache;
use cascette_cache::key::CacheKey;
use cascette_cache::memory_cache::MemoryCache;
use cascette_cache::traits::{AsyncCache, EvictionPolicy};
use cascette_protocol::cache::ProtocolCache;
use cascette_protocol::config::CacheConfig as ProtoConfig;
use serde::{Deserialize, Serialize};
use std::path::Path;
use std::time::Duration;
use tokio::runtime::Runtime;

pub const HOUR: Duration = Duration::from_secs(3600);

/// Cache key over an arbitrary (file-name safe) string.
#[derive(Debug, Clone, PartialEq, Eq, Hash)]
pub struct SKey(pub String);

impl CacheKey for SKey {
    fn as_cache_key(&self) -> &str {
        &self.0
    }
}

#[derive(Debug, Clone, Copy, PartialEq, Eq, Serialize, Deserialize)]
pub enum Pol {
    Lru,
    Lfu,
    Fifo,
    Random,
    Ttl,
}

impl Pol {
    pub const ALL: [Pol; 5] = [Pol::Lru, Pol::Lfu, Pol::Fifo, Pol::Random, Pol::Ttl];
    pub fn to_policy(self) -> EvictionPolicy {
        match self {
            Pol::Lru => EvictionPolicy::Lru,
            Pol::Lfu => EvictionPolicy::Lfu,
            Pol::Fifo => EvictionPolicy::Fifo,
            Pol::Random => EvictionPolicy::Random,
            Pol::Ttl => EvictionPolicy::Ttl,
        }
    }
}

/// What the plain `put` uses as time-to-live.
#[derive(Debug, Clone, Copy, PartialEq, Eq, Serialize, Deserialize)]
pub enum DefTtl {
    /// `default_ttl: None` — the caches fall back to 1 h (memory) / 24 h (disk)
    Unset,
    Hour,
    Zero,
}

impl DefTtl {
    pub fn as_option(self) -> Option<Duration> {
        match self {
            DefTtl::Unset => None,
            DefTtl::Hour => Some(HOUR),
            DefTtl::Zero => Some(Duration::ZERO),
        }
    }
    pub fn is_zero(self) -> bool {
        self == DefTtl::Zero
    }
}

#[derive(Debug, Clone, PartialEq, Eq, Serialize, Deserialize)]
pub enum Backend {
    Memory { policy: Pol, max_entries: usize, max_bytes: Option<usize> },
    /// `subdir_levels == 0`: flat layout
    Disk { subdir_levels: usize },
    /// `ProtocolCache` without a cache directory (wraps a MemoryCache, LRU)
    ProtoMemory { max_items: usize, max_bytes: usize },
    /// `ProtocolCache` over a cache directory (wraps a flat DiskCache)
    ProtoDisk,
}

impl Backend {
    /// subsystem label used in failure keys. The listed findings whose root cause
    /// lives in the wrapped MemoryCache/DiskCache have fixed keys (model.rs K_*) that
    /// do not depend on this label.
    pub fn sub(&self) -> &'static str {
        match self {
            Backend::Memory { .. } => "memory",
            Backend::Disk { .. } => "disk",
            Backend::ProtoMemory { .. } => "protocol-memory",
            Backend::ProtoDisk => "protocol-disk",
        }
    }
    pub fn is_disk(&self) -> bool {
        matches!(self, Backend::Disk { .. } | Backend::ProtoDisk)
    }
    pub fn is_proto(&self) -> bool {
        matches!(self, Backend::ProtoMemory { .. } | Backend::ProtoDisk)
    }
    pub fn via(&self) -> &'static str {
        if self.is_proto() { " (through ProtocolCache)" } else { "" }
    }
    /// (max_entries, max_bytes, limits are enforced by a count/size-driven policy)
    pub fn limits(&self) -> (Option<usize>, Option<usize>, bool) {
        match self {
            Backend::Memory { policy, max_entries, max_bytes } => (Some(*max_entries), *max_bytes, *policy != Pol::Ttl),
            Backend::ProtoMemory { max_items, max_bytes } => (Some(*max_items), Some(*max_bytes), true),
            _ => (None, None, false),
        }
    }
}

pub struct Figures {
    pub size: usize,
    pub entry_count: usize,
    pub bytes: usize,
}

pub enum Cache {
    Mem(MemoryCache<SKey>),
    Disk(DiskCache<SKey>),
    Proto(ProtocolCache),
}

pub struct Sut {
    rt: Runtime,
    cache: Option<Cache>,
}

pub fn memory_config(policy: Pol, max_entries: usize, max_bytes: Option<usize>, def: DefTtl) -> MemoryCacheConfig {
    MemoryCacheConfig {
        max_entries,
        max_memory_bytes: max_bytes,
        default_ttl: def.as_option(),
        eviction_policy: policy.to_policy(),
        ..MemoryCacheConfig::default()
    }
}

pub fn disk_config(dir: &Path, subdir_levels: usize, def: DefTtl) -> DiskCacheConfig {
    DiskCacheConfig {
        default_ttl: def.as_option(),
        use_subdirectories: subdir_levels > 0,
        subdirectory_levels: subdir_levels,
        ..DiskCacheConfig::new(dir)
    }
}

fn build(backend: &Backend, def: DefTtl, dir: &Path) -> Result<Cache, String> {
    match backend {
        Backend::Memory { policy, max_entries, max_bytes } => {
            MemoryCache::new(memory_config(*policy, *max_entries, *max_bytes, def)).map(Cache::Mem).map_err(|e| e.to_string())
        }
        Backend::Disk { subdir_levels } => DiskCache::new(disk_config(dir, *subdir_levels, def)).map(Cache::Disk).map_err(|e| e.to_string()),
        Backend::ProtoMemory { max_items, max_bytes } => {
            let ttl = def.as_option().unwrap_or(HOUR);
            let cfg = ProtoConfig {
                cache_dir: None,
                memory_max_items: *max_items,
                memory_max_size_bytes: *max_bytes,
                ribbit_ttl: ttl,
                cdn_ttl: ttl,
                config_ttl: ttl,
                ..ProtoConfig::default()
            };
            ProtocolCache::new(&cfg).map(Cache::Proto).map_err(|e| e.to_string())
        }
        Backend::ProtoDisk => {
            let ttl = def.as_option().unwrap_or(HOUR);
            let cfg = ProtoConfig {
                cache_dir: Some(dir.to_path_buf()),
                ribbit_ttl: ttl,
                cdn_ttl: ttl,
                config_ttl: ttl,
                ..ProtoConfig::default()
            };
            ProtocolCache::new(&cfg).map(Cache::Proto).map_err(|e| e.to_string())
        }
    }
}

impl Sut {
    pub fn new(backend: &Backend, def: DefTtl, dir: &Path) -> Result<Self, String> {
        let rt = tokio::runtime::Builder::new_current_thread().enable_all().build().map_err(|e| e.to_string())?;
        let cache = {
            let _g = rt.enter();
            build(backend, def, dir)?
        };
        Ok(Sut { rt, cache: Some(cache) })
    }

    /// Drop the instance and open a new one over the same directory.
    pub fn recreate(&mut self, backend: &Backend, def: DefTtl, dir: &Path) -> Result<(), String> {
        self.cache = None;
        let _g = self.rt.enter();
        self.cache = Some(build(backend, def, dir)?);
        Ok(())
    }

    fn c(&self) -> &Cache {
        self.cache.as_ref().expect("cache present")
    }

    pub fn get(&self, key: &str) -> Result<Option<Vec<u8>>, String> {
        match self.c() {
            Cache::Mem(c) => self.rt.block_on(c.get(&SKey(key.into()))).map(|o| o.map(|b| b.to_vec())).map_err(|e| e.to_string()),
            Cache::Disk(c) => self.rt.block_on(c.get(&SKey(key.into()))).map(|o| o.map(|b| b.to_vec())).map_err(|e| e.to_string()),
            Cache::Proto(c) => c.get(key).map_err(|e| e.to_string()),
        }
    }

    /// `ttl == None`: the plain `put` / `store_bytes`.
    pub fn put(&self, key: &str, value: &[u8], ttl: Option<Duration>) -> Result<(), String> {
        let v = Bytes::copy_from_slice(value);
        match (self.c(), ttl) {
            (Cache::Mem(c), None) => self.rt.block_on(c.put(SKey(key.into()), v)).map_err(|e| e.to_string()),
            (Cache::Mem(c), Some(t)) => self.rt.block_on(c.put_with_ttl(SKey(key.into()), v, t)).map_err(|e| e.to_string()),
            (Cache::Disk(c), None) => self.rt.block_on(c.put(SKey(key.into()), v)).map_err(|e| e.to_string()),
            (Cache::Disk(c), Some(t)) => self.rt.block_on(c.put_with_ttl(SKey(key.into()), v, t)).map_err(|e| e.to_string()),
            (Cache::Proto(c), None) => c.store_bytes(key, value).map_err(|e| e.to_string()),
            (Cache::Proto(c), Some(t)) => c.store_with_ttl(key, value, t).map_err(|e| e.to_string()),
        }
    }

    /// `None`: the facade has no such operation (ProtocolCache).
    pub fn contains(&self, key: &str) -> Option<Result<bool, String>> {
        match self.c() {
            Cache::Mem(c) => Some(self.rt.block_on(c.contains(&SKey(key.into()))).map_err(|e| e.to_string())),
            Cache::Disk(c) => Some(self.rt.block_on(c.contains(&SKey(key.into()))).map_err(|e| e.to_string())),
            Cache::Proto(_) => None,
        }
    }

    pub fn remove(&self, key: &str) -> Option<Result<bool, String>> {
        match self.c() {
            Cache::Mem(c) => Some(self.rt.block_on(c.remove(&SKey(key.into()))).map_err(|e| e.to_string())),
            Cache::Disk(c) => Some(self.rt.block_on(c.remove(&SKey(key.into()))).map_err(|e| e.to_string())),
            Cache::Proto(_) => None,
        }
    }

    pub fn clear(&self) -> Result<(), String> {
        match self.c() {
            Cache::Mem(c) => self.rt.block_on(c.clear()).map_err(|e| e.to_string()),
            Cache::Disk(c) => self.rt.block_on(c.clear()).map_err(|e| e.to_string()),
            Cache::Proto(c) => c.clear().map_err(|e| e.to_string()),
        }
    }

    pub fn size(&self) -> Result<usize, String> {
        match self.c() {
            Cache::Mem(c) => self.rt.block_on(c.size()).map_err(|e| e.to_string()),
            Cache::Disk(c) => self.rt.block_on(c.size()).map_err(|e| e.to_string()),
            Cache::Proto(c) => c.len().map_err(|e| e.to_string()),
        }
    }

    /// (entry_count, bytes) as reported by `stats()`.
    pub fn stats(&self) -> Result<(usize, usize), String> {
        match self.c() {
            Cache::Mem(c) => self.rt.block_on(c.stats()).map(|s| (s.entry_count, s.memory_usage_bytes)).map_err(|e| e.to_string()),
            Cache::Disk(c) => self.rt.block_on(c.stats()).map(|s| (s.entry_count, s.memory_usage_bytes)).map_err(|e| e.to_string()),
            Cache::Proto(c) => c.stats().map(|s| (s.entries as usize, s.memory_usage as usize)).map_err(|e| e.to_string()),
        }
    }

    pub fn figures(&self) -> Result<Figures, String> {
        let size = self.size()?;
        let (entry_count, bytes) = self.stats()?;
        Ok(Figures { size, entry_count, bytes })
    }
}
