//! History interpreter and the "bounded map" model (the five oracle clauses
//! of DESIGN.md §3 C10).
//!
//! Clause 1  get = None or the value of the latest successful put of that key;
//!           never after a later remove/clear; never a ZERO-TTL value;
//!           contains == true only when a get would be allowed to hit.
//! Clause 2  memory cache, count/size-driven policies: after every operation
//!           size() <= max_entries and stats.memory_usage <= max_memory_bytes.
//! Clause 3  after a sweep (get of every key of the pool): size() == number of
//!           hits, reported bytes == sum of the hit lengths; stats.entry_count
//!           == size() after every operation (lazy expiry is never an alarm).
//! Clause 4  must-hit: 1 h TTL, not removed, and the model (an upper bound of
//!           the real content) never came within 50 % of either limit since
//!           the put.
//! Clause 5  disk: a new instance on the same directory hits every 1 h value
//!           and serves no ZERO-TTL value.

use crate::sut::{Backend, DefTtl, HOUR, Sut};
use serde::{Deserialize, Serialize};
use std::time::Duration;
use vh_engine::util::Rng;
use vh_engine::{Known, Verdict};

pub const K_OVERSIZE: &str = "C10:memory:bytes-over-limit:single-oversize-value";
pub const K_BYTES_EVICT: &str = "C10:memory:bytes-over-limit:eviction-ignores-byte-budget";
pub const K_EXPIRED_NEW_INSTANCE: &str = "C10:disk:expired-entry-served-by-new-instance";
pub const K_REMOVE_UNINDEXED: &str = "C10:disk:removed-value-served:remove-skips-unindexed-file";

#[derive(Debug, Clone, Serialize, Deserialize)]
pub enum Op {
    /// plain `put` (configured default TTL)
    Put { k: usize, len: usize },
    /// `put_with_ttl(ZERO | 1 h)`
    PutTtl { k: usize, len: usize, zero: bool },
    Get { k: usize },
    Contains { k: usize },
    Remove { k: usize },
    Clear,
    Size,
    Stats,
    /// get every key of the pool, then compare the reported figures (clause 3)
    Sweep,
    /// plain `put` of `count` consecutive pool keys (reaches large capacities in a short history)
    Fill { start: usize, count: usize, len: usize },
    /// disk only: drop the instance, open a new one over the same directory
    Recreate,
}

#[derive(Debug, Clone, Serialize, Deserialize)]
pub struct HistCase {
    pub backend: Backend,
    pub default_ttl: DefTtl,
    /// naming scheme of the key pool (see `key_name`)
    pub key_style: u8,
    pub pool: usize,
    pub content_seed: u64,
    pub ops: Vec<Op>,
}

/// Pool key `i` under naming scheme `style`; all are safe single-component file
/// names, unique per index, never ending in ".tmp" (the disk cache's own
/// temporary-file namespace).
/// Keys that differ only in characters a file-name sanitiser would fold together (`:` `<` `>` `"`
/// `|` `?` `*` `\\` against `_`, upper against lower case): neighbours 2j / 2j+1 of the pool are
/// such a pair. Distinct keys are distinct entries whatever their spelling.
const CONFUSABLE: [(&str, &str); 8] = [
    ("cdn:config_ab", "cdn_config:ab"),
    ("a<b", "a_b"),
    ("p|q", "p_q"),
    ("s*", "s_"),
    ("w\\z", "w_z"),
    ("d\"e", "d_e"),
    ("q?r", "q_r"),
    ("Key", "key"),
];

pub fn key_name(style: u8, i: usize) -> String {
    // names that look like the cache's own scratch files or index (styles 230..=239)
    if (230..240).contains(&style) {
        let suffix = [".tmp", ".TMP", ".tmp.tmp", ".1-0.tmp", ".idx", ".lock", ".meta", "~", ".part", ".bak"][usize::from(style - 230)];
        return format!("listing{i}{suffix}");
    }
    if style >= 240 {
        let (a, b) = CONFUSABLE[(i / 2 + usize::from(style - 240)) % CONFUSABLE.len()];
        let round = i / (2 * CONFUSABLE.len());
        let base = if i % 2 == 0 { a } else { b };
        return if round == 0 { base.to_string() } else { format!("{base}{round}") };
    }
    match style % 6 {
        0 => format!("k{i}"),
        1 => format!("ribbit:us:ep{i}"),
        2 => format!("cfg.v{i}.dat"),
        3 => format!("{i}"),
        4 => format!("K_{i}-x"),
        _ => format!("{}{i}", "a".repeat(180)),
    }
}

#[derive(Debug, Clone)]
struct Val {
    bytes: Vec<u8>,
    zero: bool,
    must: bool,
    /// instance number that executed the put
    epoch: u32,
    /// last instance that put or served this value (disk: "is in that instance's index")
    indexed_epoch: u32,
    /// upper-bound bookkeeping: false once a get observed a miss
    present: bool,
}

#[derive(Debug, Clone, PartialEq)]
enum DeadHow {
    Removed { reported_present: bool, unindexed: bool },
    Cleared,
}

#[derive(Debug, Clone)]
struct Dead {
    bytes: Vec<u8>,
    how: DeadHow,
}

#[derive(Debug, Clone, Default)]
struct KState {
    latest: Option<Val>,
    replaced: Vec<Vec<u8>>,
    dead: Option<Dead>,
}

#[derive(Default)]
pub struct Flags {
    pub limit_entries: bool,
    pub limit_bytes: bool,
    pub replace_diff_size: bool,
    pub recreated_nonempty: bool,
    pub get_hit: bool,
    pub get_miss_of_live: bool,
    pub must_hit_checked: bool,
    pub zero_ttl_missed: bool,
    pub sweep_nonempty: bool,
    pub oversize_put: bool,
    pub removed_then_get: bool,
    pub hit_after_recreate: bool,
    pub eviction_observed: bool,
    pub abandoned: bool,
}

struct Fail {
    key: String,
    msg: String,
}

pub struct Interp<'a> {
    case: &'a HistCase,
    known: &'a Known,
    sut: Sut,
    dir: tempfile::TempDir,
    keys: Vec<String>,
    st: Vec<KState>,
    epoch: u32,
    serial: u64,
    max_entries: Option<usize>,
    max_bytes: Option<usize>,
    enforce: bool,
    pub flags: Flags,
    pub known_hits: Vec<String>,
    step: usize,
}

type R = Result<(), Fail>;

impl<'a> Interp<'a> {
    pub fn new(case: &'a HistCase, known: &'a Known) -> Result<Self, String> {
        let dir = tempfile::Builder::new().prefix("vh-c10-").tempdir().map_err(|e| e.to_string())?;
        let sut = Sut::new(&case.backend, case.default_ttl, dir.path())?;
        let pool = case.pool.clamp(1, 400);
        let keys: Vec<String> = (0..pool).map(|i| key_name(case.key_style, i)).collect();
        let (max_entries, max_bytes, enforce) = case.backend.limits();
        Ok(Interp {
            case,
            known,
            sut,
            dir,
            st: vec![KState::default(); keys.len()],
            keys,
            epoch: 0,
            serial: 0,
            max_entries,
            max_bytes,
            enforce,
            flags: Flags::default(),
            known_hits: Vec::new(),
            step: 0,
        })
    }

    fn sub(&self) -> &'static str {
        self.case.backend.sub()
    }

    fn fail(&self, what: &str, msg: String) -> Fail {
        Fail {
            key: format!("C10:{}:{}", self.sub(), what),
            msg: format!("op#{}{}: {}", self.step, self.case.backend.via(), msg),
        }
    }

    /// A failure with a fixed key that may be a listed finding: tolerated (and
    /// the history goes on) only when the key is open in known_findings.
    fn finding(&mut self, key: &str, msg: String) -> R {
        if self.known.is_open(key) {
            if !self.known_hits.iter().any(|k| k == key) {
                self.known_hits.push(key.to_string());
            }
            Ok(())
        } else {
            Err(Fail { key: key.to_string(), msg: format!("op#{}{}: {}", self.step, self.case.backend.via(), msg) })
        }
    }

    fn idx(&self, k: usize) -> usize {
        k.min(self.keys.len() - 1)
    }

    fn value(&mut self, len: usize) -> Vec<u8> {
        self.serial += 1;
        let mut v = Rng::new(self.case.content_seed ^ self.serial.wrapping_mul(0x9E37_79B9_7F4A_7C15)).bytes(len);
        // make values of different puts differ even when very short
        if len >= 1 {
            v[0] = self.serial as u8;
        }
        if len >= 2 {
            v[1] = (self.serial >> 8) as u8;
        }
        v
    }

    /// upper bounds of what the cache can hold according to the model
    fn upper_bounds(&self) -> (usize, usize) {
        let mut n = 0;
        let mut b = 0;
        for s in &self.st {
            if let Some(v) = &s.latest {
                if v.present {
                    n += 1;
                    b += v.bytes.len();
                }
            }
        }
        (n, b)
    }

    fn apply_pressure(&mut self) {
        let (n, b) = self.upper_bounds();
        let mut pressured = false;
        if let Some(me) = self.max_entries {
            if n * 2 >= me {
                pressured = true;
            }
            if n >= me {
                self.flags.limit_entries = true;
            }
        }
        if let Some(mb) = self.max_bytes {
            if b * 2 >= mb {
                pressured = true;
            }
            if b >= mb {
                self.flags.limit_bytes = true;
            }
        }
        if pressured {
            for s in &mut self.st {
                if let Some(v) = &mut s.latest {
                    v.must = false;
                }
            }
        }
    }

    // ---- operations -------------------------------------------------------

    fn do_put(&mut self, ki: usize, len: usize, ttl: Option<Duration>) -> R {
        let zero = match ttl {
            None => self.case.default_ttl.is_zero(),
            Some(t) => t.is_zero(),
        };
        let value = self.value(len);
        if self.max_bytes.is_some_and(|m| len > m) {
            self.flags.oversize_put = true;
        }
        if let Err(e) = self.sut.put(&self.keys[ki], &value, ttl) {
            // not a "successful put"; nothing in the statement covers it and the
            // state of the key is unknown from here on
            self.flags.abandoned = true;
            return Err(Fail { key: "ABANDON".into(), msg: format!("put error: {e}") });
        }
        let epoch = self.epoch;
        let s = &mut self.st[ki];
        if let Some(old) = s.latest.take() {
            if old.bytes.len() != len {
                self.flags.replace_diff_size = true;
            }
            s.replaced.push(old.bytes);
        }
        if let Some(d) = s.dead.take() {
            s.replaced.push(d.bytes);
        }
        if s.replaced.len() > 8 {
            s.replaced.remove(0);
        }
        s.latest = Some(Val { bytes: value, zero, must: !zero, epoch, indexed_epoch: epoch, present: true });
        Ok(())
    }

    /// get + clauses 1, 4, 5. Returns the served length on a hit.
    fn do_get(&mut self, ki: usize) -> Result<Option<usize>, Fail> {
        let got = match self.sut.get(&self.keys[ki]) {
            Ok(g) => g,
            Err(e) => return Err(self.fail("get-returned-error", format!("get({:?}) -> Err({e})", self.keys[ki]))),
        };
        let key = self.keys[ki].clone();
        let epoch = self.epoch;
        match got {
            None => {
                let s = &mut self.st[ki];
                if let Some(v) = &mut s.latest {
                    let (must, zero, vep, len) = (v.must, v.zero, v.epoch, v.bytes.len());
                    v.present = false;
                    if zero {
                        self.flags.zero_ttl_missed = true;
                    } else {
                        self.flags.get_miss_of_live = true;
                        if self.max_entries.is_some() {
                            self.flags.eviction_observed = true;
                        }
                    }
                    if must {
                        self.flags.must_hit_checked = true;
                        let what = if self.case.backend.is_disk() && vep < epoch { "must-hit-missed:after-recreate" } else { "must-hit-missed" };
                        return Err(self.fail(
                            what,
                            format!("get({key:?}) -> None, but a {len}-byte value with a 1 h TTL was put (instance {vep}, now {epoch}), never removed, and the cache stayed below 50 % of its limits"),
                        ));
                    }
                }
                Ok(None)
            }
            Some(b) => {
                let blen = b.len();
                // latest value?
                let latest_matches = self.st[ki].latest.as_ref().is_some_and(|v| v.bytes == b);
                if latest_matches {
                    let (zero, vep) = {
                        let v = self.st[ki].latest.as_ref().unwrap();
                        (v.zero, v.epoch)
                    };
                    if zero {
                        if self.case.backend.is_disk() && vep < epoch {
                            self.finding(
                                K_EXPIRED_NEW_INSTANCE,
                                format!("get({key:?}) served a {blen}-byte value stored with a ZERO TTL by instance {vep}; instance {epoch} on the same directory must not serve it"),
                            )?;
                            // the new instance has indexed the file without an expiry: from now on it is an ordinary entry
                            let v = self.st[ki].latest.as_mut().unwrap();
                            v.zero = false;
                            v.must = false;
                        } else {
                            return Err(self.fail("get-serves-expired-value", format!("get({key:?}) served a {blen}-byte value stored with a ZERO TTL")));
                        }
                    }
                    let v = self.st[ki].latest.as_mut().unwrap();
                    if v.must {
                        self.flags.must_hit_checked = true;
                    }
                    if v.indexed_epoch < epoch {
                        self.flags.hit_after_recreate = true;
                    }
                    v.indexed_epoch = epoch;
                    v.present = true;
                    self.flags.get_hit = true;
                    return Ok(Some(blen));
                }
                // anything else is a violation of clause 1; classify for the key
                let s = &self.st[ki];
                if s.latest.is_none() {
                    if let Some(d) = &s.dead {
                        if d.bytes == b {
                            match d.how {
                                DeadHow::Removed { reported_present: false, unindexed: true } if self.case.backend.is_disk() => {
                                    self.finding(
                                        K_REMOVE_UNINDEXED,
                                        format!("get({key:?}) served the {blen}-byte value again after remove({key:?}) on a fresh instance returned false and left the file"),
                                    )?;
                                    let s = &mut self.st[ki];
                                    s.dead = None;
                                    s.latest = Some(Val { bytes: b, zero: false, must: false, epoch, indexed_epoch: epoch, present: true });
                                    return Ok(Some(blen));
                                }
                                DeadHow::Removed { reported_present, .. } => {
                                    return Err(self.fail(
                                        "get-serves-removed-value",
                                        format!("get({key:?}) served the {blen}-byte value that was removed (remove returned {reported_present})"),
                                    ));
                                }
                                DeadHow::Cleared => {
                                    return Err(self.fail("get-serves-cleared-value", format!("get({key:?}) served the {blen}-byte value that was there before clear()")));
                                }
                            }
                        }
                    }
                }
                if s.replaced.iter().any(|r| *r == b) {
                    return Err(self.fail("get-serves-replaced-value", format!("get({key:?}) served an older {blen}-byte value of the key, not the latest put")));
                }
                for (j, o) in self.st.iter().enumerate() {
                    if j != ki
                        && (o.latest.as_ref().is_some_and(|v| v.bytes == b) || o.replaced.iter().any(|r| *r == b) || o.dead.as_ref().is_some_and(|d| d.bytes == b))
                        && !b.is_empty()
                    {
                        return Err(self.fail("get-serves-other-keys-value", format!("get({key:?}) served a {blen}-byte value that was put for {:?}", self.keys[j])));
                    }
                }
                Err(self.fail(
                    "get-serves-unknown-value",
                    format!("get({key:?}) served {blen} bytes that are not the latest put of the key (model: {})", if s.latest.is_some() { "other value" } else { "no live value" }),
                ))
            }
        }
    }

    fn do_contains(&mut self, ki: usize) -> R {
        let Some(r) = self.sut.contains(&self.keys[ki]) else { return Ok(()) };
        let r = match r {
            Ok(r) => r,
            Err(e) => return Err(self.fail("contains-returned-error", format!("contains({:?}) -> Err({e})", self.keys[ki]))),
        };
        if r {
            let ok = self.st[ki].latest.as_ref().is_some_and(|v| !v.zero);
            if !ok {
                let why = match &self.st[ki].latest {
                    None => "no put since the last remove/clear",
                    Some(_) => "the latest put had a ZERO TTL",
                };
                return Err(self.fail("contains-true-but-get-may-not-hit", format!("contains({:?}) -> true, but {why}", self.keys[ki])));
            }
        }
        Ok(())
    }

    fn do_remove(&mut self, ki: usize) -> R {
        let Some(r) = self.sut.remove(&self.keys[ki]) else { return Ok(()) };
        let r = match r {
            Ok(r) => r,
            Err(e) => {
                self.flags.abandoned = true;
                return Err(Fail { key: "ABANDON".into(), msg: format!("remove error: {e}") });
            }
        };
        let epoch = self.epoch;
        let s = &mut self.st[ki];
        if let Some(v) = s.latest.take() {
            s.dead = Some(Dead { bytes: v.bytes, how: DeadHow::Removed { reported_present: r, unindexed: v.indexed_epoch < epoch } });
            self.flags.removed_then_get = true;
        }
        Ok(())
    }

    fn do_clear(&mut self) -> R {
        if let Err(e) = self.sut.clear() {
            self.flags.abandoned = true;
            return Err(Fail { key: "ABANDON".into(), msg: format!("clear error: {e}") });
        }
        for s in &mut self.st {
            if let Some(v) = s.latest.take() {
                s.dead = Some(Dead { bytes: v.bytes, how: DeadHow::Cleared });
            } else if let Some(d) = &mut s.dead {
                d.how = DeadHow::Cleared;
            }
        }
        Ok(())
    }

    fn do_sweep(&mut self, context: &str) -> R {
        let mut hits = 0usize;
        let mut bytes = 0usize;
        for ki in 0..self.keys.len() {
            if let Some(l) = self.do_get(ki)? {
                hits += 1;
                bytes += l;
            }
        }
        if hits > 0 {
            self.flags.sweep_nonempty = true;
        }
        let f = self.sut.figures().map_err(|e| self.fail("figures-returned-error", e))?;
        if f.size != hits {
            return Err(self.fail(
                &format!("{context}:size-differs-from-retrievable"),
                format!("after a get of every key of the pool size() = {} but {} keys are retrievable", f.size, hits),
            ));
        }
        if f.entry_count != hits {
            return Err(self.fail(
                &format!("{context}:stats-entry-count-differs-from-retrievable"),
                format!("after a get of every key of the pool stats.entry_count = {} but {} keys are retrievable", f.entry_count, hits),
            ));
        }
        if f.bytes != bytes {
            return Err(self.fail(
                &format!("{context}:bytes-differ-from-retrievable"),
                format!("after a get of every key of the pool stats reports {} bytes but the {} retrievable values total {} bytes", f.bytes, hits, bytes),
            ));
        }
        Ok(())
    }

    /// clause 2 and the "always" part of clause 3
    fn post_check(&mut self) -> R {
        let f = self.sut.figures().map_err(|e| self.fail("figures-returned-error", e))?;
        // DiskCache::size() documents a directory-scan fallback while its own counter is 0
        // (fresh instance over existing files): that state is judged by the sweeps only.
        let scan_fallback = self.case.backend.is_disk() && f.entry_count == 0;
        if f.entry_count != f.size && !scan_fallback {
            return Err(self.fail("stats-entry-count-differs-from-size", format!("stats.entry_count = {} but size() = {}", f.entry_count, f.size)));
        }
        if self.enforce {
            if let Some(me) = self.max_entries {
                if f.size > me {
                    return Err(self.fail("entries-over-limit", format!("size() = {} > max_entries = {me}", f.size)));
                }
            }
            if let Some(mb) = self.max_bytes {
                if f.bytes > mb {
                    let msg = format!("stats.memory_usage_bytes = {} > max_memory_bytes = {mb} ({} entries, max_entries = {:?})", f.bytes, f.size, self.max_entries);
                    // root cause: a value that alone exceeds the limit may be held (then the overrun is
                    // attributed to it), otherwise the values add up because nothing was evicted
                    let oversize = self.st.iter().filter_map(|s| s.latest.as_ref()).filter(|v| v.present).map(|v| v.bytes.len()).filter(|l| *l > mb).max();
                    if let Some(l) = oversize {
                        self.finding(K_OVERSIZE, format!("a single {l}-byte value was accepted: {msg}"))?;
                    } else {
                        self.finding(K_BYTES_EVICT, format!("no held value exceeds the limit on its own: {msg}"))?;
                    }
                }
            }
        }
        Ok(())
    }

    fn exec(&mut self, op: &Op) -> R {
        match op {
            Op::Put { k, len } => {
                let ki = self.idx(*k);
                self.do_put(ki, *len, None)?;
            }
            Op::PutTtl { k, len, zero } => {
                let ki = self.idx(*k);
                self.do_put(ki, *len, Some(if *zero { Duration::ZERO } else { HOUR }))?;
            }
            Op::Get { k } => {
                let ki = self.idx(*k);
                self.do_get(ki)?;
            }
            Op::Contains { k } => {
                let ki = self.idx(*k);
                self.do_contains(ki)?;
            }
            Op::Remove { k } => {
                let ki = self.idx(*k);
                self.do_remove(ki)?;
            }
            Op::Clear => self.do_clear()?,
            Op::Size | Op::Stats => {} // the figures are read (and judged) after every operation
            Op::Sweep => self.do_sweep("sweep")?,
            Op::Fill { start, count, len } => {
                let s = self.idx(*start);
                let end = (s + (*count).min(300)).min(self.keys.len());
                for ki in s..end {
                    self.do_put(ki, *len, None)?;
                    self.apply_pressure();
                    self.post_check()?;
                }
            }
            Op::Recreate => {
                if self.case.backend.is_disk() {
                    if self.st.iter().any(|s| s.latest.is_some()) {
                        self.flags.recreated_nonempty = true;
                    }
                    if let Err(e) = self.sut.recreate(&self.case.backend, self.case.default_ttl, self.dir.path()) {
                        self.flags.abandoned = true;
                        return Err(Fail { key: "ABANDON".into(), msg: format!("recreate error: {e}") });
                    }
                    self.epoch += 1;
                }
            }
        }
        self.apply_pressure();
        self.post_check()
    }

    pub fn run(mut self) -> Verdict {
        let ops = &self.case.ops;
        let mut failure: Option<Fail> = None;
        for (i, op) in ops.iter().enumerate() {
            self.step = i;
            if let Err(f) = self.exec(op) {
                failure = Some(f);
                break;
            }
        }
        if failure.is_none() {
            self.step = ops.len();
            if let Err(f) = self.do_sweep("sweep") {
                failure = Some(f);
            }
        }
        let fl = &self.flags;
        let nontrivial = fl.limit_entries || fl.limit_bytes || fl.replace_diff_size || fl.recreated_nonempty;
        let mut v = Verdict::pass()
            .nontrivial(nontrivial)
            .class_if(fl.limit_entries, "model-reached-max-entries")
            .class_if(fl.limit_bytes, "model-reached-max-bytes")
            .class_if(fl.replace_diff_size, "replace-with-different-size")
            .class_if(fl.recreated_nonempty, "recreate-with-live-keys")
            .class_if(fl.get_hit, "get-hit")
            .class_if(fl.get_miss_of_live, "get-miss-of-live-key")
            .class_if(fl.eviction_observed, "eviction-observed")
            .class_if(fl.must_hit_checked, "must-hit-checked")
            .class_if(fl.zero_ttl_missed, "zero-ttl-miss-observed")
            .class_if(fl.sweep_nonempty, "sweep-with-hits")
            .class_if(fl.oversize_put, "oversize-put")
            .class_if(fl.removed_then_get, "remove-of-live-key")
            .class_if(fl.hit_after_recreate, "hit-after-recreate")
            .class_if(fl.abandoned, "abandoned-on-put-error");
        v.known_hits = self.known_hits.clone();
        match failure {
            None => v,
            Some(f) if f.key == "ABANDON" => v,
            Some(f) => v.with_fail(f.key, f.msg),
        }
    }
}

pub fn check_history(case: &HistCase, known: &Known) -> Verdict {
    match Interp::new(case, known) {
        Ok(i) => i.run(),
        // construction is outside the property (valid configs only are generated)
        Err(e) => Verdict::fail("C10:harness:cannot-construct-cache", e),
    }
}
