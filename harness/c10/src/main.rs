//! C10 — a cache is a bounded map: latest value or nothing, never over its limits.
//!
//! Sections
//!   memory-history      MemoryCache, every eviction policy x max_entries x max_memory_bytes
//!   disk-history        DiskCache, flat and hashed sub-directory layouts, Drop+Recreate
//!   protocol-history    ProtocolCache over a MemoryCache / over a cache directory
//!   background-cleanup  paused tokio clock: the background purge of expired entries
//! Oracle: the five clauses of DESIGN.md §3 C10 (see model.rs), judged after every op.

mod background;
mod model;
mod sut;

use model::{HistCase, Op, check_history};
use proptest::prelude::*;
use sut::{Backend, DefTtl, Pol};
use vh_engine::{Check, Section};

const MAX_ENTRIES: [usize; 6] = [1, 2, 3, 5, 10, 100];
const MAX_BYTES: [Option<usize>; 5] = [None, Some(1), Some(10), Some(100), Some(1000)];

fn len_strategy() -> BoxedStrategy<usize> {
    prop_oneof![
        3 => 0usize..=3,
        3 => 0usize..=12,
        2 => 0usize..=120,
        1 => 0usize..=1100,
        1 => 0usize..=2100,
        1 => proptest::sample::select(vec![0usize, 1, 2, 5, 9, 10, 11, 50, 99, 100, 101, 500, 999, 1000, 1001, 2000]),
    ]
    .boxed()
}

fn key_strategy() -> BoxedStrategy<usize> {
    prop_oneof![6 => 0usize..4, 3 => 0usize..16, 2 => 0usize..140].boxed()
}

#[derive(Clone, Copy, PartialEq)]
enum Kind {
    Memory,
    Disk,
    Proto { disk: bool },
}

fn op_strategy(kind: Kind) -> BoxedStrategy<Op> {
    let put = (key_strategy(), len_strategy()).prop_map(|(k, len)| Op::Put { k, len });
    let put_ttl = (key_strategy(), len_strategy(), any::<bool>()).prop_map(|(k, len, zero)| Op::PutTtl { k, len, zero });
    let get = key_strategy().prop_map(|k| Op::Get { k });
    let contains = key_strategy().prop_map(|k| Op::Contains { k });
    let remove = key_strategy().prop_map(|k| Op::Remove { k });
    let small_len = prop_oneof![3 => 0usize..=3, 2 => 0usize..=12, 1 => 0usize..=40];
    match kind {
        Kind::Memory => {
            let fill = (0usize..140, prop_oneof![3 => 1usize..=6, 2 => 1usize..=30, 2 => 80usize..=130], small_len)
                .prop_map(|(start, count, len)| Op::Fill { start, count, len });
            prop_oneof![
                28 => put, 20 => put_ttl, 20 => get, 5 => contains, 8 => remove, 2 => Just(Op::Clear),
                2 => Just(Op::Size), 2 => Just(Op::Stats), 5 => Just(Op::Sweep), 8 => fill,
            ]
            .boxed()
        }
        Kind::Disk => {
            let fill = (0usize..16, 1usize..=8, small_len).prop_map(|(start, count, len)| Op::Fill { start, count, len });
            prop_oneof![
                24 => put, 20 => put_ttl, 20 => get, 6 => contains, 8 => remove, 2 => Just(Op::Clear),
                2 => Just(Op::Size), 2 => Just(Op::Stats), 4 => Just(Op::Sweep), 2 => fill, 10 => Just(Op::Recreate),
            ]
            .boxed()
        }
        Kind::Proto { disk } => {
            let fill = (0usize..40, 1usize..=12, small_len).prop_map(|(start, count, len)| Op::Fill { start, count, len });
            let mut alts: Vec<(u32, BoxedStrategy<Op>)> = vec![
                (28, put.boxed()),
                (22, put_ttl.boxed()),
                (24, get.boxed()),
                (2, Just(Op::Clear).boxed()),
                (3, Just(Op::Size).boxed()),
                (3, Just(Op::Stats).boxed()),
                (5, Just(Op::Sweep).boxed()),
                (3, fill.boxed()),
            ];
            if disk {
                alts.push((10, Just(Op::Recreate).boxed()));
            }
            proptest::strategy::Union::new_weighted(alts).boxed()
        }
    }
}

fn def_ttl_strategy() -> BoxedStrategy<DefTtl> {
    prop_oneof![5 => Just(DefTtl::Hour), 2 => Just(DefTtl::Unset), 2 => Just(DefTtl::Zero)].boxed()
}

/// key pool larger than the capacity (and, one time in four, a small hot pool)
fn pool_for(max_entries: usize, extra: u16, small: bool) -> usize {
    if small {
        2 + vh_engine::pick_idx(extra, 4)
    } else {
        max_entries + 1 + vh_engine::pick_idx(extra, (max_entries / 4).max(3))
    }
}

fn memory_case() -> BoxedStrategy<HistCase> {
    (
        proptest::sample::select(Pol::ALL.to_vec()),
        proptest::sample::select(MAX_ENTRIES.to_vec()),
        proptest::sample::select(MAX_BYTES.to_vec()),
        def_ttl_strategy(),
        prop_oneof![6 => 0u8..6, 1 => 240u8..248, 1 => 230u8..240],
        any::<u16>(),
        prop::bool::weighted(0.25),
        any::<u64>(),
        proptest::collection::vec(op_strategy(Kind::Memory), 1..=60),
    )
        .prop_map(|(policy, max_entries, max_bytes, default_ttl, key_style, extra, small, content_seed, ops)| HistCase {
            backend: Backend::Memory { policy, max_entries, max_bytes },
            default_ttl,
            key_style,
            pool: pool_for(max_entries, extra, small),
            content_seed,
            ops,
        })
        .boxed()
}

fn disk_case() -> BoxedStrategy<HistCase> {
    (
        prop_oneof![2 => Just(0usize), 1 => Just(1usize), 2 => Just(2usize)],
        def_ttl_strategy(),
        prop_oneof![6 => 0u8..6, 1 => 240u8..248, 1 => 230u8..240],
        2usize..=14,
        any::<u64>(),
        proptest::collection::vec(op_strategy(Kind::Disk), 1..=60),
    )
        .prop_map(|(subdir_levels, default_ttl, key_style, pool, content_seed, ops)| HistCase {
            backend: Backend::Disk { subdir_levels },
            default_ttl,
            key_style,
            pool,
            content_seed,
            ops,
        })
        .boxed()
}

fn protocol_case() -> BoxedStrategy<HistCase> {
    let mem = (
        proptest::sample::select(MAX_ENTRIES.to_vec()),
        proptest::sample::select(vec![1usize, 10, 100, 1000, 1 << 20]),
        prop_oneof![3 => Just(DefTtl::Hour), 1 => Just(DefTtl::Zero)],
        prop_oneof![6 => 0u8..6, 1 => 240u8..248, 1 => 230u8..240],
        any::<u16>(),
        prop::bool::weighted(0.25),
        any::<u64>(),
        proptest::collection::vec(op_strategy(Kind::Proto { disk: false }), 1..=50),
    )
        .prop_map(|(max_items, max_bytes, default_ttl, key_style, extra, small, content_seed, ops)| HistCase {
            backend: Backend::ProtoMemory { max_items, max_bytes },
            default_ttl,
            key_style,
            pool: pool_for(max_items, extra, small).min(48),
            content_seed,
            ops,
        });
    let disk = (
        prop_oneof![3 => Just(DefTtl::Hour), 1 => Just(DefTtl::Zero)],
        prop_oneof![6 => 0u8..6, 1 => 240u8..248, 1 => 230u8..240],
        2usize..=10,
        any::<u64>(),
        proptest::collection::vec(op_strategy(Kind::Proto { disk: true }), 1..=40),
    )
        .prop_map(|(default_ttl, key_style, pool, content_seed, ops)| HistCase { backend: Backend::ProtoDisk, default_ttl, key_style, pool, content_seed, ops });
    prop_oneof![mem, disk].boxed()
}

fn main() {
    let mut ck = Check::from_args("C10", "exploration");
    let tier = ck.tier;
    ck.extra(
        "rule",
        "histories of put / put_with_ttl(ZERO|1h) / get / contains / remove / clear / size / stats / sweep / fill (/ recreate on disk) run against \
         the real cache and a model (latest value per key + upper bound of the content), the five clauses judged after every op and in a final \
         sweep; non-trivial = the model reaches max_entries or max_memory_bytes, or a key is replaced by a value of a different size, or a disk \
         cache holding live keys is dropped and recreated; background-cleanup: at least one expired entry exists when the paused clock passes \
         the cleanup interval; distinct by case hash"
            .into(),
    );
    ck.assume("Duration::ZERO TTL = already expired and 1 h = never expires within a case (both caches compare now >= created + ttl); no other TTL is used");
    ck.assume("must-hit (clause 4) is demanded only while the model's upper bound of the content stayed strictly below 50 % of max_entries and max_memory_bytes since the put");
    ck.assume("keys are single-component file names that do not end in .tmp (path traversal and reserved names belong to C20)");
    ck.assume("DiskCache::size() scans the directory while its own counter is 0 (documented fallback): stats.entry_count == size() is not demanded in that state, the sweep clause still is");
    ck.assume("a put/remove/clear that returns Err ends the history without a verdict (class abandoned-on-put-error); a get that returns Err is a violation");
    ck.assume("tokio's paused clock drives only the cleanup interval; expiry uses the real clock with ZERO / 1 h TTLs");

    // In --replay mode nothing is tolerated inside a history: the first finding ends the case
    // with its key, and the engine reports it as KNOWN-FINDING / VIOLATION.
    let known = if ck.is_replay() { vh_engine::Known::default() } else { ck.known().clone() };
    let k1 = known.clone();
    ck.run(Section::pbt("memory-history", tier.pick(1600, 160_000), memory_case, move |c: &HistCase| check_history(c, &k1)).shards(16));
    let k2 = known.clone();
    ck.run(Section::pbt("disk-history", tier.pick(900, 90_000), disk_case, move |c: &HistCase| check_history(c, &k2)).shards(16));
    let k3 = known.clone();
    ck.run(Section::pbt("protocol-history", tier.pick(400, 40_000), protocol_case, move |c: &HistCase| check_history(c, &k3)).shards(16));

    // DiskCache reads files of 16 MiB and more through its own path (read_file_mmap)
    let k4 = known.clone();
    ck.run(
        Section::enumerate(
            "large-values",
            "values of 16 MiB - 1, 16 MiB, 16 MiB + 4321, 17.5 MiB and 33 MiB + 1 on DiskCache (flat and 2-level layout), ProtocolCache over a directory and MemoryCache: put, get, overwrite by a small value, get, put again, new instance over the same directory, get, sweep",
            || {
                const MIB: usize = 1024 * 1024;
                let mut v = Vec::new();
                for len in [16 * MIB - 1, 16 * MIB, 16 * MIB + 4321, 17 * MIB + MIB / 2, 33 * MIB + 1] {
                    for backend in [
                        Backend::Disk { subdir_levels: 0 },
                        Backend::Disk { subdir_levels: 2 },
                        Backend::ProtoDisk,
                        Backend::Memory { policy: Pol::Lru, max_entries: 4, max_bytes: None },
                    ] {
                        let disk = !matches!(backend, Backend::Memory { .. });
                        let mut ops = vec![Op::Put { k: 0, len }, Op::Get { k: 0 }, Op::Put { k: 1, len: 10 }, Op::Put { k: 0, len: 7 }, Op::Get { k: 0 }, Op::PutTtl { k: 0, len, zero: false }, Op::Get { k: 0 }];
                        if disk {
                            ops.extend([Op::Recreate, Op::Get { k: 0 }, Op::Get { k: 1 }]);
                        }
                        ops.push(Op::Sweep);
                        v.push(HistCase { backend, default_ttl: DefTtl::Hour, key_style: (len % 5) as u8, pool: 2, content_seed: len as u64, ops });
                    }
                }
                Box::new(v.into_iter())
            },
            move |c: &HistCase| check_history(c, &k4),
        )
        .shards(10),
    );

    ck.run(
        Section::enumerate(
            "background-cleanup",
            "paused clock, cleanup interval 60 s, advance 61 s: every sequence of 1..=3 put_with_ttl(ZERO|1h) over 2 keys on MemoryCache::new_with_cleanup, \
             every sequence of 1..=2 on DiskCache::new_with_background_tasks (flat and 2-level hashed layout); then sweep",
            || Box::new(background::all_cases().into_iter()),
            background::check,
        )
        .shards(12),
    );

    ck.finish();
}
