//! Deterministic scenario for the background cleanup task (paused tokio clock).
//!
//! The cache is built with its background-task constructor and a 60 s cleanup
//! interval on a paused current-thread runtime. A script of put_with_ttl calls
//! runs, the clock is advanced past the interval and the task is given the
//! thread. Afterwards: no ZERO-TTL value is served, every 1 h value is served
//! (two entries against default limits: far from any limit), and the reported
//! figures equal what is retrievable (clause 3).

use crate::sut::{DefTtl, HOUR, Pol, SKey, disk_config, memory_config};
use bytes::Bytes;
use cascette_cache::disk_cache::DiskCache;
use cascette_cache::memory_cache::MemoryCache;
use cascette_cache::traits::AsyncCache;
use serde::{Deserialize, Serialize};
use std::time::Duration;
use vh_engine::Verdict;

#[derive(Debug, Clone, Copy, PartialEq, Eq, Serialize, Deserialize)]
pub enum BgKind {
    Memory,
    DiskFlat,
    DiskHashed,
}

#[derive(Debug, Clone, Serialize, Deserialize)]
pub struct BgPut {
    pub k: usize,
    pub len: usize,
    pub zero: bool,
}

#[derive(Debug, Clone, Serialize, Deserialize)]
pub struct BgCase {
    pub kind: BgKind,
    pub script: Vec<BgPut>,
}

const KEYS: [&str; 2] = ["bg-key-0", "bg-key-1"];

pub fn all_cases() -> Vec<BgCase> {
    let atoms: Vec<(usize, bool)> = vec![(0, true), (0, false), (1, true), (1, false)];
    let mut out = Vec::new();
    for (kind, max_len) in [(BgKind::Memory, 3usize), (BgKind::DiskFlat, 2), (BgKind::DiskHashed, 2)] {
        for n in 1..=max_len {
            let total = atoms.len().pow(n as u32);
            for code in 0..total {
                let mut c = code;
                let mut script = Vec::new();
                for pos in 0..n {
                    let (k, zero) = atoms[c % atoms.len()];
                    c /= atoms.len();
                    script.push(BgPut { k, len: 3 + 2 * pos, zero });
                }
                out.push(BgCase { kind, script });
            }
        }
    }
    out
}

fn value(pos: usize, len: usize) -> Vec<u8> {
    (0..len).map(|i| (pos * 16 + i + 1) as u8).collect()
}

async fn drive<C: AsyncCache<SKey>>(cache: &C, case: &BgCase, sub: &str) -> Verdict {
    // let the spawned task(s) take their first, immediate tick
    for _ in 0..8 {
        tokio::task::yield_now().await;
    }
    // model: latest value per key
    let mut latest: [Option<(Vec<u8>, bool)>; 2] = [None, None];
    for (pos, p) in case.script.iter().enumerate() {
        let k = p.k.min(1);
        let v = value(pos, p.len);
        let ttl = if p.zero { Duration::ZERO } else { HOUR };
        if let Err(e) = cache.put_with_ttl(SKey(KEYS[k].into()), Bytes::from(v.clone()), ttl).await {
            return Verdict::pass().class("abandoned-on-put-error").with_fail("C10:harness:background-put-error", e.to_string());
        }
        latest[k] = Some((v, p.zero));
    }
    let expired_present = latest.iter().flatten().any(|(_, z)| *z);
    // pass the cleanup interval and hand the thread to the background task
    tokio::time::advance(Duration::from_secs(61)).await;
    for _ in 0..16 {
        tokio::task::yield_now().await;
    }
    let verdict = Verdict::pass().nontrivial(expired_present).class_if(expired_present, "expired-entry-at-cleanup").class_if(
        latest.iter().flatten().any(|(_, z)| !*z),
        "live-entry-at-cleanup",
    );
    // sweep
    let mut hits = 0usize;
    let mut bytes = 0usize;
    for k in 0..2 {
        let got = match cache.get(&SKey(KEYS[k].into())).await {
            Ok(g) => g,
            Err(e) => return verdict.with_fail(format!("C10:{sub}:get-returned-error"), format!("after background cleanup: get({}) -> Err({e})", KEYS[k])),
        };
        match (&got, &latest[k]) {
            (None, Some((v, false))) => {
                return verdict.with_fail(
                    format!("C10:{sub}:background-cleanup:must-hit-missed"),
                    format!("get({}) -> None after the background cleanup, but a {}-byte value with a 1 h TTL was put and the cache is far from its limits", KEYS[k], v.len()),
                );
            }
            (None, _) => {}
            (Some(b), Some((v, zero))) if b.as_ref() == v.as_slice() => {
                if *zero {
                    return verdict.with_fail(format!("C10:{sub}:get-serves-expired-value"), format!("after background cleanup: get({}) served a ZERO-TTL value", KEYS[k]));
                }
                hits += 1;
                bytes += b.len();
            }
            (Some(b), _) => {
                return verdict.with_fail(
                    format!("C10:{sub}:get-serves-unknown-value"),
                    format!("after background cleanup: get({}) served {} bytes that are not the latest put", KEYS[k], b.len()),
                );
            }
        }
    }
    let size = match cache.size().await {
        Ok(s) => s,
        Err(e) => return verdict.with_fail(format!("C10:{sub}:figures-returned-error"), e.to_string()),
    };
    let stats = match cache.stats().await {
        Ok(s) => s,
        Err(e) => return verdict.with_fail(format!("C10:{sub}:figures-returned-error"), e.to_string()),
    };
    if size != hits || stats.entry_count != hits {
        return verdict.with_fail(
            format!("C10:{sub}:background-cleanup:size-differs-from-retrievable"),
            format!(
                "after the background cleanup purged expired entries and every key was read: size() = {size}, stats.entry_count = {}, but {hits} keys are retrievable",
                stats.entry_count
            ),
        );
    }
    if stats.memory_usage_bytes != bytes {
        return verdict.with_fail(
            format!("C10:{sub}:background-cleanup:bytes-differ-from-retrievable"),
            format!("after the background cleanup: stats reports {} bytes but the {hits} retrievable values total {bytes} bytes", stats.memory_usage_bytes),
        );
    }
    verdict
}

pub fn check(case: &BgCase) -> Verdict {
    let rt = match tokio::runtime::Builder::new_current_thread().enable_all().start_paused(true).build() {
        Ok(rt) => rt,
        Err(e) => return Verdict::fail("C10:harness:cannot-build-runtime", e.to_string()),
    };
    let dir = match tempfile::Builder::new().prefix("vh-c10-bg-").tempdir() {
        Ok(d) => d,
        Err(e) => return Verdict::fail("C10:harness:cannot-make-tempdir", e.to_string()),
    };
    rt.block_on(async {
        match case.kind {
            BgKind::Memory => {
                let mut cfg = memory_config(Pol::Lru, 10_000, Some(100 << 20), DefTtl::Hour);
                cfg.cleanup_interval = Duration::from_secs(60);
                match MemoryCache::<SKey>::new_with_cleanup(cfg) {
                    Ok(c) => drive(&c, case, "memory").await,
                    Err(e) => Verdict::fail("C10:harness:cannot-construct-cache", e.to_string()),
                }
            }
            BgKind::DiskFlat | BgKind::DiskHashed => {
                let mut cfg = disk_config(dir.path(), if case.kind == BgKind::DiskFlat { 0 } else { 2 }, DefTtl::Hour);
                cfg.cleanup_interval = Duration::from_secs(60);
                // the sync task shells out to sync(1) on every tick: one year = only its immediate first tick
                cfg.sync_interval = Duration::from_secs(365 * 24 * 3600);
                match DiskCache::<SKey>::new_with_background_tasks(cfg) {
                    Ok(c) => drive(&c, case, "disk").await,
                    Err(e) => Verdict::fail("C10:harness:cannot-construct-cache", e.to_string()),
                }
            }
        }
    })
}
