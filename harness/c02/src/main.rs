//! C02 — parsers fail closed on arbitrary bytes: no panic, abort, hang or
//! out-of-proportion allocation. Engine: iso (worker processes).

use vh_c02::driver::{DriverCfg, run_iso};
use vh_c02::targets::TARGETS;
use vh_engine::Check;

fn main() {
    let args: Vec<String> = std::env::args().collect();
    if args.get(1).map(String::as_str) == Some("worker") {
        if args.get(2).map(String::as_str) == Some("fixpoint") {
            vh_c02::targets::FIXPOINT.store(true, std::sync::atomic::Ordering::SeqCst);
        }
        vh_engine::iso::worker_main(TARGETS);
    }
    let mut ck = Check::from_args("C02", "exploration");
    let tier = ck.tier;
    ck.extra(
        "rule",
        "per target: seeds (repo fixtures <=200 KiB + builder outputs), every truncation <=64 and last-32, deterministic boundary sweep \
         (first/last 64 bytes x widths 1/2/3/4/5/8 x LE/BE x 13 boundary values, also with integrity fix-up), shape generators \
         (deep nesting, LRU links, MIME 512 boundary), random stacked mutations (half with integrity fix-up). Oracle per input in an \
         isolated worker: no panic, no abnormal death, largest single allocation <= max(64 MiB, 1024*len) (1 GiB + 64 MiB for \
         decompressing targets), CPU <= 5 s (a hit is re-run alone with 30 s and only counts if it hits again). Non-trivial = input got past the magic/minimum-size gate; distinct by input hash"
            .into(),
    );
    ck.assume("allocation tracking counts requests made through the Rust global allocator in the worker process");
    ck.assume("a worker death is attributed to the input it was processing (one input in flight per worker)");
    let cfg = DriverCfg {
        fixpoint: false,
        targets: TARGETS.iter().map(|t| t.name).collect(),
        mutations_per_target: tier.pick(2_000, 200_000),
        sweep: true,
    };
    run_iso(&mut ck, "iso-fuzz", &cfg);
    ck.finish();
}
