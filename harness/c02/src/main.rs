//! C02 — parsers fail closed on arbitrary bytes: no panic, abort, hang or
//! out-of-proportion allocation. Engine: iso (worker processes).

use vh_c02::driver::{DriverCfg, run_iso};
use vh_c02::targets::TARGETS;
use vh_engine::Check;

fn main() {
    let args: Vec<String> = std::env::args().collect();
    if args.get(1).map(String::as_str) == Some("worker") {
        if args.get(2).map(String::as_str) == Some("fixpoint") {
            vh_c02::targets::FIXPOINT.store(true, std::sync::atomic::Ordering::SeqCst);
        }
        vh_engine::iso::worker_main(TARGETS);
    }
    if args.get(1).map(String::as_str) == Some("dump-seeds") {
        // vh-c02 dump-seeds <dir> [casc]: libFuzzer corpus; byte 0 = target selector
        let dir = std::path::PathBuf::from(&args[2]);
        let casc = args.get(3).map(String::as_str) == Some("casc");
        std::fs::create_dir_all(&dir).expect("corpus dir");
        let mut n = 0;
        let names: Vec<&str> = if casc { vh_c02::targets::CASC_TARGETS.to_vec() } else { TARGETS.iter().map(|t| t.name).collect() };
        for (i, name) in names.iter().enumerate() {
            for (sname, bytes) in vh_c02::seeds::seeds_for(name) {
                if bytes.len() > 64 * 1024 {
                    continue;
                }
                let mut f = vec![i as u8];
                f.extend_from_slice(&bytes);
                let h = vh_engine::util::fnv64(&f);
                let _ = sname;
                std::fs::write(dir.join(format!("{name}-{h:016x}")), f).expect("write seed");
                n += 1;
            }
        }
        println!("{n} seeds written to {}", dir.display());
        return;
    }
    if args.get(1).map(String::as_str) == Some("artifact-to-replay") {
        // vh-c02 artifact-to-replay <artifact> <out.json> [casc]: a libFuzzer crash input as a replay file
        let data = std::fs::read(&args[2]).expect("artifact");
        let casc = args.get(4).map(String::as_str) == Some("casc");
        if data.is_empty() {
            eprintln!("empty artifact");
            std::process::exit(2);
        }
        let name = if casc {
            vh_c02::targets::CASC_TARGETS[data[0] as usize % vh_c02::targets::CASC_TARGETS.len()]
        } else {
            TARGETS[data[0] as usize % TARGETS.len()].name
        };
        let case = vh_c02::driver::IsoCase { target: name.to_string(), origin: format!("libFuzzer artifact {}", args[2]), input: data[1..].to_vec() };
        let rf = serde_json::json!({"property": if casc { "C08" } else { "C02" }, "section": if casc { "iso-fixpoint" } else { "iso-fuzz" }, "key": "libfuzzer-artifact", "msg": "", "case": case});
        std::fs::write(&args[3], serde_json::to_string_pretty(&rf).unwrap()).expect("write replay");
        return;
    }
    let mut ck = Check::from_args("C02", "exploration");
    let tier = ck.tier;
    ck.extra(
        "rule",
        "per target: seeds (repo fixtures <=200 KiB + builder outputs), every truncation <=64 and last-32, deterministic boundary sweep \
         (first/last 64 bytes x widths 1/2/3/4/5/8 x LE/BE x 13 boundary values, also with integrity fix-up), shape generators \
         (deep nesting, LRU links, MIME 512 boundary), random stacked mutations (half with integrity fix-up). Oracle per input in an \
         isolated worker: no panic, no abnormal death, largest single allocation <= max(64 MiB, 1024*len) (1 GiB + 64 MiB for \
         decompressing targets), CPU <= 5 s (a hit is re-run alone with 30 s and only counts if it hits again). Non-trivial = input got past the magic/minimum-size gate; distinct by input hash"
            .into(),
    );
    ck.assume("allocation tracking counts requests made through the Rust global allocator in the worker process");
    ck.assume("a worker death is attributed to the input it was processing (one input in flight per worker)");
    let cfg = DriverCfg {
        fixpoint: false,
        targets: TARGETS.iter().map(|t| t.name).collect(),
        mutations_per_target: std::env::var("VH_C02_MUTATIONS").ok().and_then(|v| v.parse().ok()).unwrap_or(tier.pick(2_000, 200_000)),
        sweep: true,
    };
    run_iso(&mut ck, "iso-fuzz", &cfg);
    ck.finish();
}
