//! Master-side driver shared by C02 (fail-closed) and C08 part A (fixed point).

use crate::mutate;
use crate::seeds::{Seed, seeds_for};
use crate::targets::{TARGETS, target_index};
use serde::{Deserialize, Serialize};
use std::collections::{BTreeMap, HashSet};
use std::sync::Mutex;
use vh_engine::iso::{IsoInput, IsoResult, MasterConfig, Status, live_limit, run_master, single_limit};
use vh_engine::util::{Rng, fnv64, hexbytes};
use vh_engine::{Check, Tier};

#[derive(Serialize, Deserialize, Clone, Debug)]
pub struct IsoCase {
    pub target: String,
    pub origin: String,
    #[serde(with = "hexbytes")]
    pub input: Vec<u8>,
}

pub struct DriverCfg {
    pub fixpoint: bool,
    pub targets: Vec<&'static str>,
    pub mutations_per_target: usize,
    pub sweep: bool,
}

#[derive(Default)]
struct TStat {
    inputs: u64,
    gate: HashSet<u64>,
    accepted: u64,
    accepted_nonseed: HashSet<u64>,
    classes: BTreeMap<String, u64>,
    skipped_other_property: u64,
    samples: Vec<serde_json::Value>,
}

/// (key, msg) if this result violates the property of this mode.
pub fn judge(id: &str, fixpoint: bool, target: usize, len: usize, r: &IsoResult) -> Result<Option<(String, String)>, ()> {
    let t = &TARGETS[target];
    let crashy = match r.status {
        Status::Panic => Some((format!("{}:panic:{}", t.name, r.key), r.msg.clone())),
        Status::Died => Some((format!("{}:{}", t.name, r.key), r.msg.clone())),
        Status::Hang => Some((format!("{}:hang", t.name), r.msg.clone())),
        Status::Ok | Status::Fail => {
            let lim = single_limit(t, len);
            if r.refused > 0 || r.max_single > lim {
                Some((
                    format!("{}:oversize-alloc", t.name),
                    format!("single allocation request of {} bytes for a {len}-byte input (limit {lim})", r.refused.max(r.max_single)),
                ))
            } else if r.peak_live > live_limit(t, len) {
                Some((format!("{}:excessive-live-memory", t.name), format!("peak live {} bytes for a {len}-byte input", r.peak_live)))
            } else {
                None
            }
        }
    };
    if fixpoint {
        // crashes / oversize belong to C02; the fixed-point oracle only speaks about accepted inputs
        if crashy.is_some() {
            return Err(());
        }
        if r.status == Status::Fail {
            return Ok(Some((format!("{id}:{}", r.key), r.msg.clone())));
        }
        Ok(None)
    } else {
        Ok(crashy.map(|(k, m)| (format!("{id}:{k}"), m)))
    }
}

struct Gen {
    targets: Vec<usize>,
    cfg_mut: usize,
    sweep: bool,
    thorough: bool,
    seed: u64,
    // state
    ti: usize,
    queue: std::collections::VecDeque<IsoInput>,
    seeds: Vec<Seed>,
    produced_mut: usize,
    rng: Rng,
    phase: u8,
}

impl Gen {
    fn load_target(&mut self) {
        let t = self.targets[self.ti];
        let name = TARGETS[t].name;
        self.seeds = seeds_for(name);
        self.rng = Rng::new(self.seed ^ fnv64(name.as_bytes()));
        self.produced_mut = 0;
        self.phase = 0;
    }
    fn fill(&mut self) -> bool {
        // returns false when everything is exhausted
        loop {
            if self.ti >= self.targets.len() {
                return false;
            }
            let t = self.targets[self.ti];
            let name = TARGETS[t].name;
            match self.phase {
                0 => {
                    // seeds themselves + truncations + shapes
                    for (n, b) in &self.seeds {
                        self.queue.push_back(IsoInput { target: t, data: b.clone(), origin: format!("seed {n}") });
                    }
                    let smallest = self.seeds.iter().min_by_key(|s| s.1.len()).cloned();
                    if let Some((n, b)) = &smallest {
                        for (d, x) in mutate::truncations(b, &mut self.rng, 64) {
                            self.queue.push_back(IsoInput { target: t, data: x, origin: format!("{d} of {n}") });
                        }
                    }
                    for (d, mut x) in mutate::shapes(name, self.thorough) {
                        if mutate::has_fixup(name) {
                            mutate::fixup(name, &mut x);
                        }
                        self.queue.push_back(IsoInput { target: t, data: x, origin: d });
                    }
                    if name == "tvfs" {
                        if let Some((n, b)) = self.seeds.iter().find(|s| s.0.starts_with("builder:tvfs")) {
                            for depth in [10usize, 1000, 20_000, 200_000] {
                                if let Some(x) = mutate::tvfs_deep(b, depth) {
                                    self.queue.push_back(IsoInput { target: t, data: x, origin: format!("shape: path table nested {depth} deep in {n}") });
                                }
                            }
                        }
                    }
                    self.phase = 1;
                    if !self.queue.is_empty() {
                        return true;
                    }
                }
                1 => {
                    // boundary sweep on the smallest seed (and its fixed-up variant)
                    self.phase = 2;
                    if self.sweep {
                        if let Some((n, b)) = self.seeds.iter().min_by_key(|s| s.1.len()).cloned() {
                            for (d, x) in mutate::boundary_sweep(&b, 64, 64) {
                                if mutate::has_fixup(name) {
                                    let mut y = x.clone();
                                    if mutate::fixup(name, &mut y) && y != x {
                                        self.queue.push_back(IsoInput { target: t, data: y, origin: format!("{d} + integrity fix-up, of {n}") });
                                    }
                                }
                                self.queue.push_back(IsoInput { target: t, data: x, origin: format!("{d} of {n}") });
                            }
                            // pairs of large fields in the first 16 bytes, also cut right behind them
                            for (d, x) in mutate::pair_sweep(&b, 16) {
                                if x.len() > 16 {
                                    self.queue.push_back(IsoInput { target: t, data: x[..16].to_vec(), origin: format!("{d}, cut to 16 bytes, of {n}") });
                                    self.queue.push_back(IsoInput { target: t, data: x[..12].to_vec(), origin: format!("{d}, cut to 12 bytes, of {n}") });
                                }
                                self.queue.push_back(IsoInput { target: t, data: x, origin: format!("{d} of {n}") });
                            }
                        }
                        // DER inputs: every length byte at its neighbours
                        if name == "pkcs7-signature" {
                            for (n, b) in self.seeds.clone() {
                                for (d, x) in mutate::der_length_sweep(&b, 400) {
                                    self.queue.push_back(IsoInput { target: t, data: x, origin: format!("{d} of {n}") });
                                }
                            }
                        }
                        // decimal numbers of text inputs at their boundaries (the three smallest seeds)
                        let mut small: Vec<(String, Vec<u8>)> = self.seeds.iter().filter(|s| s.1.len() <= 8192).cloned().collect();
                        small.sort_by_key(|s| s.1.len());
                        for (n, b) in small.iter().take(3) {
                            for (d, x) in mutate::decimal_sweep(b, 40) {
                                self.queue.push_back(IsoInput { target: t, data: x, origin: format!("{d} of {n}") });
                            }
                        }
                        if !self.queue.is_empty() {
                            return true;
                        }
                    }
                }
                2 => {
                    if self.produced_mut >= self.cfg_mut || self.seeds.is_empty() {
                        self.phase = 3;
                        continue;
                    }
                    // a batch of random mutations
                    for _ in 0..256.min(self.cfg_mut - self.produced_mut) {
                        let si = self.rng.below(self.seeds.len() as u64) as usize;
                        let oi = self.rng.below(self.seeds.len() as u64) as usize;
                        // prefer small seeds: retry once if the chosen one is large
                        let si = if self.seeds[si].1.len() > 32 * 1024 && self.rng.below(3) != 0 {
                            self.rng.below(self.seeds.len() as u64) as usize
                        } else {
                            si
                        };
                        let (d, mut x) = mutate::mutate(&self.seeds[si].1, &self.seeds[oi].1, &mut self.rng);
                        let mut origin = format!("mutation [{d}] of {}", self.seeds[si].0);
                        if mutate::has_fixup(name) && self.rng.below(2) == 0 && mutate::fixup(name, &mut x) {
                            origin.push_str(" + integrity fix-up");
                        }
                        self.queue.push_back(IsoInput { target: t, data: x, origin });
                        self.produced_mut += 1;
                    }
                    return true;
                }
                _ => {
                    self.ti += 1;
                    if self.ti < self.targets.len() {
                        self.load_target();
                    }
                }
            }
        }
    }
}

impl Iterator for Gen {
    type Item = IsoInput;
    fn next(&mut self) -> Option<IsoInput> {
        if self.queue.is_empty() && !self.fill() {
            return None;
        }
        self.queue.pop_front()
    }
}

fn master_cfg(fixpoint: bool, workers: usize) -> MasterConfig {
    let mut worker_args = vec!["worker".to_string()];
    if fixpoint {
        worker_args.push("fixpoint".into());
    }
    MasterConfig {
        exe: std::env::current_exe().expect("current_exe"),
        worker_args,
        workers,
        cpu_budget_s: 5.0,
        recheck_budget_s: 30.0,
    }
}

/// Run one input alone (replay, minimisation).
pub fn run_single(fixpoint: bool, target: usize, data: &[u8]) -> Option<IsoResult> {
    let out: Mutex<Option<IsoResult>> = Mutex::new(None);
    let inp = IsoInput { target, data: data.to_vec(), origin: String::new() };
    let _ = run_master(&master_cfg(fixpoint, 1), std::iter::once(inp), |_i, r| {
        *out.lock().unwrap() = Some(r.clone());
    });
    out.into_inner().unwrap()
}

/// Greedy minimisation: remove blocks while the same key still fails.
fn minimise(id: &str, fixpoint: bool, target: usize, data: &[u8], key: &str, budget: usize) -> Vec<u8> {
    let mut cur = data.to_vec();
    let mut left = budget;
    let still = |d: &[u8]| -> bool {
        match run_single(fixpoint, target, d) {
            Some(r) => matches!(judge(id, fixpoint, target, d.len(), &r), Ok(Some((k, _))) if k == key),
            None => false,
        }
    };
    // 1. shortest failing prefix by bisection (valid for truncation-tolerant failures only; verified)
    let mut block = cur.len() / 2;
    while block >= 1 && left > 0 {
        let mut i = 0;
        let mut progressed = false;
        while i + block <= cur.len() && left > 0 {
            let mut cand = cur.clone();
            cand.drain(i..i + block);
            left -= 1;
            if still(&cand) {
                cur = cand;
                progressed = true;
            } else {
                i += block;
            }
        }
        if !progressed || block == 1 {
            block /= 2;
        }
    }
    cur
}

pub fn run_iso(ck: &mut Check, section: &'static str, cfg: &DriverCfg) {
    let id = ck.id;
    // replay mode
    if let Some((sec, case, path)) = ck.replay_request() {
        if sec != section {
            return;
        }
        let c: IsoCase = match serde_json::from_value(case) {
            Ok(c) => c,
            Err(e) => {
                eprintln!("bad replay case: {e}");
                std::process::exit(2);
            }
        };
        let Some(t) = target_index(&c.target) else {
            eprintln!("unknown target {}", c.target);
            std::process::exit(2);
        };
        let Some(r) = run_single(cfg.fixpoint, t, &c.input) else {
            eprintln!("worker infrastructure failure");
            std::process::exit(2);
        };
        println!("replay result: status={:?} class={} max_single={} refused={} cpu_us={} msg={}", r.status, r.class, r.max_single, r.refused, r.cpu_us, r.msg);
        let fail = judge(id, cfg.fixpoint, t, c.input.len(), &r).unwrap_or(None);
        ck.conclude_replay(&path, fail);
    }
    if !ck.section_enabled(section) {
        return;
    }
    let thorough = ck.tier == Tier::Thorough;
    let targets: Vec<usize> = cfg.targets.iter().filter_map(|n| target_index(n)).collect();
    let only_target = std::env::var("VH_TARGET").ok();
    let targets: Vec<usize> = targets.into_iter().filter(|t| only_target.as_deref().is_none_or(|o| o.split(',').any(|x| x == TARGETS[*t].name))).collect();
    if targets.is_empty() {
        return;
    }

    let stats: Mutex<BTreeMap<usize, TStat>> = Mutex::new(BTreeMap::new());
    // key -> smallest failing (target, origin, data, msg)
    let fails: Mutex<BTreeMap<String, (usize, String, Vec<u8>, String)>> = Mutex::new(BTreeMap::new());
    let seed_hashes: HashSet<u64> = targets.iter().flat_map(|t| seeds_for(TARGETS[*t].name)).map(|s| fnv64(&s.1)).collect();

    let on_result = |inp: &IsoInput, r: &IsoResult| {
        let verdict = judge(id, cfg.fixpoint, inp.target, inp.data.len(), r);
        let mut st = stats.lock().unwrap();
        let s = st.entry(inp.target).or_default();
        s.inputs += 1;
        let h = fnv64(&inp.data);
        if r.gate {
            s.gate.insert(h);
        }
        if r.accepted {
            s.accepted += 1;
            if !seed_hashes.contains(&h) {
                s.accepted_nonseed.insert(h);
            }
        }
        let cls: String = r.class.chars().take(40).collect();
        *s.classes.entry(cls).or_default() += 1;
        let interesting = if cfg.fixpoint { r.accepted && !seed_hashes.contains(&h) } else { r.gate };
        if interesting && s.samples.len() < 3 && inp.data.len() <= 600 {
            s.samples.push(serde_json::json!({"target": TARGETS[inp.target].name, "origin": inp.origin, "input_hex": hex::encode(&inp.data), "class": r.class}));
        }
        // C08 part C: real CDN files must rebuild to the identical bytes
        let verdict = match verdict {
            Ok(None) if cfg.fixpoint && inp.origin.starts_with("seed fixture:") && r.accepted && r.class != "ok:identical" => Ok(Some((
                format!("{id}:{}:cdn-fixture-does-not-rebuild-byte-identically", TARGETS[inp.target].name),
                format!("{} parses and reaches a fixed point, but build(parse(f)) != f", inp.origin),
            ))),
            v => v,
        };
        if cfg.fixpoint && inp.origin.starts_with("seed fixture:") {
            *s.classes.entry(format!("cdn-fixture:{}", if r.class == "ok:identical" { "byte-identical" } else { "other" })).or_default() += 1;
        }
        match verdict {
            Err(()) => s.skipped_other_property += 1,
            Ok(None) => {}
            Ok(Some((key, msg))) => {
                drop(st);
                let mut f = fails.lock().unwrap();
                let replace = match f.get(&key) {
                    Some((_, _, d, _)) => inp.data.len() < d.len(),
                    None => true,
                };
                if replace {
                    f.insert(key, (inp.target, inp.origin.clone(), inp.data.clone(), msg));
                }
            }
        }
    };

    // stored regression inputs first
    let mut regress: Vec<IsoInput> = Vec::new();
    for (_p, case) in ck.stored_replays(section) {
        if let Ok(c) = serde_json::from_value::<IsoCase>(case) {
            if let Some(t) = target_index(&c.target) {
                if targets.contains(&t) {
                    regress.push(IsoInput { target: t, data: c.input, origin: format!("regression: {}", c.origin) });
                }
            }
        }
    }

    let mut g = Gen {
        targets: targets.clone(),
        cfg_mut: cfg.mutations_per_target,
        sweep: cfg.sweep,
        thorough,
        seed: ck.seed,
        ti: 0,
        queue: Default::default(),
        seeds: Vec::new(),
        produced_mut: 0,
        rng: Rng::new(0),
        phase: 0,
    };
    g.load_target();
    let t0 = std::time::Instant::now();
    if let Err(e) = run_master(&master_cfg(cfg.fixpoint, 16), regress.into_iter().chain(g), on_result) {
        ck.infra(e);
    }
    let wall = t0.elapsed().as_secs_f64();

    // report
    let st = stats.into_inner().unwrap();
    for (t, s) in &st {
        let name = TARGETS[*t].name;
        let nontrivial: Vec<u64> = if cfg.fixpoint { s.accepted_nonseed.iter().copied().collect() } else { s.gate.iter().copied().collect() };
        let mut classes: Vec<(String, u64)> = s.classes.iter().map(|(k, v)| (format!("{name}:{k}"), *v)).collect();
        classes.sort_by(|a, b| b.1.cmp(&a.1));
        classes.truncate(6);
        classes.push((format!("{name}:accepted"), s.accepted));
        if s.skipped_other_property > 0 {
            classes.push((format!("{name}:crash-or-oversize-left-to-C02"), s.skipped_other_property));
        }
        ck.record_external(section, s.inputs, nontrivial, classes, s.samples.clone(), None);
    }
    ck.extra(&format!("{section}_wall_s"), serde_json::json!((wall * 10.0).round() / 10.0));
    let fails = fails.into_inner().unwrap();
    for (key, (t, origin, data, msg)) in fails {
        let name = TARGETS[t].name;
        if ck.known().is_open(&key) {
            ck.count_known(section, &key, 1);
            continue;
        }
        // minimise before reporting (bounded)
        let small = if data.len() > 16 { minimise(id, cfg.fixpoint, t, &data, &key, 200) } else { data.clone() };
        let case = IsoCase { target: name.to_string(), origin: format!("{origin} (minimised from {} to {} bytes)", data.len(), small.len()), input: small };
        ck.report_external(section, &case, &key, &msg);
    }
}
