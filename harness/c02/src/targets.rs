//! One `fn(&[u8]) -> Outcome` per parser/decoder that accepts outside bytes.
//! In C08 mode (FIXPOINT set) the CascFormat targets additionally run the
//! parse→build→parse→build oracle on accepted inputs.

use crate::project::Project;
use cascette_crypto::{TactKey, TactKeyStore};
use cascette_formats::CascFormat;
use std::io::Cursor;
use std::sync::atomic::{AtomicBool, Ordering};
use vh_engine::iso::{Outcome, Target};
use vh_engine::util::normalise;

pub static FIXPOINT: AtomicBool = AtomicBool::new(false);

fn err_class(e: &str) -> (String, bool) {
    let n = normalise(e);
    let l = n.to_lowercase();
    let shallow = l.contains("magic")
        || l.contains("too short")
        || l.contains("too small")
        || l.contains("signature")
        || l.contains("unexpected end")
        || l.contains("unexpectedeof")
        || l.contains("failed to fill whole buffer")
        || l.contains("empty");
    let cls: String = n.chars().take(48).collect();
    (format!("err:{cls}"), !shallow)
}

fn err_outcome(e: impl std::fmt::Display) -> Outcome {
    let (c, gate) = err_class(&e.to_string());
    Outcome::err(c, gate)
}

/// parse; in FIXPOINT mode also check build/parse/build stability and logical content.
fn casc<T: CascFormat + Project>(name: &str, data: &[u8]) -> Outcome {
    let p1 = match T::parse(data) {
        Ok(p) => p,
        Err(e) => return err_outcome(e),
    };
    let mut out = Outcome::ok();
    if !FIXPOINT.load(Ordering::Relaxed) {
        // C02: also exercise cheap accessors reachable from a parsed value
        let _ = p1.project();
        return out;
    }
    let diag = p1.diagnose();
    let fail = |k: &str, m: String| -> Outcome {
        let mut o = Outcome::ok();
        // a value in a known non-round-tripping class gets that class as its key
        o.fail = Some(match diag {
            Some(d) => (format!("{name}:{d}"), format!("{k}: {m}")),
            None => (format!("{name}:{k}"), m),
        });
        o
    };
    let b1 = match p1.build() {
        Ok(b) => b,
        Err(e) => return fail("accepted-input-does-not-rebuild", normalise(&e.to_string())),
    };
    let p2 = match T::parse(&b1) {
        Ok(p) => p,
        Err(e) => return fail("rebuilt-output-rejected-by-own-parser", normalise(&e.to_string())),
    };
    let b2 = match p2.build() {
        Ok(b) => b,
        Err(e) => return fail("second-build-fails", normalise(&e.to_string())),
    };
    if b1 != b2 {
        let at = b1.iter().zip(&b2).position(|(a, b)| a != b).unwrap_or(b1.len().min(b2.len()));
        return fail("second-build-differs", format!("len {} vs {}, first difference at {at}", b1.len(), b2.len()));
    }
    let (j1, j2) = (p1.project(), p2.project());
    if j1 != j2 {
        let at = j1.bytes().zip(j2.bytes()).position(|(a, b)| a != b).unwrap_or(j1.len().min(j2.len()));
        let lo = at.saturating_sub(60);
        let s1: String = j1.chars().skip(lo).take(140).collect();
        let s2: String = j2.chars().skip(lo).take(140).collect();
        return fail("logical-content-changes-on-rebuild", format!("first parse …{s1}… vs reparse …{s2}…"));
    }
    if b1 == data {
        out.class = "ok:identical".into();
    }
    out
}

// ---- BLTE ---------------------------------------------------------------

fn t_blte(data: &[u8]) -> Outcome {
    use cascette_formats::blte::{BlteFile, CompressionMode};
    if FIXPOINT.load(Ordering::Relaxed) {
        return casc::<BlteFile>("blte", data);
    }
    // parsing is not decompression: the strict allocation limit applies to it
    let f = match vh_engine::iso::with_strict_alloc(data.len(), || <BlteFile as CascFormat>::parse(data)) {
        Ok(f) => f,
        Err(e) => return err_outcome(e),
    };
    let r1 = f.decompress();
    let r2 = f.decompress_with_keys(&TactKeyStore::empty());
    // a store holding every key name that appears in an encrypted chunk
    let mut store = TactKeyStore::empty();
    for c in &f.chunks {
        if c.mode == CompressionMode::Encrypted && c.data.len() >= 9 && c.data[0] == 8 {
            let id = u64::from_le_bytes(c.data[1..9].try_into().unwrap());
            store.add(TactKey::new(id, [0x5a; 16]));
        }
    }
    let r3 = f.decompress_with_keys(&store);
    let mut o = Outcome::ok();
    o.class = format!("ok:dec={}/{}/{}", r1.is_ok() as u8, r2.is_ok() as u8, r3.is_ok() as u8);
    o
}

// ---- encoding -----------------------------------------------------------

fn t_encoding(data: &[u8]) -> Outcome {
    casc::<cascette_formats::encoding::EncodingFile>("encoding", data)
}
fn t_encoding_blte(data: &[u8]) -> Outcome {
    match cascette_formats::encoding::EncodingFile::parse_blte(data) {
        Ok(_) => Outcome::ok(),
        Err(e) => err_outcome(e),
    }
}

// ---- archive ------------------------------------------------------------

fn t_archive_index(data: &[u8]) -> Outcome {
    casc::<cascette_formats::archive::ArchiveIndex>("archive-index", data)
}
fn t_archive_group(data: &[u8]) -> Outcome {
    match cascette_formats::archive::ArchiveGroup::parse(&mut Cursor::new(data)) {
        Ok(g) => {
            let _ = g.find_entry(&[0u8; 16]);
            let _ = g.find_entry(&[0xff; 16]);
            if data.len() >= 16 {
                let _ = g.find_entry(&data[..16]);
            }
            Outcome::ok()
        }
        Err(e) => err_outcome(e),
    }
}
fn t_archive_chunked(data: &[u8]) -> Outcome {
    use cascette_formats::archive::ChunkedArchiveIndex;
    let Ok(dir) = tempfile::tempdir() else { return Outcome::err("infra", false) };
    let p = dir.path().join("x.index");
    if std::fs::write(&p, data).is_err() {
        return Outcome::err("infra", false);
    }
    match ChunkedArchiveIndex::open(&p) {
        Ok(mut c) => {
            let probes: [&[u8]; 3] = [&[0u8; 16], &[0xff; 16], &[0x80; 16]];
            for k in probes {
                let _ = c.find_entry(k);
            }
            if data.len() >= 16 {
                let _ = c.find_entry(&data[..16]);
                let _ = c.find_entry(&data[..9]);
            }
            Outcome::ok()
        }
        Err(e) => err_outcome(e),
    }
}

// ---- manifests ----------------------------------------------------------

fn t_root(data: &[u8]) -> Outcome {
    casc::<cascette_formats::root::RootFile>("root", data)
}
fn t_install(data: &[u8]) -> Outcome {
    casc::<cascette_formats::install::InstallManifest>("install", data)
}
fn t_download(data: &[u8]) -> Outcome {
    casc::<cascette_formats::download::DownloadManifest>("download", data)
}
fn t_size(data: &[u8]) -> Outcome {
    casc::<cascette_formats::size::SizeManifest>("size", data)
}
fn t_tvfs(data: &[u8]) -> Outcome {
    casc::<cascette_formats::tvfs::TvfsFile>("tvfs", data)
}
fn t_tvfs_blte(data: &[u8]) -> Outcome {
    let _ = vh_engine::iso::with_strict_alloc(data.len(), || <cascette_formats::blte::BlteFile as CascFormat>::parse(data).map(|_| ()));
    match cascette_formats::tvfs::TvfsFile::load_from_blte(data) {
        Ok(_) => Outcome::ok(),
        Err(e) => err_outcome(e),
    }
}
fn t_patch_archive(data: &[u8]) -> Outcome {
    casc::<cascette_formats::patch_archive::PatchArchive>("patch-archive", data)
}
/// `decompress_patch_data`: the decoder for patch payloads. The compression spec travels in the
/// patch archive as text; here the input is `<spec text> NUL <payload>`.
fn t_patch_data(data: &[u8]) -> Outcome {
    use cascette_formats::patch_archive::{decompress_patch_data, get_compression_at_offset, parse_compression_spec};
    let cut = data.iter().position(|&b| b == 0).unwrap_or(data.len());
    let info = String::from_utf8_lossy(&data[..cut]);
    let payload = data.get(cut + 1..).unwrap_or(&[]);
    let spec = match parse_compression_spec(&info) {
        Ok(s) => s,
        Err(e) => return err_outcome(e),
    };
    for off in [0u64, 1, payload.len() as u64, u64::from(u32::MAX), u64::MAX] {
        let _ = get_compression_at_offset(&spec, off);
    }
    match decompress_patch_data(payload, &spec) {
        Ok(_) => Outcome::ok(),
        Err(e) => {
            let (c, _) = err_class(&e.to_string());
            Outcome::err(c, true)
        }
    }
}
fn t_patch_index(data: &[u8]) -> Outcome {
    casc::<cascette_formats::patch_index::PatchIndex>("patch-index", data)
}

// ---- zbsdiff ------------------------------------------------------------

fn old_file() -> Vec<u8> {
    // fixed "old" content: 4 KiB of a repeating ramp (any old file is allowed by the property)
    (0..4096u32).map(|i| (i.wrapping_mul(31) >> 3) as u8).collect()
}

fn t_zbsdiff(data: &[u8]) -> Outcome {
    use cascette_formats::zbsdiff::{ZbsDiff, apply_patch_memory};
    if FIXPOINT.load(Ordering::Relaxed) {
        return casc::<ZbsDiff>("zbsdiff", data);
    }
    let old = old_file();
    let mut cls = String::new();
    let parsed = <ZbsDiff as CascFormat>::parse(data);
    let mut gate = false;
    match &parsed {
        Ok(p) => {
            gate = true;
            cls.push_str("parse=ok");
            for o in [&old[..], &[][..], &old[..100]] {
                match p.apply(o) {
                    Ok(out) => {
                        if out.len() as i64 != p.header.output_size {
                            let mut oc = Outcome::ok();
                            oc.fail = Some((
                                "zbsdiff:apply-returns-wrong-length".into(),
                                format!("header says {} got {}", p.header.output_size, out.len()),
                            ));
                            return oc;
                        }
                    }
                    Err(_) => {}
                }
            }
        }
        Err(e) => {
            let (c, g) = err_class(&e.to_string());
            gate = g;
            cls.push_str(&c);
        }
    }
    let r = apply_patch_memory(&old, data);
    cls.push_str(if r.is_ok() { ";mem=ok" } else { ";mem=err" });
    // streaming patcher: the caller passes the output size it read from the header
    {
        use cascette_formats::zbsdiff::ZbsdiffPatcher;
        let out_size = match &parsed {
            Ok(p) if p.header.output_size >= 0 => p.header.output_size as usize,
            _ => 0,
        };
        for bs in [1024usize, 4096] {
            let r = ZbsdiffPatcher::new(Cursor::new(&old[..]), out_size).with_buffer_size(bs).apply_patch_from_data(data);
            match r {
                Ok(out) => {
                    if out.len() != out_size {
                        let mut oc = Outcome::ok();
                        oc.fail = Some(("zbsdiff:streaming-returns-wrong-length".into(), format!("want {out_size} got {}", out.len())));
                        return oc;
                    }
                    cls.push_str(";st=ok");
                }
                Err(_) => cls.push_str(";st=err"),
            }
        }
    }
    let mut o = Outcome::ok();
    o.class = cls;
    o.gate = gate;
    o.accepted = parsed.is_ok();
    o
}

// ---- text formats -------------------------------------------------------

fn t_build_config(data: &[u8]) -> Outcome {
    casc::<cascette_formats::config::BuildConfig>("build-config", data)
}
fn t_cdn_config(data: &[u8]) -> Outcome {
    casc::<cascette_formats::config::CdnConfig>("cdn-config", data)
}
fn t_patch_config(data: &[u8]) -> Outcome {
    casc::<cascette_formats::config::PatchConfig>("patch-config", data)
}
fn t_product_config(data: &[u8]) -> Outcome {
    casc::<cascette_formats::config::ProductConfig>("product-config", data)
}
fn t_keyring_config(data: &[u8]) -> Outcome {
    casc::<cascette_formats::config::KeyringConfig>("keyring-config", data)
}
fn t_bpsv(data: &[u8]) -> Outcome {
    casc::<cascette_formats::bpsv::BpsvDocument>("bpsv", data)
}
fn t_espec(data: &[u8]) -> Outcome {
    casc::<cascette_formats::espec::ESpec>("espec", data)
}
fn t_mime(data: &[u8]) -> Outcome {
    use cascette_protocol::mime_parser::{is_v1_mime_response, parse_v1_mime_response, parse_v1_mime_to_bpsv};
    let is = is_v1_mime_response(data);
    let r = parse_v1_mime_response(data);
    let _ = parse_v1_mime_to_bpsv(data);
    match r {
        Ok(_) => {
            let mut o = Outcome::ok();
            o.class = format!("ok:is={}", is as u8);
            o
        }
        Err(e) => {
            let (c, g) = err_class(&e.to_string());
            Outcome::err(format!("{c};is={}", is as u8), g || is)
        }
    }
}
/// the PKCS#7 / X.509 reader behind the signature part of a V1 response (DER: nested lengths)
fn t_pkcs7(data: &[u8]) -> Outcome {
    use cascette_protocol::v1_mime::signature::parse_and_verify_signature;
    let a = parse_and_verify_signature(data, Some(b"data"));
    let _ = parse_and_verify_signature(data, None);
    match a {
        Ok(i) => {
            let mut o = Outcome::ok();
            o.class = format!("ok:signers={} certs={}", i.signer_count.min(3), i.certificate_count.min(3));
            o
        }
        Err(e) => err_outcome(e),
    }
}

/// the second V1 MIME reader of the crate (`v1_mime`: mail-parser based, MD5/SHA-256 epilogue, signature and certificate parts)
fn t_mime_v1(data: &[u8]) -> Outcome {
    use cascette_protocol::v1_mime::{is_v1_mime_response, parse_v1_mime_response};
    let is = is_v1_mime_response(data);
    match parse_v1_mime_response(data, None) {
        Ok(_) => {
            let mut o = Outcome::ok();
            o.class = format!("ok:is={}", is as u8);
            o
        }
        Err(e) => {
            let (c, g) = err_class(&e.to_string());
            Outcome::err(format!("{c};is={}", is as u8), g || is)
        }
    }
}
fn t_build_info(data: &[u8]) -> Outcome {
    let s = String::from_utf8_lossy(data);
    match cascette_client_storage::BuildInfoFile::parse_str(&s) {
        Ok(b) => {
            let _ = crate::project::build_info_touch(&b);
            Outcome::ok()
        }
        Err(e) => err_outcome(e),
    }
}

// ---- local storage files ------------------------------------------------

fn rt() -> tokio::runtime::Runtime {
    tokio::runtime::Builder::new_current_thread().enable_all().build().expect("rt")
}

/// first byte selects the file name variant, the rest is the file content
fn t_idx(data: &[u8]) -> Outcome {
    use cascette_client_storage::index::IndexManager;
    let Ok(dir) = tempfile::tempdir() else { return Outcome::err("infra", false) };
    let p = dir.path().join("0000000001.idx");
    if std::fs::write(&p, data).is_err() {
        return Outcome::err("infra", false);
    }
    let mut m = IndexManager::new(dir.path());
    let r = m.load_index(0, &p);
    let cls = match &r {
        Ok(()) => {
            // use the loaded index
            let mut n = 0usize;
            for (_b, e) in m.iter_entries() {
                n += 1;
                if n < 64 {
                    let mut k = [0u8; 16];
                    k[..9].copy_from_slice(&e.key);
                    let _ = m.lookup(&cascette_crypto::EncodingKey::from_bytes(k));
                }
            }
            let _ = m.entry_count();
            "ok".to_string()
        }
        Err(e) => err_class(&e.to_string()).0,
    };
    // load_all over the same directory
    let mut m2 = IndexManager::new(dir.path());
    let r2 = rt().block_on(m2.load_all());
    let mut o = if r.is_ok() { Outcome::ok() } else { Outcome::err(cls.clone(), err_class(&cls).1) };
    o.class = format!("{cls};all={}", r2.is_ok() as u8);
    o
}

/// directory-entry names: the input is a *file name* (lossy UTF-8, '/' and NUL removed)
fn t_idx_names(data: &[u8]) -> Outcome {
    use cascette_client_storage::index::IndexManager;
    let Ok(dir) = tempfile::tempdir() else { return Outcome::err("infra", false) };
    let mut name: String = String::from_utf8_lossy(data).chars().filter(|c| *c != '/' && *c != '\0').collect();
    while name.len() > 200 {
        name.pop();
    }
    if name.is_empty() || name == "." || name == ".." {
        return Outcome::err("err:unusable-name", false);
    }
    if std::fs::write(dir.path().join(&name), b"not an index").is_err() {
        return Outcome::err("err:unusable-name", false);
    }
    let mut m = IndexManager::new(dir.path());
    let r = rt().block_on(m.load_all());
    // the LRU directory scan sees the same names
    let lm = cascette_client_storage::lru::LruManager::new(4, dir.path().to_path_buf());
    let _ = cascette_client_storage::lru::LruManager::find_latest_lru_file(dir.path());
    let _ = lm.scan_directory();
    let mut o = Outcome::ok();
    o.class = format!("all={}", r.is_ok() as u8);
    o.accepted = false;
    o
}

fn t_update_section(data: &[u8]) -> Outcome {
    use cascette_client_storage::index::update::{UpdatePage, UpdateSection};
    let s = UpdateSection::from_bytes(data);
    let n = s.entry_count();
    let _ = s.page_count();
    let _ = s.is_full();
    for e in s.all_entries().take(64) {
        let _ = s.search(&e.ekey);
        let _ = e.validate_hash_guard();
        let _ = e.to_index_entry();
    }
    let _ = s.to_bytes();
    let _ = UpdatePage::from_bytes(data);
    let mut o = Outcome::ok();
    o.class = format!("entries>0={}", (n > 0) as u8);
    o.gate = n > 0;
    o
}

fn t_residency(data: &[u8]) -> Outcome {
    use cascette_client_storage::kmt::key_state::ResidencyDb;
    let Ok(dir) = tempfile::tempdir() else { return Outcome::err("infra", false) };
    let p = dir.path().join("residency.db");
    if std::fs::write(&p, data).is_err() {
        return Outcome::err("infra", false);
    }
    match ResidencyDb::load(&p) {
        Ok(db) => {
            let n = crate::project::residency_touch(&db, data);
            let mut o = Outcome::ok();
            o.gate = n > 0;
            o.class = format!("ok:n>0={}", (n > 0) as u8);
            o
        }
        Err(e) => err_outcome(e),
    }
}

fn t_lru(data: &[u8]) -> Outcome {
    use cascette_client_storage::lru::{LruManager, lru_file};
    let d = lru_file::deserialize(data);
    let Ok(dir) = tempfile::tempdir() else { return Outcome::err("infra", false) };
    let p = lru_file::lru_file_path(dir.path(), 1);
    if std::fs::write(&p, data).is_err() {
        return Outcome::err("infra", false);
    }
    let rt = rt();
    let mut m = LruManager::new(8, dir.path().to_path_buf());
    let r = rt.block_on(m.load_from_disk(1));
    if r.is_ok() {
        let mut n = 0usize;
        m.for_each_entry(|_| n += 1);
        let _ = m.touch(&[1, 2, 3, 4, 5, 6, 7, 8, 9]);
        let _ = m.touch(&[0; 9]);
        m.for_each_entry(|_| n += 1);
        let _ = m.evict_tail();
        let _ = m.remove(&[1, 2, 3, 4, 5, 6, 7, 8, 9]);
        let _ = m.evict_to_target(1000, 10);
        m.for_each_entry(|_| n += 1);
        let _ = m.len();
    }
    let mut m2 = LruManager::new(8, dir.path().to_path_buf());
    let r2 = rt.block_on(m2.run_cycle(100, 10));
    let mut o = if d.is_some() { Outcome::ok() } else { Outcome::err("err:rejected", data.len() >= 28) };
    o.class = format!("des={};load={};cycle={}", d.is_some() as u8, r.is_ok() as u8, r2.is_ok() as u8);
    o
}

fn t_shmem(data: &[u8]) -> Outcome {
    use cascette_client_storage::shmem::control_block::{PidTracking, ShmemControlBlock};
    let cb = ShmemControlBlock::from_mapped(data);
    let pt = PidTracking::from_mapped(data);
    // to_mapped asserts that the destination can hold the block: give it ample room
    let mut buf = vec![0u8; data.len() + (64 << 10)];
    let _ = crate::project::shmem_touch(cb.as_ref(), &pt, &mut buf);
    let _ = cascette_client_storage::shmem::IpcMessage::from_bytes(data);
    let mut o = if cb.is_some() { Outcome::ok() } else { Outcome::err("err:rejected", false) };
    o.class = format!("cb={}", cb.is_some() as u8);
    o
}

fn t_local_header(data: &[u8]) -> Outcome {
    use cascette_client_storage::storage::local_header::LocalHeader;
    match LocalHeader::from_bytes(data) {
        Some(h) => {
            let _ = h.blte_size();
            let _ = h.original_encoding_key();
            let _ = h.validate_checksums(0);
            let _ = h.validate_checksums(3);
            Outcome::ok()
        }
        None => Outcome::err("err:too-short", false),
    }
}

pub static TARGETS: &[Target] = &[
    Target { name: "blte", run: t_blte, decompresses: true },
    Target { name: "encoding", run: t_encoding, decompresses: false },
    Target { name: "encoding-blte", run: t_encoding_blte, decompresses: true },
    Target { name: "archive-index", run: t_archive_index, decompresses: false },
    Target { name: "archive-group", run: t_archive_group, decompresses: false },
    Target { name: "archive-chunked", run: t_archive_chunked, decompresses: false },
    Target { name: "root", run: t_root, decompresses: false },
    Target { name: "install", run: t_install, decompresses: false },
    Target { name: "download", run: t_download, decompresses: false },
    Target { name: "size", run: t_size, decompresses: false },
    Target { name: "tvfs", run: t_tvfs, decompresses: false },
    Target { name: "tvfs-blte", run: t_tvfs_blte, decompresses: true },
    Target { name: "patch-archive", run: t_patch_archive, decompresses: false },
    Target { name: "patch-index", run: t_patch_index, decompresses: false },
    Target { name: "zbsdiff", run: t_zbsdiff, decompresses: true },
    Target { name: "build-config", run: t_build_config, decompresses: false },
    Target { name: "cdn-config", run: t_cdn_config, decompresses: false },
    Target { name: "patch-config", run: t_patch_config, decompresses: false },
    Target { name: "product-config", run: t_product_config, decompresses: false },
    Target { name: "keyring-config", run: t_keyring_config, decompresses: false },
    Target { name: "bpsv", run: t_bpsv, decompresses: false },
    Target { name: "espec", run: t_espec, decompresses: false },
    Target { name: "patch-data", run: t_patch_data, decompresses: true },
    Target { name: "mime", run: t_mime, decompresses: false },
    Target { name: "mime-v1-module", run: t_mime_v1, decompresses: false },
    Target { name: "pkcs7-signature", run: t_pkcs7, decompresses: false },
    Target { name: "build-info", run: t_build_info, decompresses: false },
    Target { name: "idx", run: t_idx, decompresses: false },
    Target { name: "idx-names", run: t_idx_names, decompresses: false },
    Target { name: "update-section", run: t_update_section, decompresses: false },
    Target { name: "residency", run: t_residency, decompresses: false },
    Target { name: "lru", run: t_lru, decompresses: false },
    Target { name: "shmem", run: t_shmem, decompresses: false },
    Target { name: "local-header", run: t_local_header, decompresses: false },
];

pub fn target_index(name: &str) -> Option<usize> {
    TARGETS.iter().position(|t| t.name == name)
}

/// names of the targets whose type implements CascFormat (C08 part A)
pub const CASC_TARGETS: &[&str] = &[
    "blte", "encoding", "archive-index", "root", "install", "download", "size", "tvfs", "patch-archive", "patch-index",
    "zbsdiff", "build-config", "cdn-config", "patch-config", "product-config", "keyring-config", "bpsv", "espec",
];
