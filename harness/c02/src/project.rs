//! Logical projections: "same entries, keys, sizes, flags, tags" — one per
//! format, deliberately *not* the Debug of raw page/table buffers.

use std::fmt::Write as _;

pub trait Project {
    fn project(&self) -> String;
}

/// order-independent fingerprint of a Debug value that contains HashMaps:
/// the sorted lines of its pretty form.
fn sorted_pretty<T: std::fmt::Debug>(v: &T) -> String {
    let s = format!("{v:#?}");
    let mut lines: Vec<&str> = s.lines().map(str::trim).collect();
    lines.sort_unstable();
    lines.join("\n")
}

impl Project for cascette_formats::blte::BlteFile {
    fn project(&self) -> String {
        let mut s = String::new();
        let _ = write!(s, "hdr={} ", self.header.header_size > 0);
        if let Some(e) = &self.header.extended {
            let _ = write!(s, "flags={:?} count={} infos={:?} ", e.flags, e.chunk_count, e.chunk_infos);
        }
        for c in &self.chunks {
            let _ = write!(s, "[{:?} {}]", c.mode, hex::encode(&c.data));
        }
        s
    }
}

impl Project for cascette_formats::encoding::EncodingFile {
    fn project(&self) -> String {
        let mut s = format!("{:?} espec={:?} trailing={:?}", self.header, self.espec_table.entries, self.trailing_espec);
        for p in &self.ckey_pages {
            let _ = write!(s, " C{:?}", p.entries);
        }
        for p in &self.ekey_pages {
            let _ = write!(s, " E{:?}", p.entries);
        }
        s
    }
}

impl Project for cascette_formats::archive::ArchiveIndex {
    fn project(&self) -> String {
        let f = &self.footer;
        format!(
            "v={} page={} off={} size={} klen={} hb={} n={} entries={:?}",
            f.version, f.page_size_kb, f.offset_bytes, f.size_bytes, f.ekey_length, f.footer_hash_bytes, f.element_count, self.entries
        )
    }
}

impl Project for cascette_formats::root::RootFile {
    fn project(&self) -> String {
        format!("{:?} {:?} {:?}", self.version, self.header, self.blocks)
    }
}

impl Project for cascette_formats::install::InstallManifest {
    fn project(&self) -> String {
        format!("{self:?}")
    }
}
impl Project for cascette_formats::download::DownloadManifest {
    fn project(&self) -> String {
        format!("{self:?}")
    }
}
impl Project for cascette_formats::size::SizeManifest {
    fn project(&self) -> String {
        format!("{self:?}")
    }
}

impl Project for cascette_formats::tvfs::TvfsFile {
    fn project(&self) -> String {
        format!(
            "{:?} files={:?} vfs={:?} cont={:?} est={:?}",
            self.header,
            self.path_table.files,
            self.vfs_table.entries,
            self.container_table.entries,
            self.est_table.as_ref().map(|e| &e.specs)
        )
    }
}

impl Project for cascette_formats::patch_archive::PatchArchive {
    fn project(&self) -> String {
        format!("{:?} {:?} {:?}", self.header, self.encoding_info, self.blocks)
    }
}
impl Project for cascette_formats::patch_index::PatchIndex {
    fn project(&self) -> String {
        format!("{:?} k={} {:?}", self.header, self.key_size, self.entries)
    }
}
impl Project for cascette_formats::zbsdiff::ZbsDiff {
    fn project(&self) -> String {
        format!(
            "{:?} c={} d={} e={}",
            self.header,
            hex::encode(&self.control_data),
            hex::encode(&self.diff_data),
            hex::encode(&self.extra_data)
        )
    }
}

impl Project for cascette_formats::config::BuildConfig {
    fn project(&self) -> String {
        format!(
            "{}\n--typed: root={:?} enc={:?} inst={:?} dl={:?} patch={:?} pc={:?} pi={:?} name={:?} uid={:?} prod={:?} size={:?} vfs={:?} vfsn={:?} chunks={:?}",
            sorted_pretty(self),
            self.root(),
            self.encoding(),
            self.install(),
            self.download(),
            self.patch(),
            self.patch_config(),
            self.patch_index(),
            self.build_name(),
            self.build_uid(),
            self.build_product(),
            self.size(),
            self.vfs_root(),
            self.vfs_entries(),
            self.chunk_entries(),
        )
    }
}
impl Project for cascette_formats::config::CdnConfig {
    fn project(&self) -> String {
        format!(
            "{}\n--typed: arch={:?} grp={:?} parch={:?} pgrp={:?} fi={:?} fis={:?} pfi={:?}",
            sorted_pretty(self),
            self.archives(),
            self.archive_group(),
            self.patch_archives(),
            self.patch_archive_group(),
            self.file_index(),
            self.file_indices(),
            self.patch_file_indices(),
        )
    }
}
impl Project for cascette_formats::config::PatchConfig {
    fn project(&self) -> String {
        format!("{}\n--typed: hash={:?} size={:?} entries={:?}", sorted_pretty(self), self.patch_hash(), self.patch_size(), self.entries())
    }
}
impl Project for cascette_formats::config::ProductConfig {
    fn project(&self) -> String {
        // serde_json::Value maps are BTreeMaps: canonical
        serde_json::to_value(self).map(|v| v.to_string()).unwrap_or_else(|e| format!("unserialisable: {e}"))
    }
}
impl Project for cascette_formats::config::KeyringConfig {
    fn project(&self) -> String {
        format!("{:?}", self.entries())
    }
}
impl Project for cascette_formats::bpsv::BpsvDocument {
    fn project(&self) -> String {
        let mut s = format!("seq={:?} fields={:?}", self.sequence_number(), self.schema().fields());
        for r in self.rows() {
            let _ = write!(s, " {:?}", r.raw_values());
        }
        s
    }
}
impl Project for cascette_formats::espec::ESpec {
    fn project(&self) -> String {
        format!("{self:?}")
    }
}

// ---- accessors exercised by C02 on loaded local-storage structures -------

pub fn build_info_touch(b: &cascette_client_storage::BuildInfoFile) -> usize {
    let mut n = 0;
    n += b.active_entry().is_some() as usize;
    n += b.entries().len();
    n
}

pub fn residency_touch(db: &cascette_client_storage::kmt::key_state::ResidencyDb, data: &[u8]) -> usize {
    let n = db.entry_count();
    let mut k = [0u8; 16];
    if data.len() >= 20 {
        k.copy_from_slice(&data[4..20]);
    }
    let _ = db.is_resident(&k);
    let _ = db.is_resident(&[0u8; 16]);
    n
}

pub fn shmem_touch(
    cb: Option<&cascette_client_storage::shmem::control_block::ShmemControlBlock>,
    pt: &cascette_client_storage::shmem::control_block::PidTracking,
    buf: &mut [u8],
) -> usize {
    let mut n = 0;
    if let Some(cb) = cb {
        let _ = cb.validate_for_bind();
        let _ = cb.pid_tracking();
        if buf.len() >= 4096 {
            cb.to_mapped(buf);
        }
        n += 1;
    }
    let mut p = pt.clone();
    p.recount();
    let _ = p.add_process(1234, 1);
    let _ = p.remove_process(1234);
    n
}
