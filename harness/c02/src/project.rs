//! Logical projections: "same entries, keys, sizes, flags, tags" — one per
//! format, deliberately *not* the Debug of raw page/table buffers.

use std::fmt::Write as _;

pub trait Project {
    fn project(&self) -> String;
    /// Names the condition of a *known class* of non-round-tripping values, so that a
    /// failure on such a value gets its own narrow key (and nothing else is masked by it).
    fn diagnose(&self) -> Option<&'static str> {
        None
    }
}

/// order-independent fingerprint of a Debug value that contains HashMaps:
/// the sorted lines of its pretty form.
fn sorted_pretty<T: std::fmt::Debug>(v: &T) -> String {
    let s = format!("{v:#?}");
    let mut lines: Vec<&str> = s.lines().map(str::trim).collect();
    lines.sort_unstable();
    lines.join("\n")
}

impl Project for cascette_formats::blte::BlteFile {
    fn project(&self) -> String {
        let mut s = String::new();
        let _ = write!(s, "hdr={} ", self.header.header_size > 0);
        if let Some(e) = &self.header.extended {
            let _ = write!(s, "flags={:?} count={} infos={:?} ", e.flags, e.chunk_count, e.chunk_infos);
        }
        for c in &self.chunks {
            let _ = write!(s, "[{:?} {}]", c.mode, hex::encode(&c.data));
        }
        s
    }
}

impl Project for cascette_formats::encoding::EncodingFile {
    fn project(&self) -> String {
        let mut s = format!("{:?} espec={:?} trailing={:?}", self.header, self.espec_table.entries, self.trailing_espec);
        for p in &self.ckey_pages {
            let _ = write!(s, " C{:?}", p.entries);
        }
        for p in &self.ekey_pages {
            let _ = write!(s, " E{:?}", p.entries);
        }
        s
    }
    fn diagnose(&self) -> Option<&'static str> {
        let lossy = self.espec_table.entries.iter().any(|e| e.contains('\u{FFFD}')) || self.trailing_espec.as_ref().is_some_and(|t| t.contains('\u{FFFD}'));
        if lossy { Some("non-utf8-espec-string-converted-lossily") } else { None }
    }
}

impl Project for cascette_formats::archive::ArchiveIndex {
    fn project(&self) -> String {
        let f = &self.footer;
        format!(
            "v={} page={} off={} size={} klen={} hb={} n={} entries={:?}",
            f.version, f.page_size_kb, f.offset_bytes, f.size_bytes, f.ekey_length, f.footer_hash_bytes, f.element_count, self.entries
        )
    }
    fn diagnose(&self) -> Option<&'static str> {
        if self.footer.ekey_length != 16 || self.footer.offset_bytes != 4 {
            Some("key-or-offset-width-other-than-16/4-rebuilt-as-16/4")
        } else {
            None
        }
    }
}

impl Project for cascette_formats::root::RootFile {
    fn project(&self) -> String {
        // cheap accessors a caller reaches from any parsed value
        let _ = (self.total_files(), self.named_files());
        // header total_files / named_files are counts derived from the blocks: not projected.
        // Records of a block are a set (looked up by id / name hash): projected in sorted order.
        // Blocks with equal (content, locale) flags are merged and blocks are written in flag
        // order by build(): the projection is the sorted multiset of (flags, record).
        let mut recs: Vec<String> = Vec::new();
        for b in &self.blocks {
            for r in &b.records {
                recs.push(format!("cf={:#x} lf={:?} {r:?}", b.header.content_flags, b.header.locale_flags));
            }
        }
        recs.sort_unstable();
        format!("{:?} n={} {:?}", self.version, recs.len(), recs)
    }
    fn diagnose(&self) -> Option<&'static str> {
        use cascette_formats::root::RootVersion;
        let total: usize = self.blocks.iter().map(|b| b.records.len()).sum();
        let named: usize = self.blocks.iter().flat_map(|b| b.records.iter()).filter(|r| r.name_hash.is_some()).count();
        if self.blocks.is_empty() || total == 0 {
            Some("root-without-records-cannot-be-rebuilt")
        } else if self.version == RootVersion::V2 && (16..100).contains(&total) && named < 10 {
            Some("v2-classic-header-ambiguity-band(total 16..99, named<10)")
        } else {
            None
        }
    }
}

impl Project for cascette_formats::install::InstallManifest {
    fn project(&self) -> String {
        format!("{self:?}")
    }
}
impl Project for cascette_formats::download::DownloadManifest {
    fn project(&self) -> String {
        format!("{self:?}")
    }
}
impl Project for cascette_formats::size::SizeManifest {
    fn project(&self) -> String {
        format!("{self:?}")
    }
}

impl Project for cascette_formats::tvfs::TvfsFile {
    fn project(&self) -> String {
        // table offsets/sizes are layout, derived from the tables: not projected
        let h = &self.header;
        format!(
            "v={} ek={} pk={} flags={:#x} depth={} files={:?} vfs={:?} cont={:?} est={:?}",
            h.format_version,
            h.ekey_size,
            h.pkey_size,
            h.flags,
            h.max_depth,
            self.path_table.files,
            self.vfs_table.entries,
            self.container_table.entries,
            self.est_table.as_ref().map(|e| &e.specs)
        )
    }
    fn diagnose(&self) -> Option<&'static str> {
        // an EST size field that disagrees with the NUL-terminated strings actually parsed
        let est_len: Option<usize> = self.est_table.as_ref().map(|e| e.specs.iter().map(|s| s.len() + 1).sum());
        match (self.header.est_table_size, est_len) {
            (Some(sz), Some(len)) if sz as usize != len => Some("est-table-size-field-inconsistent-with-its-strings"),
            _ => None,
        }
    }
}

impl Project for cascette_formats::patch_archive::PatchArchive {
    fn project(&self) -> String {
        // block_count and the grouping into blocks are layout; entries are content
        let h = &self.header;
        // build() sorts entries by target key: projected as a sorted multiset
        let mut entries: Vec<String> = self.blocks.iter().flat_map(|b| b.file_entries.iter()).map(|e| format!("{e:?}")).collect();
        entries.sort_unstable();
        format!(
            "v={} fk={} ok={} pk={} bits={} flags={:#x} enc={:?} entries={:?}",
            h.version, h.file_key_size, h.old_key_size, h.patch_key_size, h.block_size_bits, h.flags, self.encoding_info, entries
        )
    }
    fn diagnose(&self) -> Option<&'static str> {
        let h = &self.header;
        if h.file_key_size != 16 || h.old_key_size != 16 || h.patch_key_size != 16 {
            // build() always writes 16-byte keys
            Some("key-size-other-than-16-rebuilt-as-16")
        } else if h.flags & !0x02 != 0 {
            // build() recomputes the flags byte from the presence of encoding info (bit 0x02) only
            Some("header-flag-bits-other-than-0x02-dropped-on-rebuild")
        } else {
            None
        }
    }
}
impl Project for cascette_formats::patch_index::PatchIndex {
    fn project(&self) -> String {
        // header_size / data_size / block descriptors are layout
        format!("v={} k={} kd={:?} entries={:?}", self.header.version, self.key_size, self.header.key_data, self.entries)
    }
    fn diagnose(&self) -> Option<&'static str> {
        // build() goes through PatchIndexBuilder, which writes an extra header of one zero byte
        if self.header.key_size != 0 || self.header.key_data != [0u8; 16] || !self.header.extra_data.is_empty() {
            Some("extra-header-key-or-data-dropped-on-rebuild")
        } else {
            None
        }
    }
}
impl Project for cascette_formats::zbsdiff::ZbsDiff {
    fn project(&self) -> String {
        format!(
            "{:?} c={} d={} e={}",
            self.header,
            hex::encode(&self.control_data),
            hex::encode(&self.diff_data),
            hex::encode(&self.extra_data)
        )
    }
}

impl Project for cascette_formats::config::BuildConfig {
    fn project(&self) -> String {
        format!(
            "{}\n--typed: root={:?} enc={:?} inst={:?} dl={:?} patch={:?} pc={:?} pi={:?} name={:?} uid={:?} prod={:?} size={:?} vfs={:?} vfsn={:?} chunks={:?}",
            sorted_pretty(self),
            self.root(),
            self.encoding(),
            self.install(),
            self.download(),
            self.patch(),
            self.patch_config(),
            self.patch_index(),
            self.build_name(),
            self.build_uid(),
            self.build_product(),
            self.size(),
            self.vfs_root(),
            self.vfs_entries(),
            self.chunk_entries(),
        )
    }
}
impl Project for cascette_formats::config::CdnConfig {
    fn project(&self) -> String {
        format!(
            "{}\n--typed: arch={:?} grp={:?} parch={:?} pgrp={:?} fi={:?} fis={:?} pfi={:?}",
            sorted_pretty(self),
            self.archives(),
            self.archive_group(),
            self.patch_archives(),
            self.patch_archive_group(),
            self.file_index(),
            self.file_indices(),
            self.patch_file_indices(),
        )
    }
}
impl Project for cascette_formats::config::PatchConfig {
    fn project(&self) -> String {
        format!("{}\n--typed: hash={:?} size={:?} entries={:?}", sorted_pretty(self), self.patch_hash(), self.patch_size(), self.entries())
    }
}
impl Project for cascette_formats::config::ProductConfig {
    fn project(&self) -> String {
        // serde_json::Value maps are BTreeMaps: canonical
        serde_json::to_value(self).map(|v| v.to_string()).unwrap_or_else(|e| format!("unserialisable: {e}"))
    }
}
impl Project for cascette_formats::config::KeyringConfig {
    fn project(&self) -> String {
        format!("{:?}", self.entries())
    }
}
impl Project for cascette_formats::bpsv::BpsvDocument {
    fn project(&self) -> String {
        let mut s = format!("seq={:?} fields={:?}", self.sequence_number(), self.schema().fields());
        for r in self.rows() {
            let _ = write!(s, " {:?}", r.raw_values());
        }
        s
    }
}
impl Project for cascette_formats::espec::ESpec {
    fn project(&self) -> String {
        format!("{self:?}")
    }
}

// ---- accessors exercised by C02 on loaded local-storage structures -------

pub fn build_info_touch(b: &cascette_client_storage::BuildInfoFile) -> usize {
    let mut n = 0;
    n += b.active_entry().is_some() as usize;
    n += b.entries().len();
    n
}

pub fn residency_touch(db: &cascette_client_storage::kmt::key_state::ResidencyDb, data: &[u8]) -> usize {
    let n = db.entry_count();
    let mut k = [0u8; 16];
    if data.len() >= 20 {
        k.copy_from_slice(&data[4..20]);
    }
    let _ = db.is_resident(&k);
    let _ = db.is_resident(&[0u8; 16]);
    n
}

pub fn shmem_touch(
    cb: Option<&cascette_client_storage::shmem::control_block::ShmemControlBlock>,
    pt: &cascette_client_storage::shmem::control_block::PidTracking,
    buf: &mut [u8],
) -> usize {
    let mut n = 0;
    if let Some(cb) = cb {
        let _ = cb.validate_for_bind();
        let _ = cb.pid_tracking();
        cb.to_mapped(buf);
        n += 1;
    }
    let mut p = pt.clone();
    p.recount();
    let _ = p.add_process(1234, 1);
    let _ = p.remove_process(1234);
    n
}
