//! Input generators for the byte-level targets: mutation of seeds, the
//! deterministic boundary sweep, integrity fix-ups and shape generators.

use vh_engine::refimpl::{lookup3, md5};
use vh_engine::util::Rng;

pub const INTERESTING: [u64; 13] = [
    0,
    1,
    0x7F,
    0x80,
    0xFF,
    0x7FFF,
    0x8000,
    0xFFFF,
    (1 << 24) - 1,
    (1 << 31) - 1,
    1 << 31,
    (1u64 << 32) - 1,
    (1u64 << 40) - 1,
];
pub const WIDTHS: [usize; 6] = [1, 2, 3, 4, 5, 8];

fn put(buf: &mut [u8], off: usize, width: usize, value: u64, big_endian: bool) {
    for i in 0..width {
        if off + i >= buf.len() {
            break;
        }
        let shift = if big_endian { 8 * (width - 1 - i) } else { 8 * i };
        buf[off + i] = if shift >= 64 { 0 } else { (value >> shift) as u8 };
    }
}

/// Deterministic boundary sweep over the first `head` bytes and the last `tail` bytes.
pub fn boundary_sweep(seed: &[u8], head: usize, tail: usize) -> impl Iterator<Item = (String, Vec<u8>)> + '_ {
    let n = seed.len();
    let mut offs: Vec<usize> = (0..head.min(n)).collect();
    for o in n.saturating_sub(tail)..n {
        if o >= head {
            offs.push(o);
        }
    }
    offs.into_iter().flat_map(move |off| {
        WIDTHS.into_iter().flat_map(move |w| {
            [false, true].into_iter().flat_map(move |be| {
                INTERESTING.into_iter().filter(move |v| w >= 8 || *v < (1u64 << (8 * w))).filter_map(move |v| {
                    if w == 1 && be {
                        return None; // same as little endian
                    }
                    let mut b = seed.to_vec();
                    put(&mut b, off, w, v, be);
                    if b == seed {
                        return None;
                    }
                    Some((format!("sweep off={off} w={w} {} v={v:#x}", if be { "be" } else { "le" }), b))
                })
            })
        })
    })
}

/// Two integer fields within the first `head` bytes set to large values at once (each alone is
/// what `boundary_sweep` does): length and count fields that are only validated against each
/// other. Widths 2..=4, both byte orders, values "all ones" and "all ones but the sign bit".
pub fn pair_sweep(seed: &[u8], head: usize) -> Vec<(String, Vec<u8>)> {
    let n = seed.len().min(head);
    let mut fields: Vec<(usize, usize, bool)> = Vec::new();
    for off in 0..n {
        for w in [2usize, 3, 4] {
            if off + w <= seed.len() {
                fields.push((off, w, false));
                fields.push((off, w, true));
            }
        }
    }
    let big = |w: usize, k: usize| -> u64 {
        let all = if w >= 8 { u64::MAX } else { (1u64 << (8 * w)) - 1 };
        if k == 0 { all } else { all >> 1 }
    };
    let mut out = Vec::new();
    for (i, &(o1, w1, be1)) in fields.iter().enumerate() {
        for &(o2, w2, be2) in &fields[i + 1..] {
            if o2 < o1 + w1 {
                continue; // overlapping
            }
            for (k1, k2) in [(0usize, 0usize), (1, 0)] {
                let mut b = seed.to_vec();
                put(&mut b, o1, w1, big(w1, k1), be1);
                put(&mut b, o2, w2, big(w2, k2), be2);
                if b != seed {
                    out.push((format!("pair off={o1} w={w1} {} + off={o2} w={w2} {} ({k1}{k2})", if be1 { "be" } else { "le" }, if be2 { "be" } else { "le" }), b));
                }
            }
        }
    }
    out
}

/// every truncation length ≤ 64, then sampled
/// Decimal numbers in a text input replaced by boundary values: every maximal run of ASCII digits
/// (the first `max_runs` of them) by each value of the list — widths, counts and sizes that a
/// parser multiplies, adds to or allocates by.
pub fn decimal_sweep(seed: &[u8], max_runs: usize) -> Vec<(String, Vec<u8>)> {
    const VALUES: [&str; 17] = [
        "0",
        "1",
        "255",
        "256",
        "65535",
        "65536",
        "2147483647",
        "2147483648",
        "4294967295",
        "4294967296",
        "9223372036854775807",
        "9223372036854775808",
        "12297829382473034411",
        "18446744073709551615",
        "18446744073709551616",
        "340282366920938463463374607431768211456",
        "-1",
    ];
    let mut out = Vec::new();
    let mut runs = 0usize;
    let mut i = 0usize;
    while i < seed.len() && runs < max_runs {
        if seed[i].is_ascii_digit() {
            let start = i;
            while i < seed.len() && seed[i].is_ascii_digit() {
                i += 1;
            }
            // not inside a hex string (a run between hex letters is part of a hash)
            let hexish = |b: u8| b.is_ascii_hexdigit() && !b.is_ascii_digit();
            if (start > 0 && hexish(seed[start - 1])) || (i < seed.len() && hexish(seed[i])) || i - start > 20 {
                continue;
            }
            runs += 1;
            for v in VALUES {
                let mut b = seed[..start].to_vec();
                b.extend_from_slice(v.as_bytes());
                b.extend_from_slice(&seed[i..]);
                out.push((format!("decimal@{start}:={v}"), b));
            }
        } else {
            i += 1;
        }
    }
    out
}

/// DER length bytes at their neighbours: every position that looks like a tag followed by a
/// short-form length L with the value inside the input gets L-2, L-1, L+1, L+2, 0, 0x7f and the
/// long-form introducers 0x80, 0x81, 0x84, 0xff — one field at a time (the enclosing lengths stay,
/// as in a certificate whose inner encoding was written by another tool).
pub fn der_length_sweep(seed: &[u8], max_fields: usize) -> Vec<(String, Vec<u8>)> {
    let mut out = Vec::new();
    let mut fields = 0usize;
    for i in 0..seed.len().saturating_sub(1) {
        let (tag, len) = (seed[i], seed[i + 1]);
        let taggy = matches!(tag, 0x01..=0x06 | 0x0A | 0x0C | 0x13 | 0x14 | 0x16 | 0x17 | 0x18 | 0x30 | 0x31 | 0x80..=0x83 | 0xA0..=0xA3);
        if !taggy || len >= 0x80 || i + 2 + len as usize > seed.len() {
            continue;
        }
        fields += 1;
        if fields > max_fields {
            break;
        }
        for v in [len.wrapping_sub(2), len.wrapping_sub(1), len.wrapping_add(1), len.wrapping_add(2), 0, 0x7f, 0x80, 0x81, 0x84, 0xff] {
            if v == len {
                continue;
            }
            let mut b = seed.to_vec();
            b[i + 1] = v;
            out.push((format!("der-length@{}: {len:#04x} -> {v:#04x} (tag {tag:#04x})", i + 1), b));
        }
    }
    out
}

pub fn truncations(seed: &[u8], r: &mut Rng, sampled: usize) -> Vec<(String, Vec<u8>)> {
    let mut v = Vec::new();
    for l in 0..=64usize.min(seed.len()) {
        v.push((format!("truncate to {l}"), seed[..l].to_vec()));
    }
    for _ in 0..sampled {
        if seed.len() > 65 {
            let l = 65 + r.below((seed.len() - 65) as u64) as usize;
            v.push((format!("truncate to {l}"), seed[..l].to_vec()));
        }
    }
    // drop the last 1..=32 bytes (footer-first formats)
    for d in 1..=32usize.min(seed.len()) {
        v.push((format!("drop last {d}"), seed[..seed.len() - d].to_vec()));
    }
    // what is left when the front is lost: the last 1..=96 bytes, sampled longer tails, and the
    // tail from every line start (text formats: a response reduced to its trailer)
    for k in 1..=96usize.min(seed.len()) {
        v.push((format!("keep last {k}"), seed[seed.len() - k..].to_vec()));
    }
    for _ in 0..sampled / 2 {
        if seed.len() > 97 {
            let k = 97 + r.below((seed.len() - 97) as u64) as usize;
            v.push((format!("keep last {k}"), seed[seed.len() - k..].to_vec()));
        }
    }
    let mut lines = 0;
    for (i, w) in seed.windows(1).enumerate().rev() {
        if w[0] == b'\n' && i + 1 < seed.len() && lines < 48 {
            lines += 1;
            v.push((format!("tail from line start {}", i + 1), seed[i + 1..].to_vec()));
            // ... without its line terminator
            let t = &seed[i + 1..];
            let t2 = t.strip_suffix(b"\r\n").or_else(|| t.strip_suffix(b"\n")).unwrap_or(t);
            if t2.len() != t.len() {
                v.push((format!("tail from line start {}, terminator dropped", i + 1), t2.to_vec()));
            }
        }
    }
    v
}

/// one random mutation (possibly stacked 1–4 times)
pub fn mutate(seed: &[u8], other: &[u8], r: &mut Rng) -> (String, Vec<u8>) {
    let mut b = seed.to_vec();
    let mut desc = String::new();
    let stack = 1 + r.below(4) as usize;
    for _ in 0..stack {
        if b.is_empty() {
            b.push(r.next_u64() as u8);
        }
        // bias positions towards the head and the tail where headers/footers live
        let pos = |r: &mut Rng, len: usize| -> usize {
            match r.below(4) {
                0 => r.below(len.min(64) as u64) as usize,
                1 => len - 1 - r.below(len.min(64) as u64) as usize,
                _ => r.below(len as u64) as usize,
            }
        };
        let len = b.len();
        match r.below(12) {
            0 => {
                let p = pos(r, len);
                b[p] ^= 1 << r.below(8);
                desc.push_str(&format!("flip@{p};"));
            }
            1 => {
                let p = pos(r, len);
                b[p] = [0u8, 1, 0x7f, 0x80, 0xff, b'N', b'Z', b'4', b'E', b'F', b'\n', b'|', b'=', b' '][r.below(14) as usize];
                desc.push_str(&format!("set@{p};"));
            }
            2 => {
                let p = pos(r, len);
                b[p] = r.next_u64() as u8;
                desc.push_str(&format!("rnd@{p};"));
            }
            3 => {
                let p = pos(r, len);
                let w = WIDTHS[r.below(6) as usize];
                let v = INTERESTING[r.below(13) as usize];
                let be = r.below(2) == 0;
                put(&mut b, p, w, v, be);
                desc.push_str(&format!("int@{p}w{w};"));
            }
            4 => {
                let p = pos(r, len);
                let n = 1 + r.below(16) as usize;
                let ins = r.bytes(n);
                b.splice(p..p, ins);
                desc.push_str(&format!("ins@{p}+{n};"));
            }
            5 => {
                let p = pos(r, len);
                let n = (1 + r.below(16) as usize).min(len - p);
                b.drain(p..p + n);
                desc.push_str(&format!("del@{p}-{n};"));
            }
            6 => {
                let l = r.below(len as u64 + 1) as usize;
                b.truncate(l);
                desc.push_str(&format!("trunc{l};"));
            }
            7 => {
                let n = 1 + r.below(64) as usize;
                let fill = [0u8, 0xff, b'A'][r.below(3) as usize];
                b.extend(std::iter::repeat_n(fill, n));
                desc.push_str(&format!("ext+{n};"));
            }
            8 => {
                // splice with the other seed
                if !other.is_empty() {
                    let p = pos(r, len);
                    let q = r.below(other.len() as u64) as usize;
                    b.truncate(p);
                    b.extend_from_slice(&other[q..]);
                    desc.push_str(&format!("splice@{p}/{q};"));
                }
            }
            9 => {
                // duplicate a block
                let p = pos(r, len);
                let n = (1 + r.below(64) as usize).min(len - p);
                let blk = b[p..p + n].to_vec();
                b.splice(p..p, blk);
                desc.push_str(&format!("dup@{p}+{n};"));
            }
            10 => {
                // a valid multi-byte UTF-8 character in place of (or next to) a byte: text parsers
                // that advance byte-wise or slice at fixed offsets meet a non-boundary position
                let p = pos(r, len);
                let ch = ["é", "ß", "界", "\u{FFFD}", "😀", "\u{0301}"][r.below(6) as usize];
                if r.below(2) == 0 {
                    b.splice(p..p + 1, ch.bytes());
                } else {
                    b.splice(p..p, ch.bytes());
                }
                desc.push_str(&format!("utf8@{p};"));
            }
            _ => {
                // arithmetic on a byte
                let p = pos(r, len);
                b[p] = b[p].wrapping_add([1u8, 255, 16, 240][r.below(4) as usize]);
                desc.push_str(&format!("add@{p};"));
            }
        }
    }
    (desc, b)
}

// ---------------------------------------------------------------- fix-ups

fn be16(b: &[u8], o: usize) -> usize {
    ((b[o] as usize) << 8) | b[o + 1] as usize
}
fn be32(b: &[u8], o: usize) -> usize {
    ((b[o] as usize) << 24) | ((b[o + 1] as usize) << 16) | ((b[o + 2] as usize) << 8) | b[o + 3] as usize
}

/// Recompute the integrity data of a mutated input so that it passes the gate
/// and reaches the logic behind it. Best effort; returns true if something was fixed.
pub fn fixup(target: &str, b: &mut Vec<u8>) -> bool {
    match target {
        "encoding" => {
            // header 22 bytes: EN ver ck ek cps(2) eps(2) ccnt(4) ecnt(4) flags espec(4)
            if b.len() < 22 || &b[0..2] != b"EN" {
                return false;
            }
            let cps = be16(b, 5) * 1024;
            let eps = be16(b, 7) * 1024;
            let cc = be32(b, 9);
            let ec = be32(b, 13);
            let espec = be32(b, 18);
            if cc > 64 || ec > 64 || cps == 0 || eps == 0 || cps > (1 << 20) || eps > (1 << 20) {
                return false;
            }
            let mut fixed = false;
            let cidx = 22 + espec;
            let cpages = cidx + cc * 32;
            for i in 0..cc {
                let p = cpages + i * cps;
                if p + cps > b.len() || cidx + i * 32 + 32 > b.len() {
                    return fixed;
                }
                let h = md5::md5(&b[p..p + cps]);
                let fk: Vec<u8> = b[p + 6..p + 22].to_vec();
                b[cidx + i * 32..cidx + i * 32 + 16].copy_from_slice(&fk);
                b[cidx + i * 32 + 16..cidx + i * 32 + 32].copy_from_slice(&h);
                fixed = true;
            }
            let eidx = cpages + cc * cps;
            let epages = eidx + ec * 32;
            for i in 0..ec {
                let p = epages + i * eps;
                if p + eps > b.len() || eidx + i * 32 + 32 > b.len() {
                    return fixed;
                }
                let h = md5::md5(&b[p..p + eps]);
                let fk: Vec<u8> = b[p..p + 16].to_vec();
                b[eidx + i * 32..eidx + i * 32 + 16].copy_from_slice(&fk);
                b[eidx + i * 32 + 16..eidx + i * 32 + 32].copy_from_slice(&h);
                fixed = true;
            }
            fixed
        }
        "archive-index" | "archive-chunked" | "archive-group" => {
            // footer (hash_bytes = 8): toc_hash(8) fields(12) footer_hash(8)
            let n = b.len();
            if n < 28 {
                return false;
            }
            let mut data = b[n - 20..n - 8].to_vec();
            data.resize(20, 0);
            let h = md5::md5(&data);
            b[n - 8..].copy_from_slice(&h[..8]);
            true
        }
        "lru" => {
            if b.len() < 28 {
                return false;
            }
            let mut c = b.clone();
            c[4..20].fill(0);
            let h = md5::md5(&c);
            b[4..20].copy_from_slice(&h);
            true
        }
        "mime" => {
            // recompute the SHA-256 over everything before the last "Checksum:" line
            use sha2::{Digest, Sha256};
            let Some(pos) = find_last(b, b"Checksum:") else { return false };
            let mut h = Sha256::new();
            h.update(&b[..pos]);
            let sum = hex::encode(h.finalize());
            b.truncate(pos);
            b.extend_from_slice(format!("Checksum: {sum}\r\n").as_bytes());
            true
        }
        "update-section" => {
            let mut fixed = false;
            for page in b.chunks_mut(512) {
                for e in page.chunks_mut(24) {
                    if e.len() == 24 && e[0..4] != [0, 0, 0, 0] {
                        let g = lookup3::hashlittle(&e[4..23], 0) | 0x8000_0000;
                        e[0..4].copy_from_slice(&g.to_le_bytes());
                        fixed = true;
                    }
                }
            }
            fixed
        }
        "residency" => {
            let mut fixed = false;
            for page in b.chunks_mut(1024) {
                for e in page.chunks_mut(40) {
                    if e.len() == 40 && e[0..4] != [0, 0, 0, 0] {
                        let g = lookup3::hashlittle(&e[4..37], 0) | 0x8000_0000;
                        e[0..4].copy_from_slice(&g.to_le_bytes());
                        fixed = true;
                    }
                }
            }
            fixed
        }
        _ => false,
    }
}

fn find_last(h: &[u8], n: &[u8]) -> Option<usize> {
    if h.len() < n.len() {
        return None;
    }
    (0..=h.len() - n.len()).rev().find(|&i| &h[i..i + n.len()] == n)
}

pub fn has_fixup(target: &str) -> bool {
    matches!(target, "encoding" | "archive-index" | "archive-chunked" | "archive-group" | "lru" | "mime" | "update-section" | "residency")
}

// ---------------------------------------------------------------- shapes

/// deep-structure generators that mutation will not reach
pub fn shapes(target: &str, thorough: bool) -> Vec<(String, Vec<u8>)> {
    let mut v = Vec::new();
    match target {
        "espec" => {
            for d in [10usize, 100, 1000, 10_000, if thorough { 200_000 } else { 50_000 }] {
                let mut s = String::new();
                for _ in 0..d {
                    s.push_str("b:{1=");
                }
                s.push('n');
                for _ in 0..d {
                    s.push('}');
                }
                v.push((format!("shape: block table nested {d} deep"), s.into_bytes()));
                let mut s = String::new();
                for _ in 0..d {
                    s.push_str("e:{0123456789ABCDEF,01020304,");
                }
                s.push('z');
                for _ in 0..d {
                    s.push('}');
                }
                v.push((format!("shape: encryption nested {d} deep"), s.into_bytes()));
                v.push((format!("shape: {d} open braces"), "b:{".repeat(d).into_bytes()));
            }
            v.push(("shape: huge count".into(), b"b:{4294967295K*4294967295=z}".to_vec()));
            v.push(("shape: huge size".into(), b"b:{18446744073709551615M=z,*=n}".to_vec()));
            v.push(("shape: level overflow".into(), b"z:{999999999999,99999999999}".to_vec()));
        }
        "blte" | "encoding-blte" | "tvfs-blte" => {
            // containers nested inside each other through single-chunk frames of mode F / N / Z
            for d in [2usize, 16, 1000, 5000, if thorough { 200_000 } else { 40_000 }] {
                for mode in [b'F', b'N', b'E'] {
                    let mut b = Vec::with_capacity(d * 9 + 16);
                    for _ in 0..d {
                        b.extend_from_slice(b"BLTE\0\0\0\0");
                        b.push(mode);
                    }
                    b.extend_from_slice(b"BLTE\0\0\0\0Npayload");
                    v.push((format!("shape: {d} single-chunk containers nested through mode {}", mode as char), b));
                }
            }
            // a two-chunk container whose header_size field disagrees with where the chunks are:
            // one to three bytes more or less, with and without padding bytes behind the chunk table
            {
                let chunks: [&[u8]; 2] = [b"Nfirst chunk of the container", b"Nsecond"];
                let table = |hs: u32| {
                    let mut b = b"BLTE".to_vec();
                    b.extend_from_slice(&hs.to_be_bytes());
                    b.push(0x0f);
                    b.extend_from_slice(&[0, 0, 2]);
                    for c in chunks {
                        b.extend_from_slice(&(c.len() as u32).to_be_bytes());
                        b.extend_from_slice(&((c.len() - 1) as u32).to_be_bytes());
                        b.extend_from_slice(&md5::md5(c));
                    }
                    b
                };
                let real = 12 + 24 * 2u32;
                for delta in [-3i32, -1, 1, 2, 3, 16] {
                    for pad in [None, Some(0u8), Some(b'N'), Some(b' ')] {
                        let mut b = table(real.wrapping_add_signed(delta));
                        if let (Some(p), true) = (pad, delta > 0) {
                            b.extend(std::iter::repeat_n(p, delta as usize));
                        } else if pad.is_some() {
                            continue;
                        }
                        for c in chunks {
                            b.extend_from_slice(c);
                        }
                        // room behind the last chunk for a reader that starts late
                        b.extend_from_slice(b"NNNNNNNNNNNNNNNNNNNN");
                        v.push((format!("shape: header_size {delta:+} against the chunk table, padding {pad:?}"), b));
                    }
                }
            }
            // every short body of an encrypted chunk: key name size, key name, IV size {4, 8, other},
            // cut at each length 0..=32 — as a single-chunk file and as the one chunk of a chunk
            // table (sizes and checksum right), so that the key lookup succeeds with the target's store
            for iv in [4u8, 8, 0, 16, 255] {
                let mut full = vec![8u8];
                full.extend_from_slice(&0x1122_3344_5566_7788u64.to_le_bytes());
                full.push(iv);
                full.extend((0..24u8).map(|i| 0xA0 + i));
                for cut in 0..=full.len().min(32) {
                    for ty in [b'S', b'A', 0u8] {
                        let mut body = full[..cut].to_vec();
                        // the byte behind the IV is the cipher type when it is there
                        let tpos = 10 + iv as usize;
                        if tpos < body.len() && ty != 0 {
                            body[tpos] = ty;
                        } else if ty != b'S' {
                            continue;
                        }
                        let mut chunk = vec![b'E'];
                        chunk.extend_from_slice(&body);
                        let mut single = b"BLTE\0\0\0\0".to_vec();
                        single.extend_from_slice(&chunk);
                        v.push((format!("shape: encrypted chunk, IV size {iv}, body cut to {cut} bytes, type {ty:#x}, single chunk"), single));
                        // header: magic, header size (8 + 4 + 24), flags 0x0f, one chunk, sizes, MD5
                        let mut multi = b"BLTE".to_vec();
                        multi.extend_from_slice(&36u32.to_be_bytes());
                        multi.push(0x0f);
                        multi.extend_from_slice(&[0, 0, 1]);
                        multi.extend_from_slice(&(chunk.len() as u32).to_be_bytes());
                        multi.extend_from_slice(&(cut.saturating_sub(tpos + 1) as u32).to_be_bytes());
                        multi.extend_from_slice(&md5::md5(&chunk));
                        multi.extend_from_slice(&chunk);
                        v.push((format!("shape: encrypted chunk, IV size {iv}, body cut to {cut} bytes, type {ty:#x}, chunk table"), multi));
                    }
                }
            }
        }
        "mime" | "mime-v1-module" => {
            // the epilogue alone (the message in front of it lost or empty)
            let empty_sha = "e3b0c44298fc1c149afbf4c8996fb92427ae41e4649b934ca495991b7852b855";
            let empty_md5 = "d41d8cd98f00b204e9800998ecf8427e";
            for digest in [empty_sha, empty_md5, &"0".repeat(64), &"f".repeat(32)] {
                for end in ["", "\n", "\r\n"] {
                    v.push((format!("shape: epilogue alone ({} digits, end {end:?})", digest.len()), format!("Checksum: {digest}{end}").into_bytes()));
                    v.push((format!("shape: newline + epilogue ({} digits, end {end:?})", digest.len()), format!("\nChecksum: {digest}{end}").into_bytes()));
                }
            }
            // a multi-byte character straddling byte 512 of the lossy string
            for pad in 505..=515usize {
                let mut s = "Content-Type: multipart/alternative; boundary=x\r\n".to_string();
                while s.len() < pad {
                    s.push('a');
                }
                s.push_str("ééééé");
                s.push_str("\r\n\r\n--x\r\n\r\nbody\r\n--x--\r\n");
                v.push((format!("shape: 2-byte char near 512 (pad {pad})"), s.into_bytes()));
                // invalid UTF-8 that the lossy conversion expands to 3-byte U+FFFD
                let mut b = vec![b'a'; pad];
                b.extend_from_slice(&[0xff, 0xfe, 0xfd, 0xfc]);
                b.extend_from_slice(b"Content-Type: multipart/mixed");
                v.push((format!("shape: invalid utf-8 near 512 (pad {pad})"), b));
            }
        }
        "lru" => {
            // tables with out-of-range / cyclic prev/next under a valid MD5
            for (name, cap, links) in [
                ("next out of range", 1usize, vec![(0xFFFF_FFFFu32, 99u32)]),
                ("prev out of range", 1, vec![(99, 0xFFFF_FFFF)]),
                ("self cycle", 1, vec![(0, 0)]),
                ("2-cycle", 2, vec![(1, 1), (0, 0)]),
                ("head out of range", 2, vec![(0xFFFF_FFFF, 1), (0, 0xFFFF_FFFF)]),
            ] {
                let mut b = vec![0u8; 28 + cap * 20];
                b[0..2].copy_from_slice(&1u16.to_le_bytes()); // version guess; fixed below by trying layouts
                // entries: prev(4) next(4) ekey(9) flags(3)
                for (i, (p, n)) in links.iter().enumerate() {
                    let o = 28 + i * 20;
                    b[o..o + 4].copy_from_slice(&p.to_le_bytes());
                    b[o + 4..o + 8].copy_from_slice(&n.to_le_bytes());
                    b[o + 8..o + 17].copy_from_slice(&[i as u8 + 1; 9]);
                    b[o + 17] = 1;
                }
                v.push((format!("shape: lru {name}"), b));
            }
        }
        _ => {}
    }
    v
}

/// TVFS path table nested `depth` deep, spliced into a valid TVFS seed.
/// Returns None when the seed layout is not understood.
pub fn tvfs_deep(seed: &[u8], depth: usize) -> Option<Vec<u8>> {
    // header: "TVFS" ver hdr_size ekey_size pkey_size flags(4) path_off(4) path_size(4) vfs_off(4) vfs_size(4) cft_off(4) cft_size(4) max_depth(2) ...
    if seed.len() < 38 || &seed[0..4] != b"TVFS" {
        return None;
    }
    let hdr = seed[5] as usize;
    let path_off = be32(seed, 12);
    let path_size = be32(seed, 16);
    if path_off != hdr || path_off + path_size > seed.len() {
        return None;
    }
    // nested folders with empty names: each level is "FF <be32 0x80000000 | (4 + inner_len)>"
    // (the folder length includes the 4-byte node value itself); leaf = "01 'f' FF 00000000".
    let leaf_len = 7usize;
    let mut table = Vec::with_capacity(depth * 5 + leaf_len);
    for i in 0..depth {
        let inner = (depth - i - 1) * 5 + leaf_len;
        table.push(0xFF);
        table.extend_from_slice(&(((inner + 4) as u32) | 0x8000_0000).to_be_bytes());
    }
    table.push(1);
    table.push(b'f');
    table.push(0xFF);
    table.extend_from_slice(&0u32.to_be_bytes());
    let mut out = seed[..path_off].to_vec();
    out.extend_from_slice(&table);
    out.extend_from_slice(&seed[path_off + path_size..]);
    let delta = table.len() as i64 - path_size as i64;
    // patch path_size and the following table offsets
    let wr = |o: &mut [u8], at: usize, v: usize| o[at..at + 4].copy_from_slice(&(v as u32).to_be_bytes());
    wr(&mut out, 16, table.len());
    for at in [20usize, 28] {
        let old = be32(seed, at);
        if old >= path_off + path_size {
            wr(&mut out, at, (old as i64 + delta) as usize);
        }
    }
    if hdr >= 46 {
        let old = be32(seed, 38);
        if old >= path_off + path_size {
            wr(&mut out, 38, (old as i64 + delta) as usize);
        }
    }
    Some(out)
}
