//! C02/C08 shared machinery: targets, projections, seeds, mutators, master driver.
pub mod driver;
pub mod mutate;
pub mod project;
pub mod seeds;
pub mod targets;
