//! Seed inputs per target: every repo fixture ≤ 200 KiB plus builder outputs
//! for every format and version. Built in-process (deterministic) so nothing
//! has to be kept on disk.

use cascette_crypto::{ContentKey, EncodingKey};
use cascette_formats::CascFormat;
use std::io::Cursor;
use std::path::Path;

pub type Seed = (String, Vec<u8>);

const FIX: &str = "/repo/crates/cascette-formats/test_fixtures";

fn fixtures(dir: &str, pred: impl Fn(&str) -> bool) -> Vec<Seed> {
    let mut v = Vec::new();
    let p = Path::new(FIX).join(dir);
    let Ok(rd) = std::fs::read_dir(&p) else { return v };
    let mut names: Vec<_> = rd.filter_map(|e| e.ok()).map(|e| e.path()).collect();
    names.sort();
    for f in names {
        let n = f.file_name().unwrap().to_string_lossy().to_string();
        if n == "manifest.json" || n.starts_with('.') || !pred(&n) {
            continue;
        }
        if let Ok(b) = std::fs::read(&f) {
            if !b.is_empty() && b.len() <= 200 * 1024 {
                v.push((format!("fixture:{dir}/{n}"), b));
            }
        }
    }
    v
}

fn k16(i: u32) -> [u8; 16] {
    vh_engine::refimpl::md5::md5(&i.to_le_bytes())
}

pub fn blte_seeds() -> Vec<Seed> {
    use cascette_formats::blte::{BlteBuilder, BlteFile, CompressionMode, EncryptionSpec};
    let mut v = Vec::new();
    let data: Vec<u8> = (0..3000u32).map(|i| (i % 251) as u8).collect();
    for (n, m) in [("N", CompressionMode::None), ("Z", CompressionMode::ZLib), ("4", CompressionMode::LZ4)] {
        if let Ok(f) = BlteFile::single_chunk(data[..200].to_vec(), m) {
            if let Ok(b) = f.build() {
                v.push((format!("builder:blte-single-{n}"), b));
            }
        }
        if let Ok(f) = BlteFile::compress(&data, 1024, m) {
            if let Ok(b) = f.build() {
                v.push((format!("builder:blte-multi-{n}"), b));
            }
        }
    }
    // encrypted, both ciphers
    for (n, spec) in [
        ("salsa", EncryptionSpec::salsa20(0x1122_3344_5566_7788, [1, 2, 3, 4])),
        ("arc4", EncryptionSpec::arc4(0x0102_0304_0506_0708, [9, 9, 9, 9])),
    ] {
        if let Ok(bld) = BlteBuilder::new().with_encryption(spec, [7u8; 16]).add_data(&data[..500]) {
            if let Ok(f) = bld.build() {
                if let Ok(b) = f.build() {
                    v.push((format!("builder:blte-enc-{n}"), b));
                }
            }
        }
    }
    v
}

pub fn encoding_small() -> Option<Vec<u8>> {
    use cascette_formats::encoding::{CKeyEntryData, EKeyEntryData, EncodingBuilder};
    let mut b = EncodingBuilder::new().with_page_sizes(1, 1);
    for i in 0..60u32 {
        let ek = EncodingKey::from_bytes(k16(1000 + i));
        b.add_ckey_entry(CKeyEntryData {
            content_key: ContentKey::from_bytes(k16(i)),
            file_size: 100 + u64::from(i),
            encoding_keys: vec![ek],
        });
        b.add_ekey_entry(EKeyEntryData { encoding_key: ek, espec: if i % 2 == 0 { "n".into() } else { "z".into() }, file_size: 50 + u64::from(i) });
    }
    b.build().ok()?.build().ok()
}

pub fn archive_index_small(key: u8, off: u8, n: u32) -> Option<Vec<u8>> {
    use cascette_formats::archive::ArchiveIndexBuilder;
    let mut b = ArchiveIndexBuilder::with_config(key, off, 4);
    for i in 0..n {
        b.add_entry(k16(i)[..key as usize].to_vec(), 10 + i, u64::from(i) * 100);
    }
    let mut out = Cursor::new(Vec::new());
    b.build(&mut out).ok()?;
    Some(out.into_inner())
}

pub fn archive_group_small(n: u32) -> Option<Vec<u8>> {
    use cascette_formats::archive::{ArchiveGroupBuilder, ArchiveGroupEntry};
    let mut b = ArchiveGroupBuilder::new();
    for i in 0..n {
        b.add_entry(ArchiveGroupEntry::new(k16(i).to_vec(), (i % 5) as u16, i * 64, 10 + i));
    }
    let mut out = Cursor::new(Vec::new());
    b.build(&mut out).ok()?;
    Some(out.into_inner())
}

pub fn root_small(version: cascette_formats::root::RootVersion, n: u32, named: bool) -> Option<Vec<u8>> {
    use cascette_crypto::FileDataId;
    use cascette_formats::root::{ContentFlags, LocaleFlags, RootBuilder};
    let mut b = RootBuilder::new(version);
    for i in 0..n {
        let (loc, cf) = if i % 3 == 0 {
            (LocaleFlags::new(LocaleFlags::ENUS), ContentFlags::new(if named { 0 } else { ContentFlags::NO_NAME_HASH }))
        } else {
            (LocaleFlags::new(LocaleFlags::DEDE), ContentFlags::new(if named { 0 } else { ContentFlags::NO_NAME_HASH }))
        };
        b.add_file_with_hash(FileDataId::new(100 + i * 3), ContentKey::from_bytes(k16(i)), if named { Some(0x1234_5678_0000 + u64::from(i)) } else { None }, loc, cf);
    }
    b.build().ok()
}

pub fn install_small() -> Option<Vec<u8>> {
    use cascette_formats::install::{InstallManifestBuilder, TagType};
    let mut b = InstallManifestBuilder::new().add_tag("Windows".into(), TagType::Platform).add_tag("enUS".into(), TagType::Locale);
    for i in 0..11u32 {
        b = b.add_file(format!("dir/file{i}.bin"), ContentKey::from_bytes(k16(i)), 10 + i);
        b = b.associate_file_with_tag(i as usize, if i % 2 == 0 { "Windows" } else { "enUS" }).ok()?;
    }
    b.build().ok()?.build().ok()
}

pub fn download_small(version: u8) -> Option<Vec<u8>> {
    use cascette_formats::download::DownloadManifestBuilder;
    use cascette_formats::install::TagType;
    let mut b = DownloadManifestBuilder::new(version).ok()?.with_checksums(version % 2 == 1);
    if version >= 2 {
        b = b.with_flags(1).ok()?;
    }
    if version >= 3 {
        b = b.with_base_priority(-1).ok()?;
    }
    b = b.add_tag("Windows".into(), TagType::Platform).add_tag("enUS".into(), TagType::Locale);
    for i in 0..13u32 {
        b = b.add_file(EncodingKey::from_bytes(k16(i)), 1000 + u64::from(i), (i as i8) - 3).ok()?;
        b = b.associate_file_with_tag(i as usize, if i % 3 == 0 { "Windows" } else { "enUS" }).ok()?;
    }
    b.build().ok()?.build().ok()
}

pub fn size_small(version: u8) -> Option<Vec<u8>> {
    use cascette_formats::install::TagType;
    use cascette_formats::size::SizeManifestBuilder;
    let mut b = SizeManifestBuilder::new().version(version).add_tag("Windows".into(), TagType::Platform);
    for i in 0..9u32 {
        b = b.add_entry(k16(i)[..9].to_vec(), 100 + u64::from(i));
        if i % 2 == 0 {
            b = b.tag_file(0, i as usize);
        }
    }
    b.build().ok()?.build().ok()
}

pub fn tvfs_small(est: bool) -> Option<Vec<u8>> {
    use cascette_formats::tvfs::TvfsBuilder;
    let mut b = TvfsBuilder::new();
    if est {
        b.add_est_spec("z".into());
        b.add_est_spec("n".into());
    }
    let paths = ["a/b/c.txt", "a/b/d.txt", "a/e.bin", "f.dat", "g/h/i/j/k.x", "g/h/l.y"];
    for (i, p) in paths.iter().enumerate() {
        let mut ek = [0u8; 9];
        ek.copy_from_slice(&k16(i as u32)[..9]);
        if est {
            b.add_file_with_est((*p).to_string(), ek, 100 + i as u32, 200 + i as u32, Some(k16(50 + i as u32)), (i % 2) as u32);
        } else {
            b.add_file((*p).to_string(), ek, 100 + i as u32, 200 + i as u32, None);
        }
    }
    b.build().ok()
}

pub fn patch_archive_small() -> Option<Vec<u8>> {
    use cascette_formats::patch_archive::PatchArchiveBuilder;
    let mut b = PatchArchiveBuilder::new();
    for i in 0..7u32 {
        b.add_file_entry(k16(i), 1000 + u64::from(i), vec![(k16(100 + i), 900, k16(200 + i), 50 + i, 1)]);
    }
    b.build().ok()
}

pub fn patch_index_small() -> Option<Vec<u8>> {
    use cascette_formats::patch_index::{PatchIndexBuilder, PatchIndexEntry};
    let mut b = PatchIndexBuilder::new();
    for i in 0..9u32 {
        b.add_entry(PatchIndexEntry {
            source_ekey: k16(i),
            source_size: 100 + i,
            target_ekey: k16(100 + i),
            target_size: 200 + i,
            encoded_size: 50 + i,
            suffix_offset: 1,
            patch_ekey: k16(200 + i),
        });
    }
    b.build().ok()
}

pub fn zbsdiff_generated(old: &[u8]) -> Vec<Seed> {
    use cascette_formats::zbsdiff::ZbsdiffBuilder;
    let mut v = Vec::new();
    let mut new = old.to_vec();
    for i in (0..new.len()).step_by(97) {
        new[i] = new[i].wrapping_add(1);
    }
    new.splice(300..300, [1u8, 2, 3, 4, 5, 6, 7, 8, 9]);
    new.truncate(3900);
    if let Ok(p) = ZbsdiffBuilder::new(old.to_vec(), new.clone()).build() {
        v.push(("builder:zbsdiff-suffix".into(), p));
    }
    if let Ok(p) = ZbsdiffBuilder::new(old.to_vec(), new.clone()).build_simple_patch() {
        v.push(("builder:zbsdiff-simple".into(), p));
    }
    v
}

const BUILD_CONFIG: &str = "# Build Configuration\n\nroot = 5d7e7b1d3cbf8ad9d2f3b5c4e6a7f809\ninstall = 0123456789abcdef0123456789abcdef fedcba9876543210fedcba9876543210\ninstall-size = 100 90\ndownload = 11111111111111111111111111111111 22222222222222222222222222222222\ndownload-size = 200 180\nencoding = 33333333333333333333333333333333 44444444444444444444444444444444\nencoding-size = 1000 900\nbuild-name = WOW-12345patch1.2.3\nbuild-uid = wow\nvfs-root = 55555555555555555555555555555555 66666666666666666666666666666666\nvfs-1 = 77777777777777777777777777777777 88888888888888888888888888888888\n";
const CDN_CONFIG: &str = "# CDN Configuration\n\narchives = 00112233445566778899aabbccddeeff ffeeddccbbaa99887766554433221100\narchives-index-size = 1000 2000\narchive-group = 0123456789abcdef0123456789abcdef\npatch-archives = aabbccddeeff00112233445566778899\npatch-archives-index-size = 500\npatch-archive-group = 99887766554433221100ffeeddccbbaa\nfile-index = 0f0e0d0c0b0a09080706050403020100\nfile-index-size = 4242\n";
const PATCH_CONFIG: &str = "# Patch Configuration\n\npatch = 658506593cf1f98a1d9300c418ee5355\npatch-size = 22837\npatch-entry = encoding b07b881f4527bda7cf8a1a2f99e8622e 14004322 0b2f5b7f4b2d6c0b7dd0a1a8d9c7f5e3 6119632 n 0123456789abcdef0123456789abcdef 41219 deadbeefdeadbeefdeadbeefdeadbeef 3325\npatch-entry = install 11111111111111111111111111111111 100 22222222222222222222222222222222 90 z\n";
const PRODUCT_CONFIG: &str = r#"{"all":{"config":{"data_dir":"Data/","product":"WoW","supported_locales":["enUS","deDE"],"shared_container_default_subfolder":"_retail_","display_locales":["enUS"],"enable_block_copy_patch":true,"form":{"game_dir":{"dirname":"World of Warcraft"}}}},"platform":{"win":{"config":{"binaries":{"game":{"relative_path":"Wow.exe"}}}}},"enus":{"config":{"install":[{"start_menu_shortcut":{"link":"x"}}]}}}"#;
const KEYRING: &str = "key-0123456789abcdef = 00112233445566778899aabbccddeeff\nkey-fedcba9876543210 = ffeeddccbbaa99887766554433221100\n";
const BPSV: &str = "Region!STRING:0|BuildConfig!HEX:16|BuildId!DEC:4|VersionsName!String:0\n## seqn = 12345\nus|0123456789abcdef0123456789abcdef|61491|1.15.7.61491\neu|fedcba9876543210fedcba9876543210|61492|1.15.7.61492\n";
const BUILD_INFO: &str = "Branch!STRING:0|Active!DEC:1|Build Key!HEX:16|CDN Key!HEX:16|Install Key!HEX:16|IM Size!DEC:4|CDN Path!STRING:0|CDN Hosts!STRING:0|CDN Servers!STRING:0|Tags!STRING:0|Armadillo!STRING:0|Last Activated!STRING:0|Version!STRING:0|KeyRing!HEX:16|Product!STRING:0\nus|1|0123456789abcdef0123456789abcdef|fedcba9876543210fedcba9876543210|00112233445566778899aabbccddeeff|1234|tpr/wow|level3.blizzard.com us.cdn.blizzard.com|http://level3.blizzard.com/?maxhosts=4|Windows x86_64 US? enUS speech?:Windows x86_64 US? enUS text?||2024-01-01T00:00:00Z|1.15.7.61491||wow_classic_era\n";

pub fn mime_seed(body: &str) -> Vec<u8> {
    use sha2::{Digest, Sha256};
    let boundary = "a1b2c3";
    let head = format!(
        "MIME-Version: 1.0\r\nContent-Type: multipart/alternative; boundary=\"{boundary}\"\r\nFrom: Test/1.0\r\n\r\n--{boundary}\r\nContent-Type: text/plain\r\nContent-Disposition: version\r\n\r\n{body}\r\n--{boundary}--\r\n"
    );
    let mut h = Sha256::new();
    h.update(head.as_bytes());
    let sum = hex::encode(h.finalize());
    format!("{head}Checksum: {sum}\r\n").into_bytes()
}

fn rt() -> tokio::runtime::Runtime {
    tokio::runtime::Builder::new_current_thread().enable_all().build().expect("rt")
}

pub fn idx_seed(n: u32) -> Option<Vec<u8>> {
    use cascette_client_storage::index::IndexManager;
    let dir = tempfile::tempdir().ok()?;
    let mut m = IndexManager::new(dir.path());
    // keys constructed into bucket of the first key
    let mut made = 0;
    let mut i = 0u32;
    let first = IndexManager::bucket_for_key(&EncodingKey::from_bytes(k16(0)));
    while made < n && i < 100_000 {
        let k = EncodingKey::from_bytes(k16(i));
        i += 1;
        if IndexManager::bucket_for_key(&k) != first {
            continue;
        }
        m.add_entry(&k, (made % 7) as u16, made * 1000, 100 + made).ok()?;
        made += 1;
    }
    m.flush_all_updates().ok()?;
    // leave a few entries in the update section
    for j in 0..3u32 {
        let mut kb = k16(500_000 + j);
        // force same bucket by brute force
        let mut t = 0u32;
        while IndexManager::bucket_for_key(&EncodingKey::from_bytes(kb)) != first && t < 10_000 {
            kb[8] = kb[8].wrapping_add(1);
            t += 1;
        }
        m.add_entry(&EncodingKey::from_bytes(kb), 1, j * 10, 5).ok()?;
    }
    m.save_all().ok()?;
    let rd = std::fs::read_dir(dir.path()).ok()?;
    for e in rd.flatten() {
        let p = e.path();
        if p.extension().and_then(|x| x.to_str()) == Some("idx") {
            return std::fs::read(p).ok();
        }
    }
    None
}

pub fn update_section_seed(n: u32) -> Vec<u8> {
    use cascette_client_storage::index::ArchiveLocation;
    use cascette_client_storage::index::update::{UpdateEntry, UpdateSection, UpdateStatus};
    let mut s = UpdateSection::new();
    for i in 0..n {
        let mut k = [0u8; 9];
        k.copy_from_slice(&k16(i)[..9]);
        let st = if i % 5 == 4 { UpdateStatus::Delete } else { UpdateStatus::Normal };
        s.append(UpdateEntry::new(k, ArchiveLocation { archive_id: (i % 1024) as u16, archive_offset: i * 64 }, 10 + i, st));
    }
    s.to_bytes()
}

pub fn residency_seed(n: u32) -> Option<Vec<u8>> {
    use cascette_client_storage::kmt::key_state::ResidencyDb;
    let dir = tempfile::tempdir().ok()?;
    let p = dir.path().join("r.db");
    let mut db = ResidencyDb::new(p.clone());
    for i in 0..n {
        let k = k16(i);
        if i % 4 == 3 {
            db.mark_non_resident(&k);
        } else if i % 4 == 2 {
            db.mark_resident(&k);
            db.mark_span_non_resident(&k, 10, 20);
        } else {
            db.mark_resident(&k);
        }
    }
    db.save().ok()?;
    std::fs::read(p).ok()
}

pub fn lru_seed(cap: u32, n: u32) -> Option<Vec<u8>> {
    use cascette_client_storage::lru::{LruManager, lru_file};
    let dir = tempfile::tempdir().ok()?;
    let mut m = LruManager::new(cap, dir.path().to_path_buf());
    for i in 0..n {
        let mut k = [0u8; 9];
        k.copy_from_slice(&k16(i)[..9]);
        m.touch(&k);
    }
    m.bump_generation();
    rt().block_on(m.checkpoint_to_disk()).ok()?;
    let (_g, p) = LruManager::find_latest_lru_file(dir.path())?;
    let _ = lru_file::LRU_HEADER_SIZE;
    std::fs::read(p).ok()
}

pub fn shmem_seeds() -> Vec<Seed> {
    use cascette_client_storage::shmem::control_block::{ShmemControlBlock, v4_file_size, v5_file_size};
    let mut v = Vec::new();
    if let Some(mut cb) = ShmemControlBlock::new(4) {
        cb.initialize(1000);
        let mut buf = vec![0u8; v4_file_size().min(64 * 1024)];
        if buf.len() >= 0x150 {
            cb.to_mapped(&mut buf);
            v.push(("builder:shmem-v4".into(), buf));
        }
    }
    let mut cb = ShmemControlBlock::new_v5_with_pid_tracking(4);
    cb.initialize(2000);
    let mut buf = vec![0u8; v5_file_size(true).min(64 * 1024)];
    cb.to_mapped(&mut buf);
    v.push(("builder:shmem-v5".into(), buf));
    v
}

/// All seeds of a target.
pub fn seeds_for(target: &str) -> Vec<Seed> {
    let mut v: Vec<Seed> = Vec::new();
    let mut add = |name: &str, b: Option<Vec<u8>>| {
        if let Some(b) = b {
            v.push((format!("builder:{name}"), b));
        }
    };
    match target {
        "blte" => return blte_seeds().into_iter().chain(fixtures("tvfs", |n| n.ends_with(".blte"))).collect(),
        "encoding" => {
            add("encoding-1k-pages", encoding_small());
            v.extend(fixtures("encoding", |n| n.ends_with(".bin")));
        }
        "encoding-blte" => {
            if let Some(e) = encoding_small() {
                use cascette_formats::blte::{BlteFile, CompressionMode};
                for m in [CompressionMode::None, CompressionMode::ZLib] {
                    add("encoding-in-blte", BlteFile::compress(&e, 2048, m).ok().and_then(|f| f.build().ok()));
                }
            }
        }
        "archive-index" | "archive-chunked" => {
            add("index-16-4", archive_index_small(16, 4, 40));
            add("index-16-4-2chunks", archive_index_small(16, 4, 200));
            add("index-9-5", archive_index_small(9, 5, 30));
            add("index-8-4", archive_index_small(8, 4, 30));
            add("index-4-4", archive_index_small(4, 4, 20));
            add("index-1-4", archive_index_small(1, 4, 5));
            add("index-16-6", archive_index_small(16, 6, 30));
            v.extend(fixtures("archive", |n| n.ends_with(".index")));
        }
        "archive-group" => {
            add("group-20", archive_group_small(20));
            add("group-200", archive_group_small(200));
        }
        "root" => {
            use cascette_formats::root::RootVersion;
            for (n, ver) in [("v1", RootVersion::V1), ("v2", RootVersion::V2), ("v3", RootVersion::V3), ("v4", RootVersion::V4)] {
                add(&format!("root-{n}-named"), root_small(ver, 120, true));
                add(&format!("root-{n}-unnamed"), root_small(ver, 120, false));
            }
            v.extend(fixtures("root", |n| n.ends_with(".root")));
        }
        "install" => {
            add("install", install_small());
            v.extend(fixtures("install", |n| n.ends_with(".install")));
        }
        "download" => {
            for ver in 1..=3u8 {
                add(&format!("download-v{ver}"), download_small(ver));
            }
            v.extend(fixtures("download", |n| n.ends_with(".download")));
        }
        "size" => {
            add("size-v1", size_small(1));
            add("size-v2", size_small(2));
        }
        "tvfs" => {
            add("tvfs", tvfs_small(false));
            add("tvfs-est", tvfs_small(true));
            v.extend(fixtures("tvfs", |n| n.ends_with(".bin")));
        }
        "tvfs-blte" => v.extend(fixtures("tvfs", |n| n.ends_with(".blte"))),
        "patch-archive" => {
            add("patch-archive", patch_archive_small());
            v.extend(fixtures("patch_archive", |n| n.ends_with(".bin")));
        }
        "patch-index" => {
            add("patch-index", patch_index_small());
            v.extend(fixtures("patch_index", |n| n.ends_with(".bin")));
        }
        "zbsdiff" => {
            let old: Vec<u8> = (0..4096u32).map(|i| (i.wrapping_mul(31) >> 3) as u8).collect();
            v.extend(zbsdiff_generated(&old));
            v.extend(fixtures("zbsdiff", |n| n.ends_with(".zbsdiff")));
        }
        "build-config" => {
            add("build-config", Some(BUILD_CONFIG.as_bytes().to_vec()));
            v.extend(fixtures("config", |n| n.contains("build_config")));
        }
        "cdn-config" => add("cdn-config", Some(CDN_CONFIG.as_bytes().to_vec())),
        "patch-config" => add("patch-config", Some(PATCH_CONFIG.as_bytes().to_vec())),
        "product-config" => add("product-config", Some(PRODUCT_CONFIG.as_bytes().to_vec())),
        "keyring-config" => {
            add("keyring", Some(KEYRING.as_bytes().to_vec()));
            v.extend(fixtures("config", |n| n.contains("keyring")));
        }
        "bpsv" => {
            add("bpsv", Some(BPSV.as_bytes().to_vec()));
            add("build-info-as-bpsv", Some(BUILD_INFO.as_bytes().to_vec()));
        }
        "espec" => {
            for (i, s) in [
                "n", "z", "z:9", "z:{9,15}", "z:{6,mpq}", "e:{0123456789ABCDEF,01020304,z}", "b:{164=z,16K*565=z,1656=z,140164=z}",
                "b:{256K*=z}", "b:{16K*=e:{0123456789ABCDEF,06FC152E,z},*=n}", "c:{4}", "g:{3}", "b:{1M=z:{6,15},*=n}",
            ]
            .iter()
            .enumerate()
            {
                add(&format!("espec-{i}"), Some(s.as_bytes().to_vec()));
            }
            // strings from the CDN fixture lists
            for (n, b) in fixtures("espec", |n| n.ends_with(".json")) {
                if let Ok(j) = serde_json::from_slice::<serde_json::Value>(&b) {
                    let mut found = Vec::new();
                    collect_strings(&j, &mut found);
                    for (i, s) in found.into_iter().filter(|s| s.len() < 300 && (s.contains('=') || s.len() <= 12)).take(40).enumerate() {
                        v.push((format!("{n}#{i}"), s.into_bytes()));
                    }
                }
            }
        }
        "patch-data" => {
            let z = {
                use std::io::Write;
                let mut e = flate2::write::ZlibEncoder::new(Vec::new(), flate2::Compression::default());
                let _ = e.write_all(&vec![7u8; 300]);
                e.finish().unwrap_or_default()
            };
            let mk = |spec: &str, payload: &[u8]| {
                let mut v = spec.as_bytes().to_vec();
                v.push(0);
                v.extend_from_slice(payload);
                v
            };
            add("patch-data-n", Some(mk("n", b"plain payload")));
            add("patch-data-z", Some(mk("z", &z)));
            add("patch-data-blocks", Some(mk("b:{16=n,4*2=n,*=z}", &[&[1u8; 24][..], &z[..]].concat())));
            add("patch-data-huge-size", Some(mk("b:{18446744073709551615*4294967295=n,*=n}", b"0123456789")));
            add("patch-data-huge-k", Some(mk("b:{16777216K*65535=n,1K*2=n,*=z}", b"0123456789")));
        }
        "mime" | "mime-v1-module" => {
            add("mime-versions", Some(mime_seed(BPSV)));
            add("mime-short", Some(mime_seed("Region!STRING:0|BuildId!DEC:4\n## seqn = 1\nus|1")));
        }
        "pkcs7-signature" => {
            add("pkcs7-certificate-only", Some(pkcs7_seed(false)));
            add("pkcs7-with-signer", Some(pkcs7_seed(true)));
        }
        "build-info" => add("build-info", Some(BUILD_INFO.as_bytes().to_vec())),
        "idx" => {
            add("idx-30", idx_seed(30));
            add("idx-300", idx_seed(300));
        }
        "idx-names" => {
            for (i, s) in ["0000000001.idx", "0a00000003.idx", "xx00000001.idx", "00000000000000000001.lru", "data.000", "é000000001.idx", "00000000é0.idx", "000000000000000000é.lru"].iter().enumerate() {
                add(&format!("name-{i}"), Some(s.as_bytes().to_vec()));
            }
        }
        "update-section" => {
            add("update-5", Some(update_section_seed(5)));
            add("update-60", Some(update_section_seed(60)));
        }
        "residency" => {
            add("residency-10", residency_seed(10));
            add("residency-200", residency_seed(200));
        }
        "lru" => {
            add("lru-4-3", lru_seed(4, 3));
            add("lru-16-16", lru_seed(16, 16));
            add("lru-1-1", lru_seed(1, 1));
        }
        "shmem" => v.extend(shmem_seeds()),
        "local-header" => {
            use cascette_client_storage::storage::local_header::LocalHeader;
            add("local-header", Some(LocalHeader::new(k16(1), 1000, 0).to_bytes().to_vec()));
        }
        _ => {}
    }
    v
}

fn collect_strings(j: &serde_json::Value, out: &mut Vec<String>) {
    match j {
        serde_json::Value::String(s) => out.push(s.clone()),
        serde_json::Value::Array(a) => a.iter().for_each(|x| collect_strings(x, out)),
        serde_json::Value::Object(o) => o.values().for_each(|x| collect_strings(x, out)),
        _ => {}
    }
}


// ---- DER: a PKCS#7 SignedData with an embedded v3 certificate (extensions: SKI, AKI, key usage) ----

fn der(tag: u8, parts: &[&[u8]]) -> Vec<u8> {
    let content: Vec<u8> = parts.concat();
    let mut out = vec![tag];
    match content.len() {
        n if n < 0x80 => out.push(n as u8),
        n if n <= 0xFF => out.extend_from_slice(&[0x81, n as u8]),
        n => out.extend_from_slice(&[0x82, (n >> 8) as u8, n as u8]),
    }
    out.extend_from_slice(&content);
    out
}

/// a small, structurally complete SignedData: one certificate (version 3, RSA key, three
/// extensions), optionally one SignerInfo with signed attributes
pub fn pkcs7_seed(with_signer: bool) -> Vec<u8> {
    const SHA256_RSA: &[u8] = &[0x06, 0x09, 0x2A, 0x86, 0x48, 0x86, 0xF7, 0x0D, 0x01, 0x01, 0x0B];
    const RSA: &[u8] = &[0x06, 0x09, 0x2A, 0x86, 0x48, 0x86, 0xF7, 0x0D, 0x01, 0x01, 0x01];
    const SHA256: &[u8] = &[0x06, 0x09, 0x60, 0x86, 0x48, 0x01, 0x65, 0x03, 0x04, 0x02, 0x01];
    const SIGNED_DATA: &[u8] = &[0x06, 0x09, 0x2A, 0x86, 0x48, 0x86, 0xF7, 0x0D, 0x01, 0x07, 0x02];
    const DATA: &[u8] = &[0x06, 0x09, 0x2A, 0x86, 0x48, 0x86, 0xF7, 0x0D, 0x01, 0x07, 0x01];
    const CN: &[u8] = &[0x06, 0x03, 0x55, 0x04, 0x03];
    const SKI: &[u8] = &[0x06, 0x03, 0x55, 0x1D, 0x0E];
    const AKI: &[u8] = &[0x06, 0x03, 0x55, 0x1D, 0x23];
    const KEY_USAGE: &[u8] = &[0x06, 0x03, 0x55, 0x1D, 0x0F];
    const NULL: &[u8] = &[0x05, 0x00];
    let seq = |parts: &[&[u8]]| der(0x30, parts);
    let name = |cn: &str| {
        let atv = seq(&[CN, &der(0x0C, &[cn.as_bytes()])]);
        seq(&[&der(0x31, &[&atv])])
    };
    let sig_alg = seq(&[SHA256_RSA, NULL]);
    let validity = seq(&[&der(0x17, &[b"250101000000Z"]), &der(0x17, &[b"350101000000Z"])]);
    let rsa_key = seq(&[&[0x02, 0x09, 0x00, 0xB5, 0x11, 0x22, 0x33, 0x44, 0x55, 0x66, 0x77], &[0x02, 0x03, 0x01, 0x00, 0x01]]);
    let spki = seq(&[&seq(&[RSA, NULL]), &der(0x03, &[&[0x00], &rsa_key])]);
    let id = [0xAAu8, 0xBB, 0xCC, 0xDD, 0xEE, 0x01, 0x02, 0x03];
    let ext_ski = seq(&[SKI, &der(0x04, &[&der(0x04, &[&id])])]);
    let ext_aki = seq(&[AKI, &der(0x04, &[&seq(&[&der(0x80, &[&id])])])]);
    let ext_ku = seq(&[KEY_USAGE, &[0x01, 0x01, 0xFF], &der(0x04, &[&[0x03, 0x02, 0x05, 0xA0]])]);
    let extensions = der(0xA3, &[&seq(&[&ext_ski, &ext_aki, &ext_ku])]);
    let serial = [0x02u8, 0x04, 0x01, 0x02, 0x03, 0x04];
    let tbs = seq(&[&der(0xA0, &[&[0x02, 0x01, 0x02]]), &serial, &sig_alg, &name("Test Issuer CA"), &validity, &name("test.signer"), &spki, &extensions]);
    let cert = seq(&[&tbs, &sig_alg, &der(0x03, &[&[0x00, 0xDE, 0xAD, 0xBE, 0xEF, 0x01, 0x02, 0x03, 0x04]])]);
    let signer_infos = if with_signer {
        let issuer_and_serial = seq(&[&name("Test Issuer CA"), &serial]);
        let attrs = der(0xA0, &[&seq(&[&[0x06, 0x09, 0x2A, 0x86, 0x48, 0x86, 0xF7, 0x0D, 0x01, 0x09, 0x04], &der(0x31, &[&der(0x04, &[&[0x11u8; 32]])])])]);
        let si = seq(&[&[0x02, 0x01, 0x01], &issuer_and_serial, &seq(&[SHA256, NULL]), &attrs, &seq(&[RSA, NULL]), &der(0x04, &[&[0x5Au8; 16]])]);
        der(0x31, &[&si])
    } else {
        der(0x31, &[])
    };
    let signed_data = seq(&[&[0x02, 0x01, 0x01], &der(0x31, &[&seq(&[SHA256, NULL])]), &seq(&[DATA]), &der(0xA0, &[&cert]), &signer_infos]);
    seq(&[SIGNED_DATA, &der(0xA0, &[&signed_data])])
}
