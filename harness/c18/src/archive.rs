//! C18 / archive-compact: `ArchiveManager::compact` (anchor `archive_file.rs`: "truncation to write
//! position"). A manager's write position covers only what it wrote or found when it opened the
//! archive; other components own managers over the same data files (Installation and
//! DynamicContainer each build one). Compaction by one manager must not cut away what another
//! handle has appended since: every object any manager wrote successfully stays readable, byte
//! for byte, through its writer and through a manager opened afterwards.

use cascette_client_storage::storage::archive_file::ArchiveManager;
use proptest::prelude::*;
use serde::{Deserialize, Serialize};
use vh_engine::Verdict;
use vh_engine::util::Rng;

#[derive(Debug, Clone, Serialize, Deserialize)]
pub enum AOp {
    /// manager `m` (0 = opened first, 1 = opened after manager 0's first writes) stores `len` bytes
    Write { m: u8, len: u32 },
    Compact { m: u8 },
    /// manager `m` opens the archives of the directory again (`open_all`), taking over what the
    /// files hold by now
    Reopen { m: u8 },
    /// `len` bytes of slack appended to the newest data file through a plain file handle
    /// (preallocation / a foreign writer's garbage): what compaction is there to reclaim
    Slack { len: u32 },
    /// a `data.tmp` left behind by a compaction that was interrupted between its copy and its
    /// rename: a copy of the newest data file as it is now
    StaleTmp,
    /// manager `m` reads the newest object the OTHER manager wrote (a range behind what `m`
    /// mapped when it opened the archive): the read may fail, it changes nothing on disk
    ReadOthers { m: u8 },
}

#[derive(Debug, Clone, Serialize, Deserialize)]
pub struct ACase {
    /// objects manager 0 stores before manager 1 is opened
    pub first: Vec<u32>,
    pub ops: Vec<AOp>,
    pub seed: u64,
}

pub fn strategy() -> BoxedStrategy<ACase> {
    let len = prop_oneof![4 => 0u32..2000, 3 => 2000u32..200_000, 2 => 400_000u32..1_600_000];
    // manager 0 only compacts (a manager that appends after another handle did would overwrite the
    // other's bytes: two writers on one archive are outside what the code supports)
    let op = prop_oneof![6 => len.clone().prop_map(|len| AOp::Write { m: 1, len }), 3 => (0u8..2).prop_map(|m| AOp::Compact { m }), 2 => (0u8..2).prop_map(|m| AOp::Reopen { m }), 2 => prop_oneof![Just(1_200_000u32), 100u32..4_000_000].prop_map(|len| AOp::Slack { len }), 1 => Just(AOp::StaleTmp), 3 => (0u8..2).prop_map(|m| AOp::ReadOthers { m })];
    (proptest::collection::vec(len, 0..4), proptest::collection::vec(op, 1..8), any::<u64>()).prop_map(|(first, ops, seed)| ACase { first, ops, seed }).boxed()
}

fn data_files(dir: &std::path::Path) -> Vec<std::path::PathBuf> {
    let mut v: Vec<_> = std::fs::read_dir(dir)
        .map(|rd| rd.flatten().map(|e| e.path()).filter(|p| p.file_name().and_then(|n| n.to_str()).is_some_and(|n| n.starts_with("data.") && n.len() == 8 && n[5..].bytes().all(|b| b.is_ascii_digit()))).collect())
        .unwrap_or_default();
    v.sort();
    v
}

fn newest_data_file(dir: &std::path::Path) -> Option<std::path::PathBuf> {
    data_files(dir).pop()
}

fn data_bytes(dir: &std::path::Path) -> u64 {
    data_files(dir).iter().filter_map(|p| std::fs::metadata(p).ok()).map(|m| m.len()).sum()
}

struct Obj {
    by: u8,
    id: u16,
    off: u32,
    size: u32,
    data: Vec<u8>,
}

pub fn check(c: &ACase) -> Verdict {
    let Ok(dir) = tempfile::Builder::new().prefix("vh-c18a-").tempdir_in(if std::path::Path::new("/dev/shm").is_dir() { "/dev/shm" } else { "/tmp" }) else {
        return Verdict::pass().class("VACUOUS:no-tempdir");
    };
    let rt = tokio::runtime::Builder::new_current_thread().enable_all().build().expect("runtime");
    let open = |rt: &tokio::runtime::Runtime| -> Result<ArchiveManager, String> {
        let mut a = ArchiveManager::new(dir.path());
        rt.block_on(a.open_all()).map_err(|e| e.to_string())?;
        Ok(a)
    };
    let mut r = Rng::new(c.seed);
    let mut objs: Vec<Obj> = Vec::new();
    let mut m0 = match open(&rt) {
        Ok(a) => a,
        Err(e) => return Verdict::fail("C18:archive-compact:open-of-empty-directory-fails", e),
    };
    let store = |a: &mut ArchiveManager, by: u8, len: u32, objs: &mut Vec<Obj>, r: &mut Rng| {
        let data = r.bytes(len as usize);
        if let Ok((id, off, size, _ekey)) = a.write_content(&data, false) {
            objs.push(Obj { by, id, off, size, data });
        }
    };
    for len in &c.first {
        store(&mut m0, 0, *len, &mut objs, &mut r);
    }
    let mut m1 = match open(&rt) {
        Ok(a) => a,
        Err(e) => return Verdict::fail("C18:archive-compact:second-manager-cannot-open", e),
    };
    let (mut compacted_behind, mut appended) = (false, 0u64);
    let (mut reopened_behind, mut compacted_after_reopen) = (false, false);
    let (mut slack, mut stale_tmp, mut compacted) = (0u64, false, false);
    let mut read_others = false;
    // the data files grew through another handle since manager m last looked at them (its own
    // write or open_all): its idea of their size is out of date, and so is what it can report
    let mut stale_view = [false, false];
    for (n, op) in c.ops.iter().enumerate() {
        match op {
            AOp::Write { len, .. } => {
                store(&mut m1, 1, *len, &mut objs, &mut r);
                appended += u64::from(*len);
                stale_view = [true, false];
            }
            AOp::Reopen { m } => {
                let res = if *m == 0 { rt.block_on(m0.open_all()) } else { rt.block_on(m1.open_all()) };
                if let Err(e) = res {
                    return Verdict::fail("C18:archive-compact:open_all-again-fails", format!("op #{n}: {e}"));
                }
                if *m == 0 && appended > 0 {
                    reopened_behind = true;
                }
                stale_view[usize::from(*m).min(1)] = false;
            }
            AOp::Slack { len } => {
                if let Some(p) = newest_data_file(dir.path()) {
                    use std::io::Write;
                    if let Ok(mut f) = std::fs::OpenOptions::new().append(true).open(&p) {
                        let _ = f.write_all(&vec![0x5Au8; *len as usize]);
                        slack += u64::from(*len);
                        stale_view = [true, true];
                    }
                }
            }
            AOp::ReadOthers { m } => {
                let other = 1 - (*m).min(1);
                if let Some(o) = objs.iter().rev().find(|o| o.by == other) {
                    let got = if *m == 0 { m0.read_content(o.id, o.off, o.size) } else { m1.read_content(o.id, o.off, o.size) };
                    read_others = true;
                    // (the result is not judged: a manager whose view of the archive is out of date,
                    // e.g. after the other one compacted it, may see anything there)
                    let _ = got;
                }
            }
            AOp::StaleTmp => {
                if let Some(p) = newest_data_file(dir.path()) {
                    let _ = std::fs::copy(&p, p.with_extension("tmp"));
                    stale_tmp = true;
                }
            }
            AOp::Compact { m } => {
                let before_len = data_bytes(dir.path());
                let res = if *m == 0 { m0.compact() } else { m1.compact() };
                if let Ok(st) = &res {
                    // "reports the bytes saved truthfully"
                    let after_len = data_bytes(dir.path());
                    if st.archives_compacted > 0 {
                        compacted = true;
                    }
                    if !stale_view[usize::from(*m).min(1)] && st.bytes_reclaimed != before_len.saturating_sub(after_len) {
                        return Verdict::fail(
                            "C18:archive-compact:bytes-reclaimed-untruthful",
                            format!("op #{n} {op:?}: compact() reports {} bytes reclaimed in {} archive(s); the data files shrank from {before_len} to {after_len} bytes", st.bytes_reclaimed, st.archives_compacted),
                        );
                    }
                }
                if *m == 0 && reopened_behind {
                    compacted_after_reopen = true;
                }
                if *m == 0 && appended > 0 {
                    compacted_behind = true;
                }
                if let Err(e) = res {
                    return Verdict::fail("C18:archive-compact:compact-fails", format!("op #{n}: {e}"));
                }
            }
        }
        // every object through the manager that wrote it
        for (k, o) in objs.iter().enumerate() {
            let got = if o.by == 0 { m0.read_content(o.id, o.off, o.size) } else { m1.read_content(o.id, o.off, o.size) };
            match got {
                Ok(b) if b == o.data => {}
                Ok(b) => {
                    return Verdict::fail("C18:archive-compact:object-reads-back-differently-after-compact", format!("after op #{n} {op:?}: object #{k} ({} bytes, written by manager {}): read {} bytes that differ", o.data.len(), o.by, b.len()));
                }
                Err(e) => {
                    return Verdict::fail(
                        "C18:archive-compact:object-lost-after-compact",
                        format!("after op #{n} {op:?}: object #{k} ({} bytes at archive {} offset {}, written by manager {}): {e}", o.data.len(), o.id, o.off, o.by),
                    );
                }
            }
        }
    }
    // ... and through a manager opened afterwards
    match open(&rt) {
        Err(e) => return Verdict::fail("C18:archive-compact:reopen-fails", e),
        Ok(m2) => {
            for (k, o) in objs.iter().enumerate() {
                match m2.read_content(o.id, o.off, o.size) {
                    Ok(b) if b == o.data => {}
                    other => {
                        return Verdict::fail(
                            "C18:archive-compact:object-lost-for-a-later-manager",
                            format!("object #{k} ({} bytes at archive {} offset {}, written by manager {}): {}", o.data.len(), o.id, o.off, o.by, match other {
                                Ok(b) => format!("{} other bytes", b.len()),
                                Err(e) => e.to_string(),
                            }),
                        );
                    }
                }
            }
        }
    }
    Verdict::pass()
        .nontrivial(compacted_behind && !objs.is_empty())
        .class_if(compacted_behind, "compact-by-a-manager-that-did-not-see-the-appends")
        .class_if(read_others, "read-of-an-object-the-other-manager-wrote")
        .class_if(slack > 0, "slack-appended-to-an-archive")
        .class_if(stale_tmp, "data.tmp-left-by-an-interrupted-compaction")
        .class_if(compacted, "an-archive-was-compacted")
        .class_if(compacted && stale_tmp, "compacted-with-a-stale-data.tmp-present")
        .class_if(reopened_behind, "first-manager-opens-the-grown-archives-again")
        .class_if(compacted_after_reopen, "compact-after-opening-the-grown-archives-again")
        .class_if(appended > 1_048_576, "appended>1MiB-behind-the-first-manager")
}
