//! C18 / mover: `CompactionFileMover::move_data` (between two files — how the moves of a merge
//! plan are carried out) and `compact_in_place` (within one file, data moving towards the start)
//! against a byte-array reference, with lengths aimed at the chunking: 0, 1, and k·buffer − 1 / +0 /
//! + 1 for the per-buffer size the budget yields, besides random lengths.
//!
//! Oracle. move_data(src, so, dst, do, len) on files S and D: afterwards D[do..do+len] == S[so..so+len],
//! every other byte of D is what it was (a destination shorter than do is extended with zeros, as
//! any positioned write does), S is unchanged, `bytes_moved()` grew by exactly `len`.
//! compact_in_place(f, so, do, len) with do <= so: afterwards F[do..do+len] == old F[so..so+len],
//! bytes below do and from max(do+len, so+len)... are unchanged, the length of the file is unchanged.

use cascette_client_storage::storage::compaction::CompactionFileMover;
use proptest::prelude::*;
use serde::{Deserialize, Serialize};
use std::io::Write;
use vh_engine::util::Rng;
use vh_engine::{Verdict, pick_idx};

const BUDGETS: [usize; 7] = [0, 128 << 10, 1 << 20, 4 << 20, 1, (128 << 10) + 1, 300_001];

#[derive(Debug, Clone, Serialize, Deserialize)]
pub struct MoveCase {
    pub budget: usize,
    /// false: move_data between two files; true: compact_in_place within one
    pub in_place: bool,
    pub src_offset: u64,
    pub dest_offset: u64,
    pub length: u64,
    /// bytes behind the source range in the source file
    pub src_tail: u64,
    /// length of the destination file before the call (move_data only)
    pub dest_len: u64,
    pub seed: u64,
    /// calls made with the same mover before this one (bytes_moved must keep adding up)
    pub warmup: u8,
}

/// per-buffer size as documented on `CompactionFileMover::new`
fn per_buf(budget: usize) -> u64 {
    let total = budget.max(128 << 10);
    let count = (total >> 17).clamp(1, 16);
    (total / count) as u64
}

pub fn strategy() -> BoxedStrategy<MoveCase> {
    (
        (any::<u16>(), any::<bool>(), 0u8..12, 0u8..4, any::<u32>()),
        (any::<u16>(), any::<u16>(), any::<u16>(), any::<u16>()),
        (any::<u64>(), 0u8..3),
    )
        .prop_map(|((b, in_place, shape, k, free), (so, d_o, tail, dl), (seed, warmup))| {
            let budget = BUDGETS[pick_idx(b, BUDGETS.len())];
            let buf = per_buf(budget);
            let k = u64::from(k);
            let length = match shape {
                0 => 0,
                1 => 1,
                2 => (k * buf).saturating_sub(1),
                3 | 4 | 5 => (k.max(1)) * buf,
                6 => k * buf + 1,
                7 => u64::from(free) % (buf + 2),
                _ => u64::from(free) % (3 * buf + 5),
            };
            let src_offset = [0, 1, 30, buf - 1, buf, u64::from(so)][pick_idx(so, 6)];
            let dest_offset = if in_place {
                // towards the start: 0 ..= src_offset
                [0, src_offset / 2, src_offset.saturating_sub(1), src_offset][pick_idx(d_o, 4)]
            } else {
                [0, 1, 30, buf, u64::from(d_o), u64::from(d_o) * 7][pick_idx(d_o, 6)]
            };
            let src_tail = [0, 1, u64::from(tail)][pick_idx(tail, 3)];
            let dest_len = [0, dest_offset, dest_offset + length / 2, dest_offset + length, dest_offset + length + u64::from(dl)][pick_idx(dl, 5)];
            MoveCase { budget, in_place, src_offset, dest_offset, length, src_tail, dest_len, seed, warmup }
        })
        .boxed()
}

pub static INFRA: std::sync::Mutex<Vec<String>> = std::sync::Mutex::new(Vec::new());

fn infra(msg: String) -> Verdict {
    let mut g = INFRA.lock().unwrap();
    if g.len() < 5 {
        g.push(msg);
    }
    Verdict::pass().class("infra-error")
}

fn first_diff(a: &[u8], b: &[u8]) -> String {
    if a.len() != b.len() {
        return format!("length {} instead of {}", a.len(), b.len());
    }
    let at = a.iter().zip(b).position(|(x, y)| x != y).unwrap_or(0);
    let n = a.iter().zip(b).filter(|(x, y)| x != y).count();
    format!("{n} bytes differ, the first at offset {at}")
}

pub fn check(c: &MoveCase) -> Verdict {
    if c.length > 64 << 20 || c.src_offset > 16 << 20 || c.dest_offset > 16 << 20 || c.src_tail > 1 << 20 || c.dest_len > 128 << 20 || c.budget > 64 << 20 || (c.in_place && c.dest_offset > c.src_offset) {
        return Verdict::pass().class("excluded_by_domain");
    }
    let root = if std::path::Path::new("/dev/shm").is_dir() { "/dev/shm" } else { "/tmp" };
    let Ok(dir) = tempfile::Builder::new().prefix("vh-c18m-").tempdir_in(root) else {
        return infra("cannot create a temporary directory".into());
    };
    let mut rng = Rng::new(c.seed);
    let src_bytes = rng.bytes((c.src_offset + c.length + c.src_tail) as usize);
    let src_path = dir.path().join("src");
    if let Err(e) = std::fs::write(&src_path, &src_bytes) {
        return infra(format!("cannot write the source file: {e}"));
    }
    let open_rw = |p: &std::path::Path| std::fs::OpenOptions::new().read(true).write(true).create(true).truncate(false).open(p);
    let mut mover = CompactionFileMover::new(c.budget);
    let buf = per_buf(c.budget);
    if mover.buffer_size() as u64 != buf {
        return Verdict::fail("C18:mover:buffer-size-differs-from-documented", format!("budget {} gives buffer_size {} (documented: {buf})", c.budget, mover.buffer_size()));
    }
    // earlier calls with the same mover, into a scratch file
    let mut expected_moved = 0u64;
    for w in 0..c.warmup {
        let scratch = dir.path().join(format!("warm{w}"));
        let (Ok(mut s), Ok(mut d)) = (open_rw(&src_path), open_rw(&scratch)) else { return infra("cannot open files".into()) };
        let n = (src_bytes.len() as u64).min(buf + u64::from(w));
        if let Err(e) = mover.move_data(&mut s, 0, &mut d, 0, n) {
            return Verdict::fail("C18:mover:move_data-fails", format!("warm-up move of {n} bytes: {e}"));
        }
        expected_moved += n;
    }

    let describe = format!(
        "{}(src_offset {}, dest_offset {}, length {} = {}·buffer{:+}) budget {} (buffer {buf})",
        if c.in_place { "compact_in_place" } else { "move_data" },
        c.src_offset,
        c.dest_offset,
        c.length,
        (c.length + buf / 2) / buf,
        c.length as i64 - (((c.length + buf / 2) / buf) * buf) as i64,
        c.budget
    );
    let (so, d_o, len) = (c.src_offset as usize, c.dest_offset as usize, c.length as usize);
    let verdict_tail = |v: Verdict| {
        v.nontrivial(c.length > 0)
            .class_if(c.length > 0 && c.length % buf == 0, "length-multiple-of-buffer")
            .class_if(c.length > buf, "more-than-one-chunk")
            .class_if(c.in_place, "in-place")
            .class_if(!c.in_place, "between-files")
            .class_if(c.in_place && c.dest_offset + c.length > c.src_offset && c.dest_offset < c.src_offset && c.length > 0, "in-place-ranges-overlap")
            .class_if(c.warmup > 0, "mover-reused")
    };

    if c.in_place {
        let Ok(mut f) = open_rw(&src_path) else { return infra("cannot open files".into()) };
        let r = mover.compact_in_place(&mut f, c.src_offset, c.dest_offset, c.length);
        drop(f);
        if let Err(e) = r {
            return verdict_tail(Verdict::fail("C18:mover:compact_in_place-fails", format!("{describe}: {e}")));
        }
        let mut want = src_bytes.clone();
        want.copy_within(so..so + len, d_o);
        let got = std::fs::read(&src_path).unwrap_or_default();
        if got != want {
            return verdict_tail(Verdict::fail("C18:mover:compact_in_place-result-differs-from-memmove", format!("{describe}: {}", first_diff(&got, &want))));
        }
        if c.src_offset != c.dest_offset {
            expected_moved += c.length;
        }
        // bytes_moved of an in-place call: the documented counter is "bytes moved so far"
        if mover.bytes_moved() != expected_moved {
            return verdict_tail(Verdict::fail("C18:mover:bytes_moved-untruthful", format!("{describe}: bytes_moved() = {}, moved {expected_moved}", mover.bytes_moved())));
        }
        return verdict_tail(Verdict::pass());
    }

    let dest_path = dir.path().join("dest");
    let dest_before = Rng::new(c.seed ^ 0xD5).bytes(c.dest_len as usize);
    {
        let Ok(mut d) = std::fs::File::create(&dest_path) else { return infra("cannot create the destination".into()) };
        if d.write_all(&dest_before).is_err() {
            return infra("cannot write the destination".into());
        }
    }
    let (Ok(mut s), Ok(mut d)) = (open_rw(&src_path), open_rw(&dest_path)) else { return infra("cannot open files".into()) };
    let r = mover.move_data(&mut s, c.src_offset, &mut d, c.dest_offset, c.length);
    drop((s, d));
    if let Err(e) = r {
        return verdict_tail(Verdict::fail("C18:mover:move_data-fails", format!("{describe}: {e}")));
    }
    let mut want = dest_before.clone();
    if len > 0 {
        if want.len() < d_o + len {
            want.resize(d_o + len, 0);
        }
        want[d_o..d_o + len].copy_from_slice(&src_bytes[so..so + len]);
    }
    let got = std::fs::read(&dest_path).unwrap_or_default();
    if got != want {
        return verdict_tail(Verdict::fail("C18:mover:move_data-destination-differs-from-source-range", format!("{describe}: {}", first_diff(&got, &want))));
    }
    if std::fs::read(&src_path).unwrap_or_default() != src_bytes {
        return verdict_tail(Verdict::fail("C18:mover:move_data-changes-the-source", describe));
    }
    expected_moved += c.length;
    if mover.bytes_moved() != expected_moved {
        return verdict_tail(Verdict::fail("C18:mover:bytes_moved-untruthful", format!("{describe}: bytes_moved() = {}, moved {expected_moved}", mover.bytes_moved())));
    }
    verdict_tail(Verdict::pass())
}
