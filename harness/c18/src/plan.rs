//! Section "merge-plan": `plan_archive_merge` judged by simulation on an interval model.
//!
//! What the library documents (compaction.rs / segment.rs), quoted:
//!   * `plan_archive_merge(segments, utilization_threshold, segment_size)` —
//!     "Build a compaction plan for fragmented segments. Identifies segments
//!     with low utilization and plans moves to consolidate data into fewer
//!     segments."
//!   * `SegmentInfo.write_position` — "Current write position within the
//!     segment."  `SegmentInfo::has_space_for(size)` is `state == Thawed &&
//!     write_position + size <= SEGMENT_SIZE`, `SegmentAllocator::allocate`
//!     hands out `[write_position, write_position + size)` and advances the
//!     position; `load_existing` sets `write_position = file length`.  A
//!     segment's used bytes are therefore exactly `[0, write_position)`
//!     (header block + entries), and the planner itself reads
//!     `let used = seg.write_position`.
//!   * `SegmentState::Frozen` — "read-only. No new data can be written";
//!     `Thawed` — "writable. New data can be appended."
//!   * `MoveItem`: `source_segment` "Source segment index", `source_offset`
//!     "Offset within the source segment", `dest_segment` "Destination
//!     segment index", `dest_offset` "Offset within the destination segment",
//!     `length` "Number of bytes to move".  `CompactionPlan.moves` — "Ordered
//!     list of move operations".
//!
//! Interval model.  Segment `i` of the population (slice position == segment
//! index, as `SegmentAllocator` keeps it: `segments[i].index == i`) starts
//! with one live piece `[0, write_position_i)` whatever its state.  A move
//! `(s, so, d, do, len)` relocates the bytes `[so, so+len)` of segment `s` to
//! `[do, do+len)` of segment `d`: afterwards they are live in `d` and no
//! longer live in `s` (the index entries follow the data; that is what
//! "move" and `segments_to_delete: fully emptied by merge` mean).  Moves are
//! executed in list order ("Ordered list").  Every piece carries its origin
//! (segment, offset) so that the end state can be audited byte for byte.
//!
//! Judged clauses (second sentence of C18), in this order per move:
//!   1. the source range is live in the source segment        (source-range-not-live)
//!   2. the destination range holds no live byte at that moment
//!        - bytes that are the destination's own initial data   (move-overwrites-destination-own-data:<first|later>-destination)
//!        - bytes put there by an earlier move                  (reported by clause 4)
//!   3. `do + len <= segment_size`                              (segment-filled-beyond-size)
//!   4. no two destination ranges of the plan intersect        (two-moves-overlap-in-destination)
//!   5. at the end every initially live byte exists exactly once
//!      (follows from 1-4 in the model; kept as an audit, and used to
//!      report how many bytes a violating plan destroys).
//! After a violation the simulation goes on with the physical outcome
//! (overwritten bytes are destroyed) so that the search continues behind a
//! listed known finding: keys that are open known findings are recorded as
//! `known_hits`, the first other key fails the case.
//!
//! Domain: `write_position <= segment_size` (a position "within the segment"),
//! `segment_size >= 1`, finite threshold >= 0, at most 12 segments.  The
//! threshold is stored in permille so the JSON replay is exact.

use cascette_client_storage::storage::compaction::plan_archive_merge;
use cascette_client_storage::storage::{SEGMENT_SIZE, SegmentHeader, SegmentInfo, SegmentState};
use proptest::prelude::*;
use serde::{Deserialize, Serialize};
use vh_engine::{Known, Verdict};

#[derive(Debug, Clone, Serialize, Deserialize)]
pub struct SegSpec {
    pub frozen: bool,
    pub write_position: u64,
}

#[derive(Debug, Clone, Serialize, Deserialize)]
pub struct PlanCase {
    pub segment_size: u64,
    /// utilization_threshold = threshold_permille / 1000
    pub threshold_permille: u32,
    pub segs: Vec<SegSpec>,
}

pub const K_OWN_FIRST: &str = "C18:merge-plan:move-overwrites-destination-own-data:first-destination";
pub const K_OWN_LATER: &str = "C18:merge-plan:move-overwrites-destination-own-data:later-destination";
pub const K_USED_AT_PLANNING: &str = "C18:merge-plan:move-lands-on-bytes-the-destination-used-at-planning-time";
pub const K_OTHER_LIVE: &str = "C18:merge-plan:move-overwrites-live-bytes:other";
pub const K_TWO_MOVES: &str = "C18:merge-plan:two-moves-overlap-in-destination";
pub const K_OVERFILL: &str = "C18:merge-plan:segment-filled-beyond-size";
pub const K_SRC_DEAD: &str = "C18:merge-plan:source-range-not-live";
pub const K_UNKNOWN_SEG: &str = "C18:merge-plan:move-references-unknown-segment";
pub const K_AUDIT: &str = "C18:merge-plan:live-byte-not-exactly-once";

fn wp_of(kind: u8, frac: u32, size: u64) -> u64 {
    let f = |range: u64| -> u64 { ((frac as u128 * (range as u128 + 1)) >> 32) as u64 }; // 0..=range, monotone
    let wp = match kind {
        0 => 0,
        1..=5 => 1 + f(size / 4),            // small: these merge
        6 | 7 => f(size),                    // anywhere
        8 => size,                           // full
        9 => size / 2 + f(size / 8),         // around half
        10 => size - f(size / 8),            // nearly full
        11 => 480.min(size),                 // a bare header block
        _ => 1 + f(size / 3),
    };
    wp.min(size)
}

pub fn strategy() -> BoxedStrategy<PlanCase> {
    let size = prop_oneof![
        3 => 4u64..=64,
        3 => 65u64..=4096,
        2 => 4097u64..=1_048_576,
        2 => Just(SEGMENT_SIZE),
        // larger than the default geometry (offsets beyond 30 bits)
        1 => prop_oneof![Just(2 * SEGMENT_SIZE), Just(4 * SEGMENT_SIZE), Just(SEGMENT_SIZE + 1), SEGMENT_SIZE + 1..=64 * SEGMENT_SIZE],
    ];
    let thr = prop_oneof![
        1 => Just(0u32),
        5 => 1u32..=1000,
        2 => Just(1000u32),
        2 => 1001u32..=2000,
        1 => Just(500u32),
    ];
    let segs = proptest::collection::vec((proptest::bool::weighted(0.85), 0u8..14, any::<u32>()), 0..=12);
    (size, thr, segs)
        .prop_map(|(segment_size, threshold_permille, raw)| PlanCase {
            segment_size,
            threshold_permille,
            segs: raw
                .into_iter()
                .map(|(frozen, kind, frac)| SegSpec { frozen, write_position: wp_of(kind, frac, segment_size) })
                .collect(),
        })
        .boxed()
}

/// Exhaustive small scope: every population of <= 4 segments over
/// {Frozen,Thawed} x write_position 0..=4 with segment_size 4, and every
/// all-frozen population of exactly 5 segments with write_position 1..=6 and
/// segment_size 6, each under thresholds {0.5, 1.0, 1.25}.
pub const SMALL_SCOPE: &str = "plan_archive_merge: all populations of <=4 segments over {Frozen,Thawed} x write_position 0..=4 (segment_size 4) \
     plus all 5-segment all-frozen populations with write_position 1..=6 (segment_size 6), x thresholds {0.5,1.0,1.25}";

pub fn small_scope() -> Box<dyn Iterator<Item = PlanCase> + Send> {
    let thr = [500u32, 1000, 1250];
    let a = (0..=4usize).flat_map(move |n| {
        let total = 10usize.pow(n as u32);
        (0..total).flat_map(move |mut code| {
            let mut segs = Vec::with_capacity(n);
            for _ in 0..n {
                let d = code % 10;
                code /= 10;
                segs.push(SegSpec { frozen: d < 5, write_position: (d % 5) as u64 });
            }
            thr.into_iter().map(move |t| PlanCase { segment_size: 4, threshold_permille: t, segs: segs.clone() })
        })
    });
    let b = (0..6usize.pow(5)).flat_map(move |mut code| {
        let mut segs = Vec::with_capacity(5);
        for _ in 0..5 {
            segs.push(SegSpec { frozen: true, write_position: 1 + (code % 6) as u64 });
            code /= 6;
        }
        thr.into_iter().map(move |t| PlanCase { segment_size: 6, threshold_permille: t, segs: segs.clone() })
    });
    Box::new(a.chain(b))
}

#[derive(Clone, Debug)]
struct Piece {
    start: u64,
    len: u64,
    /// where these bytes lived initially
    oseg: u16,
    ooff: u64,
}

/// Remove `[a,b)` from the live pieces of a segment; returns what was live there.
fn carve(v: &mut Vec<Piece>, a: u64, b: u64) -> Vec<Piece> {
    let mut out = Vec::new();
    let mut keep = Vec::with_capacity(v.len() + 1);
    for p in v.drain(..) {
        let (ps, pe) = (p.start, p.start + p.len);
        let (is, ie) = (ps.max(a), pe.min(b));
        if is >= ie {
            keep.push(p);
            continue;
        }
        if ps < is {
            keep.push(Piece { start: ps, len: is - ps, oseg: p.oseg, ooff: p.ooff });
        }
        out.push(Piece { start: is, len: ie - is, oseg: p.oseg, ooff: p.ooff + (is - ps) });
        if ie < pe {
            keep.push(Piece { start: ie, len: pe - ie, oseg: p.oseg, ooff: p.ooff + (ie - ps) });
        }
    }
    *v = keep;
    out
}

pub fn check(c: &PlanCase, known: &Known) -> Verdict {
    let n = c.segs.len();
    if c.segment_size == 0
        || c.segment_size > 1 << 40
        || n > 1023
        || c.threshold_permille > 1_000_000
        || c.segs.iter().any(|s| s.write_position > c.segment_size)
    {
        return Verdict::pass().class("excluded_by_domain");
    }
    let infos: Vec<SegmentInfo> = c
        .segs
        .iter()
        .enumerate()
        .map(|(i, s)| {
            let mut info = SegmentInfo::new(i as u16, SegmentHeader::default());
            info.state = if s.frozen { SegmentState::Frozen } else { SegmentState::Thawed };
            info.write_position = s.write_position;
            info
        })
        .collect();
    let threshold = f64::from(c.threshold_permille) / 1000.0;
    let plan = plan_archive_merge(&infos, threshold, c.segment_size);

    // ---- simulation ----
    let mut live: Vec<Vec<Piece>> = c
        .segs
        .iter()
        .enumerate()
        .map(|(i, s)| {
            if s.write_position > 0 {
                vec![Piece { start: 0, len: s.write_position, oseg: i as u16, ooff: 0 }]
            } else {
                Vec::new()
            }
        })
        .collect();
    let mut violations: Vec<(&'static str, String)> = Vec::new();
    let first_dest = plan.moves.first().map(|m| m.dest_segment);
    let describe = |k: usize| {
        let m = &plan.moves[k];
        format!(
            "move #{k}: segment {}[{}..{}) -> segment {}[{}..{})",
            m.source_segment,
            m.source_offset,
            m.source_offset + m.length,
            m.dest_segment,
            m.dest_offset,
            m.dest_offset + m.length
        )
    };
    for (k, m) in plan.moves.iter().enumerate() {
        let (s, d) = (m.source_segment as usize, m.dest_segment as usize);
        if s >= n || d >= n {
            violations.push((K_UNKNOWN_SEG, format!("{} but there are {n} segments", describe(k))));
            continue;
        }
        if m.length == 0 {
            continue;
        }
        let (Some(s_end), Some(d_end)) = (m.source_offset.checked_add(m.length), m.dest_offset.checked_add(m.length)) else {
            violations.push((K_OVERFILL, format!("{}: range end overflows u64", describe(k))));
            continue;
        };
        // 1. source live
        let taken = carve(&mut live[s], m.source_offset, s_end);
        let covered: u64 = taken.iter().map(|p| p.len).sum();
        if covered != m.length {
            violations.push((
                K_SRC_DEAD,
                format!("{}: only {covered} of {} source bytes are live at that moment", describe(k), m.length),
            ));
        }
        // 2a. the statement's own wording: "bytes a destination segment already uses" are the bytes
        // below its write position when the plan is made, whether or not an earlier move of the same
        // plan has copied them elsewhere (the plan does not say when a source may be reused)
        let used_at_planning = c.segs[d].write_position;
        if m.dest_offset < used_at_planning {
            violations.push((
                K_USED_AT_PLANNING,
                format!(
                    "{} lands on bytes [{}..{}) that segment {} uses when the plan is made (write position {used_at_planning})",
                    describe(k),
                    m.dest_offset,
                    d_end.min(used_at_planning),
                    m.dest_segment
                ),
            ));
        }
        // 2b. destination free at that moment of an in-order execution
        let destroyed = carve(&mut live[d], m.dest_offset, d_end);
        if !destroyed.is_empty() {
            let bytes: u64 = destroyed.iter().map(|p| p.len).sum();
            let own: u64 = destroyed.iter().filter(|p| p.oseg as usize == d && p.ooff == p.start).map(|p| p.len).sum();
            if own > 0 {
                let key = if Some(m.dest_segment) == first_dest { K_OWN_FIRST } else { K_OWN_LATER };
                violations.push((
                    key,
                    format!(
                        "{} lands on {own} bytes of the destination's own live data (segment {} uses [0..{}))",
                        describe(k),
                        m.dest_segment,
                        c.segs[d].write_position
                    ),
                ));
            }
            if bytes > own && !plan.moves[..k].iter().any(|e| {
                e.dest_segment == m.dest_segment && e.length > 0 && e.dest_offset < d_end && m.dest_offset < e.dest_offset + e.length
            }) {
                // live bytes that are neither the destination's initial data nor covered by clause 4
                violations.push((K_OTHER_LIVE, format!("{} lands on {} live bytes", describe(k), bytes - own)));
            }
        }
        // 3. size
        if d_end > c.segment_size {
            violations.push((K_OVERFILL, format!("{} ends beyond segment_size {}", describe(k), c.segment_size)));
        }
        // 4. pairwise destination ranges
        for (e_ix, e) in plan.moves[..k].iter().enumerate() {
            if e.dest_segment == m.dest_segment && e.length > 0 && e.dest_offset < d_end && m.dest_offset < e.dest_offset + e.length {
                violations.push((K_TWO_MOVES, format!("{} overlaps the destination of {}", describe(k), describe(e_ix))));
                break;
            }
        }
        // relocate
        for p in taken {
            live[d].push(Piece { start: m.dest_offset + (p.start - m.source_offset), len: p.len, oseg: p.oseg, ooff: p.ooff });
        }
    }
    // 5. audit: every initially live byte exactly once
    let mut lost = 0u64;
    let mut dup = 0u64;
    for (i, s) in c.segs.iter().enumerate() {
        let mut mine: Vec<(u64, u64)> =
            live.iter().flatten().filter(|p| p.oseg as usize == i).map(|p| (p.ooff, p.ooff + p.len)).collect();
        mine.sort_unstable();
        let mut at = 0u64;
        for (a, b) in mine {
            if a > at {
                lost += a - at;
            }
            if a < at {
                dup += at.min(b) - a;
            }
            at = at.max(b);
        }
        lost += s.write_position.saturating_sub(at);
    }
    if (lost > 0 || dup > 0) && violations.is_empty() {
        violations.push((K_AUDIT, format!("{lost} initially live bytes missing, {dup} duplicated after executing the plan")));
    }

    // ---- classes ----
    let moves = plan.moves.len();
    let mut dests: Vec<u16> = plan.moves.iter().map(|m| m.dest_segment).collect();
    dests.dedup();
    dests.sort_unstable();
    dests.dedup();
    let both = plan.moves.iter().any(|m| plan.moves.iter().any(|e| e.source_segment == m.dest_segment));
    let qualifying = c
        .segs
        .iter()
        .filter(|s| s.frozen && s.write_position > 0 && (s.write_position as f64 / c.segment_size as f64) < threshold)
        .count();
    let mut v = Verdict::pass()
        .nontrivial(moves >= 1)
        .class_if(moves == 0, "plan:empty")
        .class_if(moves == 0 && qualifying >= 2, "plan:empty-with>=2-candidates")
        .class_if(moves == 1, "plan:1-move")
        .class_if(moves >= 2, "plan:>=2-moves")
        .class_if(moves >= 4, "plan:>=4-moves")
        .class_if(dests.len() >= 2, "plan:>=2-destinations")
        .class_if(both, "segment-both-source-and-destination")
        .class_if(moves >= 1 && qualifying > moves + 1, "candidate-left-out")
        .class_if(c.segs.iter().any(|s| !s.frozen), "thawed-present")
        .class_if(c.threshold_permille > 1000, "threshold>1")
        .class_if(c.segment_size == SEGMENT_SIZE, "segment_size:1GiB")
        .class_if(c.segment_size > SEGMENT_SIZE, "segment_size>1GiB")
        .class_if(c.segment_size > SEGMENT_SIZE && plan.moves.iter().any(|m| m.dest_offset >= SEGMENT_SIZE), "move-lands-beyond-1GiB")
        .class_if(c.segs.iter().any(|s| s.write_position == c.segment_size), "full-segment-present");

    let pop = format!(
        "segment_size={} threshold={} segments(state,write_position)={:?}",
        c.segment_size,
        threshold,
        c.segs.iter().map(|s| (if s.frozen { 'F' } else { 'T' }, s.write_position)).collect::<Vec<_>>()
    );
    for (key, msg) in violations {
        if known.is_open(key) {
            if !v.known_hits.iter().any(|k| k == key) {
                v.known_hits.push(key.to_string());
            }
            continue;
        }
        return v.with_fail(key, format!("{msg}; executing the plan destroys {lost} live bytes in total; {pop}"));
    }
    v
}

// ---------------------------------------------------------------------------
// populations as the allocator reads them from a data directory
// ---------------------------------------------------------------------------

/// A data directory whose `data.NNN` files are regular files or symbolic links to files kept
/// elsewhere (another volume); `SegmentAllocator::load_existing` turns it into the population the
/// planner gets. A segment's used bytes are the bytes of its data file, whatever kind of directory
/// entry leads to it.
#[derive(Debug, Clone, Serialize, Deserialize)]
pub struct DirCase {
    /// (length of the data file, reached through a symbolic link)
    pub files: Vec<(u32, bool)>,
    pub threshold_permille: u32,
    pub segment_size: u32,
}

pub fn dir_strategy() -> BoxedStrategy<DirCase> {
    (proptest::collection::vec((prop_oneof![Just(0u32), 1u32..200, 1000u32..60_000], proptest::bool::weighted(0.3)), 2..=6), prop_oneof![Just(500u32), 100u32..=1000], prop_oneof![Just(65_536u32), 50_000u32..200_000])
        .prop_map(|(files, threshold_permille, segment_size)| DirCase { files: files.into_iter().map(|(l, s)| (l.min(segment_size), s)).collect(), threshold_permille, segment_size })
        .boxed()
}

pub fn check_dir(c: &DirCase) -> Verdict {
    use cascette_client_storage::storage::segment::SegmentAllocator;
    if c.files.len() > 64 || c.segment_size == 0 || c.files.iter().any(|f| f.0 > c.segment_size) {
        return Verdict::pass().class("excluded_by_domain");
    }
    let root = if std::path::Path::new("/dev/shm").is_dir() { "/dev/shm" } else { "/tmp" };
    let Ok(td) = tempfile::Builder::new().prefix("vh-c18d-").tempdir_in(root) else {
        return Verdict::pass().class("VACUOUS:no-tempdir");
    };
    let (data, other) = (td.path().join("data"), td.path().join("other-volume"));
    if std::fs::create_dir_all(&data).is_err() || std::fs::create_dir_all(&other).is_err() {
        return Verdict::pass().class("VACUOUS:no-tempdir");
    }
    let mut any_link = false;
    for (i, (len, link)) in c.files.iter().enumerate() {
        let name = format!("data.{i:03}");
        let bytes = vec![0xA5u8; *len as usize];
        let ok = if *link {
            any_link = true;
            std::fs::write(other.join(&name), &bytes).is_ok() && std::os::unix::fs::symlink(other.join(&name), data.join(&name)).is_ok()
        } else {
            std::fs::write(data.join(&name), &bytes).is_ok()
        };
        if !ok {
            return Verdict::pass().class("VACUOUS:cannot-create-files");
        }
    }
    let mut alloc = SegmentAllocator::new(data.clone(), [7u8; 16], 1023);
    if let Err(e) = alloc.load_existing() {
        return Verdict::fail("C18:merge-plan:load_existing-fails", e.to_string());
    }
    let segs = alloc.segments();
    for (i, (len, link)) in c.files.iter().enumerate() {
        let got = segs.get(i).map(|s| s.write_position);
        if got != Some(u64::from(*len)) {
            return Verdict::fail(
                "C18:merge-plan:population-read-from-directory-misstates-used-bytes",
                format!("data.{i:03} ({}) holds {len} bytes, the segment's write position is {got:?}", if *link { "symbolic link" } else { "regular file" }),
            );
        }
    }
    let plan = plan_archive_merge(segs, f64::from(c.threshold_permille) / 1000.0, u64::from(c.segment_size));
    for m in &plan.moves {
        let used = c.files.get(m.dest_segment as usize).map_or(0, |f| u64::from(f.0));
        if m.length > 0 && m.dest_offset < used {
            return Verdict::fail(K_USED_AT_PLANNING, format!("move of {} bytes from segment {} lands at offset {} of segment {}, whose data file holds {used} bytes", m.length, m.source_segment, m.dest_offset, m.dest_segment));
        }
        if m.dest_offset + m.length > u64::from(c.segment_size) {
            return Verdict::fail(K_OVERFILL, format!("move ends at {} beyond segment_size {}", m.dest_offset + m.length, c.segment_size));
        }
    }
    Verdict::pass().nontrivial(!plan.moves.is_empty()).class_if(any_link, "data-file-behind-a-symbolic-link").class_if(any_link && !plan.moves.is_empty(), "plan-with-moves-over-linked-files")
}
