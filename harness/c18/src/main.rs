//! C18 — compaction never loses or overwrites live data.
//!
//! Two families of sections (see the module docs for the exact oracles):
//!   * `extract`            — `extract_compact_segment` on real files, random span sets and buffer budgets;
//!   * `merge-plan`,
//!     `merge-plan-small`   — `plan_archive_merge` judged by executing the plan on an interval model.
//!   * `archive-compact`    — `ArchiveManager::compact` with a second manager over the same data files.
//! (`ArchiveManager::compact` on a single manager is also an operation of C04 histories.)

mod archive;
mod extract;
mod mover;
mod plan;

use vh_engine::{Check, Section};

fn main() {
    let mut ck = Check::from_args("C18", "exploration");
    let tier = ck.tier;
    ck.extra(
        "rule",
        "extract: file (len, content_seed) <= 1 MiB, span set from sorted cut points (kept/dropped intervals, extra zero-length spans, \
         optional overlap perturbation, input order sorted/reversed/shuffled), budget from {0,128Ki,1Mi,4Mi,1,128Ki+1,300001}; \
         non-trivial = >= 2 positive-length spans and dead bytes in front of at least one of them (a gap). \
         merge-plan: <= 12 segments (state, write_position <= segment_size), threshold in permille, segment_size 4..=64 GiB; \
         non-trivial = the plan has >= 1 move. Distinct by case hash."
            .into(),
    );
    ck.assume("spans handed to extract_compact_segment lie inside the file (they come from index entries of that segment)");
    ck.assume("a segment's used bytes are [0, write_position); slice position == segment index; write_position <= segment_size");
    ck.assume("a zero-length span at or inside another span, and the empty span set, are outside the strict clauses (either documented outcome accepted, consistently)");
    ck.assume("temp files live on a healthy local filesystem; I/O errors of the harness itself are reported as infrastructure trouble");

    ck.run(Section::pbt("extract", tier.pick(12_000, 300_000), move || extract::strategy(tier), extract::check).shards(16));
    let infra: Vec<String> = std::mem::take(&mut *extract::INFRA.lock().unwrap());
    for m in infra {
        ck.infra(format!("extract: {m}"));
    }

    let known = ck.known().clone();
    let k1 = known.clone();
    ck.run(Section::pbt("merge-plan", tier.pick(100_000, 5_000_000), plan::strategy, move |c: &plan::PlanCase| plan::check(c, &k1)).shards(16));
    let k2 = known;
    ck.run(
        Section::enumerate("merge-plan-small", plan::SMALL_SCOPE, plan::small_scope, move |c: &plan::PlanCase| plan::check(c, &k2)).shards(16),
    );

    ck.run(Section::pbt("merge-plan-from-directory", tier.pick(3_000, 100_000), plan::dir_strategy, plan::check_dir).shards(16));

    // the two copy routines of the mover, lengths aimed at the chunk boundaries
    ck.run(Section::pbt("mover", tier.pick(20_000, 400_000), mover::strategy, mover::check).shards(16).shrink_iters(300));
    let infra: Vec<String> = std::mem::take(&mut *mover::INFRA.lock().unwrap());
    for m in infra {
        ck.infra(format!("mover: {m}"));
    }

    ck.run(Section::pbt("archive-compact", tier.pick(6_000, 100_000), archive::strategy, archive::check).shards(16).shrink_iters(200));

    ck.finish();
}
