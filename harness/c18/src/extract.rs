//! Section "extract": `extract_compact_segment` on a real file.
//!
//! What the library documents (compaction.rs):
//!   * `DataSpan { offset, length }` — "A span within a segment (offset + length)",
//!     `end()` = "End offset (exclusive)", `overlaps` = "Check if two spans overlap".
//!   * `validate_spans` — "Validate that spans within a segment don't overlap.
//!     Returns Ok(()) if all spans are non-overlapping, or Err with the first
//!     overlapping pair."
//!   * `extract_compact_segment(file, spans, mover) -> Result<u64>` — "Validates
//!     spans (no overlaps), compacts in-place by moving data forward to fill
//!     gaps, then truncates the file."  The returned number is `bytes_saved`.
//!   * `CompactionFileMover::new(total_budget)` — "The budget is clamped to at
//!     least 128 KiB. Buffer count is min(total >> 17, 16), with per-buffer
//!     size = total / count."  Any `usize` budget is therefore in the domain;
//!     the per-chunk I/O size is `total / count` (128 KiB for budgets 0,
//!     128 KiB and 1 MiB; 256 KiB for 4 MiB).
//!
//! Domain: there is no in-repo caller; spans describe live index entries of
//! the segment, so every span lies inside the file (`offset + length <=
//! file_len`).  Cases outside are never built; a hand-edited replay outside
//! the domain is classed `excluded_by_domain` and not judged.
//!
//! Oracle (statement of C18, first sentence), decided on the *input geometry*:
//!   * `pos_overlap`  : two different spans of positive length share >= 1 byte.
//!       => the call must return Err and the file must be byte-identical.
//!   * `clean`        : no pair overlaps by the library's own
//!       `DataSpan::overlaps` and no zero-length span sits at an offset `z`
//!       with `a <= z < b` for another span `[a,b)` of positive length.
//!       => Ok(saved); file == the spans' original bytes concatenated in
//!          offset order; saved == old_len - sum(len).
//!   * otherwise `ambiguous` (only a zero-length span touches the inside or
//!       the start of another span: the intersection is empty, yet
//!       `overlaps`/`validate_spans` may call it an overlap, and for `z == a`
//!       `validate_spans` depends on the input order): either outcome is
//!       accepted, consistently — Ok => the content/saved rules hold,
//!       Err => file untouched.
//!   * the empty span set returns `Ok(0)` by an explicit early return and
//!     leaves the file alone; the statement's examples do not list the empty
//!     set, so it gets the weak oracle "Ok, and saved == old_len - new_len,
//!     and the file is either untouched or empty".

use cascette_client_storage::storage::compaction::{CompactionFileMover, DataSpan, extract_compact_segment};
use proptest::prelude::*;
use serde::{Deserialize, Serialize};
use std::fs::OpenOptions;
use vh_engine::util::Rng;
use vh_engine::{Tier, Verdict, pick_idx};

pub const MAX_FILE: u64 = 1 << 20;
pub const BUDGETS: [usize; 7] = [0, 128 << 10, 1 << 20, 4 << 20, 1, (128 << 10) + 1, 300_001];

#[derive(Debug, Clone, Serialize, Deserialize, PartialEq, Eq)]
pub struct Span {
    pub offset: u64,
    pub length: u64,
}

impl Span {
    fn end(&self) -> u64 {
        self.offset + self.length
    }
}

#[derive(Debug, Clone, Serialize, Deserialize)]
pub struct ExtractCase {
    pub file_len: u64,
    /// file content = Rng::new(content_seed).bytes(file_len)
    pub content_seed: u64,
    /// spans in the order in which they are handed to the library
    pub spans: Vec<Span>,
    /// total buffer budget given to CompactionFileMover::new
    pub budget: usize,
}

fn scale(f: u16, file_len: u64) -> u64 {
    // monotone map of 0..=65535 onto 0..=file_len
    ((f as u64) * (file_len + 1)) >> 16
}

#[derive(Debug, Clone)]
struct Raw {
    file_len: u64,
    content_seed: u64,
    /// (position fraction, kind): kind 0..=4 keep the interval that starts here, 5..=7 drop it (gap)
    cuts: Vec<(u16, u8)>,
    /// bit0: add a cut at 0, bit1: add a cut at file_len, bit2: keep flag of the cut at 0
    bounds: u8,
    /// extra zero-length spans: (selector, snap to an existing cut point)
    zeros: Vec<(u16, bool)>,
    /// 0 sorted, 1 reversed, 2.. shuffled
    order: u8,
    order_seed: u64,
    budget_ix: u16,
    /// perturbation producing an overlap: (which span, mode, amount)
    overlap: Option<(u16, u8, u16)>,
}

fn build(r: Raw) -> ExtractCase {
    let mut pts: Vec<(u64, bool)> = r.cuts.iter().map(|&(f, k)| (scale(f, r.file_len), k <= 4)).collect();
    if r.bounds & 1 != 0 {
        pts.push((0, r.bounds & 4 != 0));
    }
    if r.bounds & 2 != 0 {
        pts.push((r.file_len, true));
    }
    pts.sort_by_key(|p| p.0);
    let mut spans: Vec<Span> = Vec::new();
    for w in pts.windows(2) {
        if w[0].1 {
            spans.push(Span { offset: w[0].0, length: w[1].0 - w[0].0 });
        }
    }
    for &(sel, snap) in &r.zeros {
        let pos = if snap && !pts.is_empty() { pts[pick_idx(sel, pts.len())].0 } else { scale(sel, r.file_len) };
        spans.push(Span { offset: pos, length: 0 });
    }
    spans.sort_by_key(|s| s.offset);
    if let Some((which, mode, amount)) = r.overlap {
        let pos_ix: Vec<usize> = (0..spans.len()).filter(|&i| spans[i].length > 0).collect();
        if !pos_ix.is_empty() {
            let k = pick_idx(which, pos_ix.len());
            let i = pos_ix[k];
            match mode % 5 {
                // grow the end into the next positive span (by 1..=len_next bytes)
                0 if k + 1 < pos_ix.len() => {
                    let j = pos_ix[k + 1];
                    let into = 1 + pick_idx(amount, spans[j].length as usize) as u64;
                    spans[i].length = spans[j].offset + into - spans[i].offset;
                }
                // grow the end by exactly one byte past the next span's start
                1 if k + 1 < pos_ix.len() => {
                    let j = pos_ix[k + 1];
                    spans[i].length = spans[j].offset + 1 - spans[i].offset;
                }
                // pull the start back into the previous positive span (end stays)
                2 if k >= 1 => {
                    let h = pos_ix[k - 1];
                    let back = 1 + pick_idx(amount, spans[h].length as usize) as u64;
                    let end = spans[i].end();
                    let new_off = spans[h].end() - back;
                    spans[i].offset = new_off;
                    spans[i].length = end - new_off;
                }
                // a nested span inside span i
                3 => {
                    let off = spans[i].offset + pick_idx(amount, spans[i].length as usize) as u64;
                    let room = spans[i].end() - off;
                    let len = 1 + pick_idx(which.rotate_left(5) ^ amount, room as usize) as u64;
                    spans.push(Span { offset: off, length: len.min(room) });
                }
                // an exact duplicate
                _ => {
                    let d = spans[i].clone();
                    spans.push(d);
                }
            }
        }
    }
    match r.order {
        0 => spans.sort_by_key(|s| s.offset),
        1 => {
            spans.sort_by_key(|s| s.offset);
            spans.reverse();
        }
        _ => {
            let mut g = Rng::new(r.order_seed);
            for i in (1..spans.len()).rev() {
                let j = g.below(i as u64 + 1) as usize;
                spans.swap(i, j);
            }
        }
    }
    ExtractCase {
        file_len: r.file_len,
        content_seed: r.content_seed,
        spans,
        budget: BUDGETS[pick_idx(r.budget_ix, BUDGETS.len())],
    }
}

pub fn strategy(tier: Tier) -> BoxedStrategy<ExtractCase> {
    let cut = || (any::<u16>(), 0u8..8);
    let any_cuts = move || {
        prop_oneof![
            4 => proptest::collection::vec(cut(), 0..=5),
            3 => proptest::collection::vec(cut(), 2..=14),
            1 => proptest::collection::vec(cut(), 10..=40),
        ]
    };
    // few cuts, the first ones close to the front: long spans that move by a short distance
    let front_cuts = move || {
        (proptest::collection::vec((0u16..6_000, 0u8..8), 1..=3), proptest::collection::vec(cut(), 0..=3)).prop_map(|(mut a, b)| {
            a.extend(b);
            a
        })
    };
    let big = move |lens: std::ops::RangeInclusive<u64>| prop_oneof![1 => (lens.clone(), any_cuts()), 1 => (lens, front_cuts())];
    // quick: mostly <= 64 KiB, a good share > 128 KiB so that spans exceed the I/O buffer
    let file_and_cuts = match tier {
        Tier::Quick => prop_oneof![
            1 => (0u64..=64, any_cuts()),
            8 => (0u64..=65_536, any_cuts()),
            1 => (65_537u64..=140_000, any_cuts()),
            5 => big(131_073u64..=MAX_FILE),
        ]
        .boxed(),
        Tier::Thorough => prop_oneof![
            1 => (0u64..=64, any_cuts()),
            4 => (0u64..=65_536, any_cuts()),
            1 => (65_537u64..=140_000, any_cuts()),
            5 => big(131_073u64..=MAX_FILE),
            1 => big(MAX_FILE..=MAX_FILE),
        ]
        .boxed(),
    };
    let zeros = prop_oneof![
        5 => Just(Vec::new()),
        2 => proptest::collection::vec((any::<u16>(), any::<bool>()), 1..=3),
    ];
    let overlap = prop_oneof![
        3 => Just(None),
        1 => (any::<u16>(), 0u8..5, any::<u16>()).prop_map(Some),
    ];
    (
        file_and_cuts,
        any::<u64>(),
        0u8..8,
        zeros,
        prop_oneof![2 => Just(0u8), 1 => Just(1u8), 3 => Just(2u8)],
        any::<u64>(),
        // the four budgets of the design get most of the weight
        prop_oneof![4 => 0u16..37_449, 1 => any::<u16>()],
        overlap,
    )
        .prop_map(|((file_len, cuts), content_seed, bounds, zeros, order, order_seed, budget_ix, overlap)| {
            build(Raw { file_len, content_seed, cuts, bounds, zeros, order, order_seed, budget_ix, overlap })
        })
        .boxed()
}

/// Infrastructure trouble met inside the oracle (temp dir, writing the input file).
pub static INFRA: std::sync::Mutex<Vec<String>> = std::sync::Mutex::new(Vec::new());

fn infra(msg: String) -> Verdict {
    let mut g = INFRA.lock().unwrap();
    if g.len() < 5 {
        g.push(msg);
    }
    Verdict::pass().class("infra-error")
}

pub fn check(c: &ExtractCase) -> Verdict {
    // ---- domain guard (only a hand-edited replay can get here) ----
    if c.file_len > 64 << 20
        || c.spans.len() > 100_000
        || c.spans.iter().any(|s| s.offset.checked_add(s.length).is_none_or(|e| e > c.file_len))
        || c.budget > 64 << 20
    {
        return Verdict::pass().class("excluded_by_domain");
    }

    // ---- geometry of the input set ----
    let n = c.spans.len();
    let lib: Vec<DataSpan> = c.spans.iter().map(|s| DataSpan { offset: s.offset, length: s.length }).collect();
    let mut pos_overlap = false;
    let mut lib_overlap = false;
    let mut zero_inside = false; // zero-length span at z with a < z < b
    let mut zero_at_start = false; // zero-length span at z == a of a positive span [a,b)
    for i in 0..n {
        for j in 0..n {
            if i == j {
                continue;
            }
            let (a, b) = (&c.spans[i], &c.spans[j]);
            if lib[i].overlaps(&lib[j]) {
                lib_overlap = true;
            }
            if a.length > 0 && b.length > 0 && a.offset.max(b.offset) < a.end().min(b.end()) {
                pos_overlap = true;
            }
            if a.length == 0 && b.length > 0 {
                if b.offset < a.offset && a.offset < b.end() {
                    zero_inside = true;
                }
                if a.offset == b.offset {
                    zero_at_start = true;
                }
            }
        }
    }
    let clean = !lib_overlap && !zero_at_start;
    let ambiguous = !pos_overlap && !clean;
    debug_assert!(!ambiguous || zero_inside || zero_at_start);

    let mut sorted: Vec<&Span> = c.spans.iter().collect();
    sorted.sort_by_key(|s| s.offset); // stable; ties only involve zero-length spans unless pos_overlap
    let live: u64 = c.spans.iter().map(|s| s.length).sum();
    let n_pos = c.spans.iter().filter(|s| s.length > 0).count();
    let buf = {
        // per-chunk size as documented on CompactionFileMover::new
        let total = c.budget.max(128 << 10);
        let count = (total >> 17).clamp(1, 16);
        (total / count) as u64
    };
    // dead bytes in front of a positive-length span (that span has to move)
    let mut reach = 0u64;
    let mut write_pos = 0u64;
    let mut has_gap = false;
    let mut multi_chunk_move = false; // a moved span longer than one buffer
    let mut self_overlapping_multi_chunk = false; // ... moved by less than its own length
    for s in &sorted {
        if s.length > 0 && s.offset > reach {
            has_gap = true;
        }
        if !pos_overlap && s.length > buf && s.offset > write_pos {
            multi_chunk_move = true;
            if s.offset - write_pos < s.length {
                self_overlapping_multi_chunk = true;
            }
        }
        reach = reach.max(s.end());
        write_pos += s.length;
    }
    let tail_dead = reach < c.file_len;
    let is_sorted = c.spans.windows(2).all(|w| w[0].offset <= w[1].offset);

    // ---- run the real thing on a real file ----
    let original = Rng::new(c.content_seed).bytes(c.file_len as usize);
    let dir = match tempfile::tempdir() {
        Ok(d) => d,
        Err(e) => return infra(format!("tempdir: {e}")),
    };
    let path = dir.path().join("data.000");
    if let Err(e) = std::fs::write(&path, &original) {
        return infra(format!("write input file: {e}"));
    }
    let mut file = match OpenOptions::new().read(true).write(true).open(&path) {
        Ok(f) => f,
        Err(e) => return infra(format!("open input file: {e}")),
    };
    let mut spans = lib.clone();
    let mut mover = CompactionFileMover::new(c.budget);
    let res = extract_compact_segment(&mut file, &mut spans, &mut mover);
    drop(file);
    let after = match std::fs::read(&path) {
        Ok(a) => a,
        Err(e) => return infra(format!("read back: {e}")),
    };

    let geo = format!(
        "file_len={} spans(input order)={:?} budget={} (chunk {})",
        c.file_len,
        c.spans.iter().map(|s| (s.offset, s.length)).collect::<Vec<_>>(),
        c.budget,
        buf
    );

    let v = Verdict::pass()
        .nontrivial(n_pos >= 2 && has_gap)
        .class_if(n == 0, "empty-set")
        .class_if(clean && n > 0, "set:clean")
        .class_if(pos_overlap, "set:overlapping")
        .class_if(ambiguous, "set:ambiguous-zero-length")
        .class_if(has_gap, "gapped")
        .class_if(sorted.windows(2).any(|w| w[0].length > 0 && w[1].length > 0 && w[0].end() == w[1].offset), "adjacent")
        .class_if(c.spans.iter().any(|s| s.length == 0), "zero-length-span")
        .class_if(sorted.first().is_some_and(|s| s.offset > 0), "first-span-after-0")
        .class_if(c.spans.iter().any(|s| s.length > buf), "span>buffer")
        .class_if(multi_chunk_move, "moved-span>buffer")
        .class_if(self_overlapping_multi_chunk, "moved-span>buffer-by-less-than-its-length")
        .class_if(!is_sorted, "unsorted-input")
        .class_if(tail_dead, "dead-tail")
        .class_if(c.file_len > 128 << 10, "file>128KiB")
        .class_if(c.budget == 0, "budget:0")
        .class_if(c.budget == 128 << 10, "budget:128KiB")
        .class_if(c.budget == 1 << 20, "budget:1MiB")
        .class_if(c.budget == 4 << 20, "budget:4MiB")
        .class_if(![0, 128 << 10, 1 << 20, 4 << 20].contains(&c.budget), "budget:odd");

    match res {
        Err(e) => {
            if after != original {
                let at = after.iter().zip(&original).position(|(a, b)| a != b);
                return v.with_fail(
                    "C18:extract:refused-but-file-modified",
                    format!("Err({e}) yet the file changed (len {} -> {}, first differing byte {:?}); {geo}", original.len(), after.len(), at),
                );
            }
            if n == 0 {
                return v.with_fail("C18:extract:empty-set-refused", format!("Err({e}); {geo}"));
            }
            if clean {
                return v.with_fail(
                    "C18:extract:non-overlapping-set-refused",
                    format!("no pair overlaps (DataSpan::overlaps false for all pairs) yet Err({e}); {geo}"),
                );
            }
            v.class_if(pos_overlap, "overlap:refused-file-untouched")
                .class_if(ambiguous && zero_at_start && !lib_overlap, "ambiguous:zero-at-span-start:refused")
                .class_if(ambiguous && lib_overlap, "ambiguous:zero-inside-span:refused")
        }
        Ok(saved) => {
            if pos_overlap {
                return v.with_fail(
                    "C18:extract:overlapping-set-accepted",
                    format!("two positive-length spans share bytes yet Ok({saved}); file len {} -> {}; {geo}", original.len(), after.len()),
                );
            }
            if n == 0 {
                // weak oracle, see module doc
                let truthful = saved == (original.len() as u64).saturating_sub(after.len() as u64);
                if !(truthful && (after == original || after.is_empty())) {
                    return v.with_fail(
                        "C18:extract:empty-set-inconsistent",
                        format!("Ok({saved}) file len {} -> {}; {geo}", original.len(), after.len()),
                    );
                }
                return v;
            }
            if after.len() as u64 != live {
                return v.with_fail(
                    "C18:extract:length-differs-from-live-bytes",
                    format!("Ok({saved}): file is {} bytes, the spans hold {live}; {geo}", after.len()),
                );
            }
            let mut want = Vec::with_capacity(live as usize);
            for s in &sorted {
                want.extend_from_slice(&original[s.offset as usize..s.end() as usize]);
            }
            if after != want {
                let at = after.iter().zip(&want).position(|(a, b)| a != b).unwrap_or(0);
                // which span does the first wrong byte belong to
                let mut acc = 0u64;
                let mut owner = None;
                for s in &sorted {
                    if (at as u64) < acc + s.length {
                        owner = Some((s.offset, s.length, at as u64 - acc));
                        break;
                    }
                    acc += s.length;
                }
                return v.with_fail(
                    "C18:extract:content-differs-from-live-spans",
                    format!("Ok({saved}): first wrong byte at output offset {at} = byte {:?} of span (offset,len,rel); {geo}", owner),
                );
            }
            if saved != c.file_len - live {
                return v.with_fail(
                    "C18:extract:bytes-saved-misreported",
                    format!("Ok({saved}) but old_len - new_len = {} - {} = {}; {geo}", c.file_len, live, c.file_len - live),
                );
            }
            v.class_if(ambiguous && zero_at_start && !lib_overlap, "ambiguous:zero-at-span-start:accepted")
                .class_if(ambiguous && lib_overlap, "ambiguous:zero-inside-span:accepted")
                .class_if(saved == 0, "saved=0")
        }
    }
}
