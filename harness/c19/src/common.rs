//! Shared pieces: tag name / type pools, the set model, association patterns.

use cascette_formats::install::TagType;
use serde::{Deserialize, Serialize};
use std::collections::BTreeSet;
use vh_engine::util::{Rng, splitmix64};

pub const TAG_TYPES: [TagType; 17] = [
    TagType::Platform,
    TagType::Architecture,
    TagType::Locale,
    TagType::Category,
    TagType::Unknown,
    TagType::Component,
    TagType::Version,
    TagType::Optimization,
    TagType::Region,
    TagType::Device,
    TagType::Mode,
    TagType::Branch,
    TagType::Content,
    TagType::Feature,
    TagType::Expansion,
    TagType::Alternate,
    TagType::Option,
];

/// On-disk u16 of a tag type, from the format description (not from the enum's discriminant).
pub fn tag_type_wire(ix: u8) -> u16 {
    const WIRE: [u16; 17] = [
        0x0001, 0x0002, 0x0003, 0x0004, 0x0005, 0x0010, 0x0020, 0x0040, 0x0080, 0x0100, 0x0200, 0x0400, 0x0800, 0x1000, 0x2000,
        0x4000, 0x8000,
    ];
    WIRE[ix as usize % 17]
}

pub fn tag_type(ix: u8) -> TagType {
    TAG_TYPES[ix as usize % 17]
}

pub const NAME_POOL: u8 = 28;

/// Unique, NUL-free tag names (the format is NUL terminated and looked up by name).
pub fn tag_name(id: u8) -> String {
    match id % NAME_POOL {
        0 => "Windows".into(),
        1 => "OSX".into(),
        2 => "Mac".into(),
        3 => "Linux".into(),
        4 => "x86_64".into(),
        5 => "x86_32".into(),
        6 => "arm64".into(),
        7 => "enUS".into(),
        8 => "deDE".into(),
        9 => "frFR".into(),
        10 => "zhCN".into(),
        11 => "koKR".into(),
        12 => "EU".into(),
        13 => "US".into(),
        14 => "KR".into(),
        15 => "speech".into(),
        16 => "text".into(),
        17 => "Alternate".into(),
        18 => String::new(),
        19 => " ".into(),
        20 => "tag with spaces".into(),
        21 => "Ünïcødé–タグ".into(),
        22 => "a".into(),
        23 => "A".into(),
        24 => "windows".into(),
        25 => "n".repeat(200),
        26 => "x\u{1}y".into(),
        _ => "0".into(),
    }
}

#[derive(Debug, Clone)]
pub struct TagM {
    pub name_id: u8,
    pub ty: u8,
    /// uids (not indices) of the associated files: removal of a file needs no renumbering
    pub set: BTreeSet<u32>,
}

#[derive(Debug, Clone, Default)]
pub struct FileInfo {
    pub size: u64,
    pub prio: i8,
    pub key: [u8; 16],
    pub path: String,
    pub checksum: Option<u32>,
    pub flags: Vec<u8>,
}

/// The set model: ordered live files (by uid), ordered live tags, per-uid facts.
#[derive(Debug, Clone, Default)]
pub struct Model {
    pub files: Vec<u32>,
    pub tags: Vec<TagM>,
    pub info: Vec<FileInfo>,
    // coverage facts
    pub remove_after_assoc: bool,
    pub removed_files: u32,
    pub removed_tags: u32,
    pub readded_tag: bool,
    pub dead_names: BTreeSet<u8>,
    pub bad_ops_accepted: u32,
    pub bad_ops_rejected: u32,
    pub reloads: u32,
    pub dissociations: u32,
}

impl Model {
    pub fn n(&self) -> usize {
        self.files.len()
    }
    pub fn new_uid(&mut self, fi: FileInfo) -> u32 {
        let uid = self.info.len() as u32;
        self.info.push(fi);
        self.files.push(uid);
        uid
    }
    pub fn name_live(&self, id: u8) -> bool {
        self.tags.iter().any(|t| t.name_id == id)
    }
    pub fn add_tag(&mut self, name_id: u8, ty: u8) {
        if self.dead_names.remove(&name_id) {
            self.readded_tag = true;
        }
        self.tags.push(TagM { name_id, ty, set: BTreeSet::new() });
    }
    pub fn any_assoc(&self) -> bool {
        self.tags.iter().any(|t| !t.set.is_empty())
    }
    pub fn remove_file(&mut self, ix: usize) {
        if self.any_assoc() {
            self.remove_after_assoc = true;
        }
        let uid = self.files.remove(ix);
        for t in &mut self.tags {
            t.set.remove(&uid);
        }
        self.removed_files += 1;
    }
    pub fn remove_tag(&mut self, pos: usize) {
        let t = self.tags.remove(pos);
        self.dead_names.insert(t.name_id);
        self.removed_tags += 1;
    }
    /// indices of the live files that belong to tag `pos`
    pub fn indices(&self, pos: usize) -> Vec<usize> {
        let t = &self.tags[pos];
        self.files.iter().enumerate().filter(|(_, u)| t.set.contains(u)).map(|(i, _)| i).collect()
    }
    pub fn size_at(&self, ix: usize) -> u64 {
        self.info[self.files[ix] as usize].size
    }
    pub fn fi(&self, ix: usize) -> &FileInfo {
        &self.info[self.files[ix] as usize]
    }
    pub fn last_tagged(&self) -> bool {
        match self.files.last() {
            None => false,
            Some(u) => self.tags.iter().any(|t| t.set.contains(u)),
        }
    }
    /// DESIGN.md rule
    pub fn nontrivial(&self) -> bool {
        (self.n() % 8 != 0 && self.last_tagged()) || self.remove_after_assoc
    }
}

/// A combination of tag names for a query: positions of live tags plus dead names.
#[derive(Debug, Clone)]
pub struct Combo {
    pub live: Vec<usize>,
    pub dead: Vec<u8>,
    /// names in query order
    pub names: Vec<String>,
}

pub fn random_combo(m: &Model, r: &mut Rng, allow_empty: bool) -> Combo {
    let k = if allow_empty && r.below(12) == 0 { 0 } else { 1 + r.below(4) as usize };
    let mut c = Combo { live: vec![], dead: vec![], names: vec![] };
    for _ in 0..k {
        let dead = m.tags.is_empty() || r.below(10) == 0;
        if dead {
            // a name that is not live
            let mut id = r.below(NAME_POOL as u64) as u8;
            let mut guard = 0;
            while m.name_live(id) && guard < NAME_POOL {
                id = (id + 1) % NAME_POOL;
                guard += 1;
            }
            if m.name_live(id) {
                continue;
            }
            c.dead.push(id);
            c.names.push(tag_name(id));
        } else {
            let p = r.below(m.tags.len() as u64) as usize;
            c.live.push(p);
            c.names.push(tag_name(m.tags[p].name_id));
        }
    }
    c
}

impl Combo {
    pub fn is_empty(&self) -> bool {
        self.names.is_empty()
    }
    /// files (indices) carrying every named tag; a name without a tag has no files
    pub fn all_of(&self, m: &Model) -> Vec<usize> {
        if !self.dead.is_empty() {
            return vec![];
        }
        (0..m.n()).filter(|&i| self.live.iter().all(|&p| m.tags[p].set.contains(&m.files[i]))).collect()
    }
    pub fn any_of(&self, m: &Model) -> Vec<usize> {
        (0..m.n()).filter(|&i| self.live.iter().any(|&p| m.tags[p].set.contains(&m.files[i]))).collect()
    }
}

/// Which files a pattern association touches, for a file count of `n`.
pub fn pattern_files(pat: u8, salt: u32, n: usize) -> Vec<usize> {
    match pat % 8 {
        0 => (0..n).collect(),
        1 => (0..n).step_by(2).collect(),
        2 => (1..n).step_by(2).collect(),
        3 => n.checked_sub(1).into_iter().collect(),
        4 => (0..n.min(1)).collect(),
        5 => (0..n).filter(|&i| splitmix64(salt as u64 ^ ((i as u64) << 32)) & 1 == 0).collect(),
        6 => (0..n).filter(|&i| splitmix64(salt as u64 ^ ((i as u64) << 32)) & 7 == 0).collect(),
        _ => (0..n).filter(|&i| i % 8 == 7 || i % 8 == 0).collect(),
    }
}

/// Histories whose seed is 4 mod 5 draw their keys from a pool of three: the same content
/// shipped under several paths / the same encoding key at several indices (real manifests have
/// dozens of such keys). Everything else about a file (size, priority, path) stays its own.
pub fn shared_keys(seed: u64) -> bool {
    seed % 5 == 4
}

pub fn key_for(seed: u64, uid: u32, gen_no: u32) -> [u8; 16] {
    // unique per (uid, gen_no): the pair is embedded verbatim
    // (uids from 2^31 up are the harness's "no such file" probes: never folded)
    let (uid, gen_no) = if shared_keys(seed) && uid < 1 << 31 { (uid % 3, 0) } else { (uid, gen_no) };
    let mut k = [0u8; 16];
    k[0..4].copy_from_slice(&uid.to_be_bytes());
    k[4..8].copy_from_slice(&gen_no.to_be_bytes());
    k[8..16].copy_from_slice(&splitmix64(seed ^ uid as u64).to_le_bytes());
    k
}

pub fn size40_for(seed: u64, uid: u32) -> u64 {
    let mut r = Rng::new(seed ^ mix(uid));
    match r.below(10) {
        0 => 0,
        1 => 1,
        2 => u32::MAX as u64,
        3 => u32::MAX as u64 + 1,
        4 => (1u64 << 40) - 1,
        5 | 6 => r.next_u64() & ((1u64 << 40) - 1),
        _ => r.below(1 << 20),
    }
}

pub fn size32_for(seed: u64, uid: u32) -> u32 {
    let mut r = Rng::new(seed ^ mix(uid));
    match r.below(8) {
        0 => 0,
        1 => 1,
        2 => u32::MAX,
        3 => u32::MAX - 1,
        4 => r.next_u64() as u32,
        _ => r.below(1 << 20) as u32,
    }
}

pub fn prio_for(seed: u64, uid: u32) -> i8 {
    let mut r = Rng::new(seed ^ 0x9e37 ^ mix(uid));
    match r.below(4) {
        0 => [-128i8, -127, -2, -1, 0, 1, 2, 3, 4, 5, 6, 7, 126, 127][r.below(14) as usize],
        1 => (r.below(12) as i8) - 3,
        _ => r.next_u64() as i8,
    }
}

fn mix(uid: u32) -> u64 {
    splitmix64(0xC19 ^ ((uid as u64) << 20))
}

#[derive(Debug, Clone, Copy, Serialize, Deserialize, PartialEq, Eq)]
pub enum Pat {
    /// exactly one file index set
    Single(u16),
    All,
    Even,
    Odd,
}

impl Pat {
    pub fn files(self, n: usize) -> Vec<usize> {
        match self {
            Pat::Single(i) => {
                if (i as usize) < n {
                    vec![i as usize]
                } else {
                    vec![]
                }
            }
            Pat::All => (0..n).collect(),
            Pat::Even => (0..n).step_by(2).collect(),
            Pat::Odd => (1..n).step_by(2).collect(),
        }
    }
}

pub fn hex(b: &[u8]) -> String {
    b.iter().map(|x| format!("{x:02x}")).collect()
}
