//! Independent readers of the serialized manifests, written from the documented
//! layouts (module docs of install/, download/, size/), sharing no code with the
//! crate under test.  They parse just enough to locate each tag's bit mask.
//!
//! install : "IN" ver ckey_len tag_count:u16be entry_count:u32be [v2: +6 bytes]
//!           tags{ name NUL type:u16be mask[ceil(n/8)] } entries{ path NUL ckey[ckey_len] size:u32be [v2: type:u8] }
//! download: "DL" ver ekey_len has_checksum entry_count:u32be tag_count:u16be [v2+: flag_size] [v3: base_prio:i8 rsvd[3]]
//!           entries{ ekey[16] size:u40be prio:i8 [checksum:u32be] [flags[flag_size]] } tags{ as above }
//! size    : "DS" ver ekey_size entry_count:u32be tag_count:u16be (v1: total:u64be esize_bytes:u8 | v2: total:u40be)
//!           tags{ as above } entries{ ekey[ekey_size] esize[esize_bytes] be }
//!
//! File i of a tag is byte i/8 of the mask, most significant bit first.

use crate::common::{Model, hex, tag_name, tag_type_wire};

pub struct RawTag {
    pub name: Vec<u8>,
    pub ty: u16,
    pub mask_at: usize,
    pub mask_len: usize,
}

#[derive(Default)]
pub struct Raw {
    pub version: u8,
    pub n: usize,
    pub tags: Vec<RawTag>,
    pub sizes: Vec<u64>,
    pub prios: Vec<i8>,
    /// path bytes (install) or key bytes (download, size)
    pub ids: Vec<Vec<u8>>,
    pub keys: Vec<Vec<u8>>,
    pub checksums: Vec<Option<u32>>,
    pub flags: Vec<Vec<u8>>,
    pub header_total: Option<u64>,
    pub base_priority: i8,
    pub has_checksum: bool,
    pub flag_size: u8,
}

struct Cur<'a> {
    b: &'a [u8],
    p: usize,
}

impl<'a> Cur<'a> {
    fn take(&mut self, n: usize) -> Result<&'a [u8], String> {
        if self.b.len() - self.p < n {
            return Err(format!("need {n} bytes at offset {} of {}", self.p, self.b.len()));
        }
        let s = &self.b[self.p..self.p + n];
        self.p += n;
        Ok(s)
    }
    fn be(&mut self, n: usize) -> Result<u64, String> {
        let mut v = 0u64;
        for &x in self.take(n)? {
            v = v * 256 + x as u64;
        }
        Ok(v)
    }
    fn cstr(&mut self) -> Result<Vec<u8>, String> {
        let rest = &self.b[self.p..];
        let Some(z) = rest.iter().position(|&x| x == 0) else {
            return Err(format!("unterminated string at offset {}", self.p));
        };
        let s = rest[..z].to_vec();
        self.p += z + 1;
        Ok(s)
    }
    fn tags(&mut self, count: usize, n: usize) -> Result<Vec<RawTag>, String> {
        let mask_len = n / 8 + usize::from(n % 8 != 0);
        let mut v = Vec::new();
        for _ in 0..count {
            let name = self.cstr()?;
            let ty = self.be(2)? as u16;
            let mask_at = self.p;
            self.take(mask_len)?;
            v.push(RawTag { name, ty, mask_at, mask_len });
        }
        Ok(v)
    }
    fn end(&self) -> Result<(), String> {
        if self.p != self.b.len() {
            return Err(format!("{} trailing bytes after offset {}", self.b.len() - self.p, self.p));
        }
        Ok(())
    }
}

/// bit i of the tag, read the way other NGDP tools do (MSB first)
pub fn bit(bytes: &[u8], t: &RawTag, i: usize) -> bool {
    let byte = bytes[t.mask_at + (i >> 3)];
    ((byte as u32) << (i & 7)) & 0x80 != 0
}

/// bit i of a bare mask
pub fn mask_bit(mask: &[u8], i: usize) -> bool {
    match mask.get(i >> 3) {
        None => false,
        Some(&byte) => ((byte as u32) << (i & 7)) & 0x80 != 0,
    }
}

pub fn read_install(b: &[u8]) -> Result<Raw, String> {
    let mut c = Cur { b, p: 0 };
    if c.take(2)? != b"IN" {
        return Err("magic".into());
    }
    let version = c.be(1)? as u8;
    let ckey_len = c.be(1)? as usize;
    let tag_count = c.be(2)? as usize;
    let n = c.be(4)? as usize;
    if version == 2 {
        c.take(6)?;
    } else if version != 1 {
        return Err(format!("version {version}"));
    }
    let mut r = Raw { version, n, ..Raw::default() };
    r.tags = c.tags(tag_count, n)?;
    for _ in 0..n {
        r.ids.push(c.cstr()?);
        r.keys.push(c.take(ckey_len)?.to_vec());
        r.sizes.push(c.be(4)?);
        if version == 2 {
            c.take(1)?;
        }
    }
    c.end()?;
    Ok(r)
}

pub fn read_download(b: &[u8]) -> Result<Raw, String> {
    let mut c = Cur { b, p: 0 };
    if c.take(2)? != b"DL" {
        return Err("magic".into());
    }
    let version = c.be(1)? as u8;
    let ekey_len = c.be(1)? as usize;
    let has_checksum = c.be(1)? != 0;
    let n = c.be(4)? as usize;
    let tag_count = c.be(2)? as usize;
    let mut flag_size = 0u8;
    let mut base_priority = 0i8;
    match version {
        1 => {}
        2 => flag_size = c.be(1)? as u8,
        3 => {
            flag_size = c.be(1)? as u8;
            base_priority = c.be(1)? as u8 as i8;
            c.take(3)?;
        }
        v => return Err(format!("version {v}")),
    }
    let mut r = Raw { version, n, base_priority, has_checksum, flag_size, ..Raw::default() };
    for _ in 0..n {
        let k = c.take(ekey_len)?.to_vec();
        r.ids.push(k.clone());
        r.keys.push(k);
        r.sizes.push(c.be(5)?);
        r.prios.push(c.be(1)? as u8 as i8);
        r.checksums.push(if has_checksum { Some(c.be(4)? as u32) } else { None });
        r.flags.push(c.take(flag_size as usize)?.to_vec());
    }
    r.tags = c.tags(tag_count, n)?;
    c.end()?;
    Ok(r)
}

pub fn read_size(b: &[u8]) -> Result<Raw, String> {
    let mut c = Cur { b, p: 0 };
    if c.take(2)? != b"DS" {
        return Err("magic".into());
    }
    let version = c.be(1)? as u8;
    let ekey = c.be(1)? as usize;
    let n = c.be(4)? as usize;
    let tag_count = c.be(2)? as usize;
    let (total, w) = match version {
        1 => {
            let t = c.be(8)?;
            (t, c.be(1)? as usize)
        }
        2 => (c.be(5)?, 4),
        v => return Err(format!("version {v}")),
    };
    let mut r = Raw { version, n, header_total: Some(total), ..Raw::default() };
    r.tags = c.tags(tag_count, n)?;
    for _ in 0..n {
        let k = c.take(ekey)?.to_vec();
        r.ids.push(k.clone());
        r.keys.push(k);
        r.sizes.push(c.be(w)?);
    }
    c.end()?;
    Ok(r)
}

pub struct RawFacts {
    pub padding_nonzero: bool,
}

/// Compare what the independent reader sees with the model.  `ids` tells how a
/// file is identified in this format (path bytes or key bytes).
pub fn check_raw(fmt: &str, bytes: &[u8], raw: &Raw, m: &Model, ident: &dyn Fn(usize) -> Vec<u8>) -> Result<RawFacts, (String, String)> {
    let n = m.n();
    if raw.n != n || raw.tags.len() != m.tags.len() {
        return Err((
            format!("C19:{fmt}:raw:header-counts"),
            format!("header says {} files / {} tags, model has {} / {}", raw.n, raw.tags.len(), n, m.tags.len()),
        ));
    }
    let want_len = n.div_ceil(8);
    let mut padding_nonzero = false;
    for (pos, (rt, mt)) in raw.tags.iter().zip(&m.tags).enumerate() {
        let want_name = tag_name(mt.name_id);
        if rt.name != want_name.as_bytes() || rt.ty != tag_type_wire(mt.ty) {
            return Err((
                format!("C19:{fmt}:raw:tag-name-or-type"),
                format!("tag #{pos}: on disk name={:?} type={:#06x}, expected {:?} {:#06x}", String::from_utf8_lossy(&rt.name), rt.ty, want_name, tag_type_wire(mt.ty)),
            ));
        }
        if rt.mask_len != want_len {
            return Err((format!("C19:{fmt}:raw:mask-length"), format!("tag #{pos}: {} bytes for {n} files", rt.mask_len)));
        }
        for i in 0..n {
            let want = mt.set.contains(&m.files[i]);
            let got = bit(bytes, rt, i);
            if got != want {
                return Err((
                    format!("C19:{fmt}:raw:bit-mismatch"),
                    format!(
                        "tag #{pos} {:?}: file {i} of {n}: byte {} mask {:#04x} is {} on disk, association is {}; mask={}",
                        want_name,
                        i / 8,
                        0x80u8 >> (i % 8),
                        got,
                        want,
                        hex(&bytes[rt.mask_at..rt.mask_at + rt.mask_len])
                    ),
                ));
            }
        }
        for i in n..want_len * 8 {
            if bit(bytes, rt, i) {
                padding_nonzero = true;
            }
        }
    }
    for i in 0..n {
        if raw.ids[i] != ident(i) {
            return Err((
                format!("C19:{fmt}:raw:file-order"),
                format!("file {i}: on disk id {}, expected {}", hex(&raw.ids[i]), hex(&ident(i))),
            ));
        }
        if raw.sizes[i] != m.size_at(i) {
            return Err((format!("C19:{fmt}:raw:file-size"), format!("file {i}: on disk size {}, expected {}", raw.sizes[i], m.size_at(i))));
        }
    }
    Ok(RawFacts { padding_nonzero })
}
