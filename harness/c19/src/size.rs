//! Size manifest ("DS"): builder round trip — tag bits and the header total.

use crate::common::*;
use crate::install::{F, MAX_FILES, MAX_TAGS};
use crate::raw;
use cascette_formats::size::{SizeManifest, SizeManifestBuilder};
use serde::{Deserialize, Serialize};
use vh_engine::Verdict;
use vh_engine::pick_idx;
use vh_engine::util::Rng;

#[derive(Debug, Clone, Serialize, Deserialize)]
pub enum SOp {
    AddTag { name: u8, ty: u8 },
    AddEntries { n: u16 },
    /// tag_file(tag, file): the file may be added later (the builder sizes masks at build time)
    TagFile { tag: u16, file: u16 },
    TagPattern { tag: u16, pat: u8, salt: u32 },
    /// literal tag position / file index (used by the exhaustive section); skipped when out of range
    TagExact { tag: u16, file: u16 },
}

#[derive(Debug, Clone, Serialize, Deserialize)]
pub struct SizeCase {
    pub version: u8,
    pub ekey_size: u8,
    pub esize_bytes: u8,
    pub ops: Vec<SOp>,
    pub seed: u64,
}

pub fn check(c: &SizeCase) -> Verdict {
    let version = c.version.clamp(1, 2);
    let ekey = c.ekey_size.clamp(1, 16);
    let w = if version == 2 { 4 } else { c.esize_bytes.clamp(1, 8) };
    // final entry count is known up front: tag_file may only name files that will exist
    let mut total_n = 0usize;
    for op in &c.ops {
        if let SOp::AddEntries { n } = op {
            total_n = (total_n + *n as usize).min(MAX_FILES);
        }
    }
    // domain: every esize fits its field and the total fits the header field (40 bit in v2, u64 in v1)
    let field_max = if w == 8 { u64::MAX } else { (1u64 << (8 * w as u32)) - 1 };
    let total_max = if version == 2 { (1u64 << 40) - 1 } else { u64::MAX };
    let cap = field_max.min(total_max / total_n.max(1) as u64);

    let mut b = SizeManifestBuilder::new().version(version).ekey_size(ekey).esize_bytes(w);
    let mut m = Model::default();
    let mut early_tagging = false;
    for op in &c.ops {
        let nt = m.tags.len();
        match op {
            SOp::AddTag { name, ty } => {
                let (name, ty) = (*name % NAME_POOL, *ty % 17);
                if !m.name_live(name) && nt < MAX_TAGS {
                    b = b.add_tag(tag_name(name), tag_type(ty));
                    m.add_tag(name, ty);
                }
            }
            SOp::AddEntries { n } => {
                for _ in 0..*n {
                    if m.n() >= MAX_FILES {
                        break;
                    }
                    let uid = m.info.len() as u32;
                    let mut r = Rng::new(c.seed ^ ((uid as u64) << 24) ^ 0xd5);
                    let esize = match r.below(6) {
                        0 => 0,
                        1 => cap,
                        2 => cap.min(1),
                        3 => r.below(cap.saturating_add(1).max(1)),
                        _ => r.below(cap.min(1 << 20) + 1),
                    };
                    let key = key_for(c.seed, uid, 0)[..ekey as usize].to_vec();
                    b = b.add_entry(key.clone(), esize);
                    let mut k16 = [0u8; 16];
                    k16[..key.len()].copy_from_slice(&key);
                    m.new_uid(FileInfo { size: esize, key: k16, ..FileInfo::default() });
                }
            }
            SOp::TagFile { tag, file } => {
                if nt > 0 && total_n > 0 {
                    let (tp, f) = (pick_idx(*tag, nt), pick_idx(*file, total_n));
                    b = b.tag_file(tp, f);
                    early_tagging |= f >= m.n();
                    // uid == index: entries are never removed in this builder
                    m.tags[tp].set.insert(f as u32);
                }
            }
            SOp::TagExact { tag, file } => {
                let (tp, f) = (*tag as usize, *file as usize);
                if tp < nt && f < total_n {
                    b = b.tag_file(tp, f);
                    early_tagging |= f >= m.n();
                    m.tags[tp].set.insert(f as u32);
                }
            }
            SOp::TagPattern { tag, pat, salt } => {
                if nt > 0 {
                    let tp = pick_idx(*tag, nt);
                    for f in pattern_files(*pat, *salt, total_n) {
                        b = b.tag_file(tp, f);
                        early_tagging |= f >= m.n();
                        m.tags[tp].set.insert(f as u32);
                    }
                }
            }
        }
    }
    let n = m.n();
    debug_assert_eq!(n, total_n);
    let man = match b.build() {
        Ok(x) => x,
        Err(e) => return Verdict::fail("C19:size:build-failed", format!("{e:?} (entries={n} tags={})", m.tags.len())),
    };
    let bytes = match man.build() {
        Ok(x) => x,
        Err(e) => return Verdict::fail("C19:size:serialize-failed", format!("{e:?}")),
    };
    let parsed = match SizeManifest::parse(&bytes) {
        Ok(x) => x,
        Err(e) => return Verdict::fail("C19:size:parse-failed", format!("{e:?} (v{version} entries={n} tags={} w={w})", m.tags.len())),
    };
    match verify(&m, ekey as usize, &bytes, &parsed) {
        Err((k, msg)) => Verdict::fail(k, msg),
        Ok(padding) => Verdict::pass()
            .nontrivial(n % 8 != 0 && m.last_tagged())
            .class_if(n % 8 != 0, "n%8!=0")
            .class_if(n % 8 != 0 && m.last_tagged(), "ragged+last-tagged")
            .class_if(early_tagging, "tagged-before-entry-added")
            .class_if(version == 1, "v1")
            .class_if(version == 2, "v2")
            .class_if(n == 0, "no-entries")
            .class_if(m.tags.is_empty(), "no-tags")
            .class_if(n > 64, "entries>64")
            .class_if(padding, "padding-bits-nonzero"),
    }
}

fn verify(m: &Model, ekey: usize, bytes: &[u8], parsed: &SizeManifest) -> Result<bool, F> {
    let n = m.n();
    let raw = raw::read_size(bytes).map_err(|e| ("C19:size:raw:layout".to_string(), e))?;
    let facts = raw::check_raw("size", bytes, &raw, m, &|i| m.fi(i).key[..ekey].to_vec())?;
    let total: u64 = (0..n).map(|i| m.size_at(i)).sum();
    if raw.header_total != Some(total) {
        return Err(("C19:size:raw:total".into(), format!("header total {:?}, sum of entries {total}", raw.header_total)));
    }
    if parsed.header.total_size() != total || parsed.header.entry_count() as usize != n {
        return Err(("C19:size:query:total".into(), format!("total_size()={} want {total}", parsed.header.total_size())));
    }
    if parsed.entries.len() != n || parsed.tags.len() != m.tags.len() {
        return Err(("C19:size:parsed:counts".into(), format!("{} entries / {} tags", parsed.entries.len(), parsed.tags.len())));
    }
    for i in 0..n {
        if parsed.entries[i].esize != m.size_at(i) || parsed.entries[i].key != m.fi(i).key[..ekey] {
            return Err(("C19:size:parsed:entry".into(), format!("entry {i}: esize {} want {}", parsed.entries[i].esize, m.size_at(i))));
        }
    }
    for pos in 0..m.tags.len() {
        let want = m.indices(pos);
        let t = &parsed.tags[pos];
        if t.name != tag_name(m.tags[pos].name_id) || t.get_files(n) != want {
            return Err(("C19:size:query:tag-get-files".into(), format!("tag #{pos} {:?} n={n}: got {:?} want {:?}", t.name, t.get_files(n), want)));
        }
    }
    Ok(facts.padding_nonzero)
}
