//! C19 — install and download manifests select exactly the tagged files.
//!
//! Builder programs (install, download, size) -> build -> bytes -> parse, judged
//! against a set model (tag -> set of file uids) and against an independent
//! reader of the serialized bytes that finds bit i of a tag at byte i/8,
//! mask 0x80 >> (i % 8), with masks of exactly ceil(n/8) bytes.

mod common;
mod download;
mod install;
mod raw;
mod size;

use common::{NAME_POOL, Pat};
use download::{DOp, DRun, DownloadCase};
use install::{IOp, IRun, InstallCase};
use proptest::collection::vec;
use proptest::prelude::*;
use serde::{Deserialize, Serialize};
use size::{SOp, SizeCase};
use vh_engine::util::splitmix64;
use vh_engine::{Check, Section, Verdict};

// ---------------------------------------------------------------- exhaustive

#[derive(Debug, Clone, Serialize, Deserialize)]
struct ExCase {
    /// 0 install, 1 download, 2 size
    fmt: u8,
    n: u16,
    pat: Pat,
    /// the judged tag is added before the files (else after)
    tag_first: bool,
}

fn dl_cfg(n: usize, salt: u64) -> DownloadCase {
    let version = 1 + (n % 3) as u8;
    DownloadCase {
        version,
        checksums: n % 2 == 0,
        flag_size: if version >= 2 { ((n / 3) % 5) as u8 } else { 0 },
        base_priority: if version == 3 { (n as i32 - 35) as i8 } else { 0 },
        ops: vec![],
        seed: splitmix64(salt ^ n as u64),
    }
}

fn check_ex(c: &ExCase, salt: u64) -> Verdict {
    let n = c.n as usize;
    let files = c.pat.files(n);
    let rest: Vec<usize> = (0..n).filter(|i| !files.contains(i)).collect();
    // tag T (name 0, Platform) carries the pattern, tag C (name 4, Architecture) its complement
    let (t_pos, c_pos) = if c.tag_first { (0, 1) } else { (1, 0) };
    let fail = |(k, m): (String, String)| Verdict::fail(k, m);
    match c.fmt {
        0 => {
            let mut r = IRun::new(splitmix64(salt ^ n as u64));
            if c.tag_first {
                r.add_tag(0, 0);
            } else {
                r.add_tag(4, 1);
            }
            r.add_files(n);
            if c.tag_first {
                r.add_tag(4, 1);
            } else {
                r.add_tag(0, 0);
            }
            for (j, &f) in files.iter().enumerate() {
                // by name / by index / "last" when it is the last file
                let how = if f + 1 == n && j % 2 == 0 { 2 } else { (j % 2) as u8 };
                if let Err(e) = r.assoc(f, t_pos, how) {
                    return fail(e);
                }
            }
            if let Err(e) = r.assoc_many(&rest, c_pos) {
                return fail(e);
            }
            r.finish(n % 2 == 1, salt ^ 0xe1 ^ n as u64)
        }
        1 => {
            let cfg = dl_cfg(n, salt);
            let mut r = match DRun::new(&cfg) {
                Ok(r) => r,
                Err(e) => return fail(e),
            };
            if c.tag_first {
                r.add_tag(0, 0);
            } else {
                r.add_tag(4, 1);
            }
            if let Err(e) = r.add_files(n) {
                return fail(e);
            }
            if c.tag_first {
                r.add_tag(4, 1);
            } else {
                r.add_tag(0, 0);
            }
            for &f in &files {
                if let Err(e) = r.assoc(f, t_pos) {
                    return fail(e);
                }
            }
            for &f in &rest {
                if let Err(e) = r.assoc(f, c_pos) {
                    return fail(e);
                }
            }
            r.finish(salt ^ 0xe2 ^ n as u64)
        }
        _ => {
            // size: "tag first" = files are tagged before the entries exist
            let mut ops = vec![];
            let tagging = |ops: &mut Vec<SOp>| {
                ops.push(SOp::AddTag { name: 0, ty: 0 });
                ops.push(SOp::AddTag { name: 4, ty: 1 });
                for &f in &files {
                    ops.push(SOp::TagExact { tag: 0, file: f as u16 });
                }
                for &f in &rest {
                    ops.push(SOp::TagExact { tag: 1, file: f as u16 });
                }
            };
            if c.tag_first {
                tagging(&mut ops);
                ops.push(SOp::AddEntries { n: c.n });
            } else {
                ops.push(SOp::AddEntries { n: c.n });
                tagging(&mut ops);
            }
            size::check(&SizeCase { version: 1 + (n % 2) as u8, ekey_size: 1 + (n % 16) as u8, esize_bytes: 1 + (n % 8) as u8, ops, seed: splitmix64(salt ^ n as u64) })
        }
    }
}

fn ex_iter(fmt: u8) -> Box<dyn Iterator<Item = ExCase> + Send> {
    Box::new((0..=70u16).flat_map(move |n| {
        let pats = (0..n).map(Pat::Single).chain([Pat::All, Pat::Even, Pat::Odd]);
        pats.flat_map(move |pat| [true, false].into_iter().map(move |tag_first| ExCase { fmt, n, pat, tag_first }))
    }))
}

#[derive(Debug, Clone, Serialize, Deserialize)]
struct RmCase {
    /// 0 install, 1 download
    fmt: u8,
    n: u16,
    /// index of the removed file
    r: u16,
    /// 0 all, 1 even, 2 odd, 3 neighbours of r, 4 only r, 5 only the last file, 6 pseudo-random half
    pat: u8,
    tag_first: bool,
}

fn check_rm(c: &RmCase, salt: u64) -> Verdict {
    let n = c.n as usize;
    let r = c.r as usize;
    let files: Vec<usize> = match c.pat {
        0 => (0..n).collect(),
        1 => (0..n).step_by(2).collect(),
        2 => (1..n).step_by(2).collect(),
        3 => [r.wrapping_sub(1), r + 1].into_iter().filter(|&i| i < n).collect(),
        4 => vec![r],
        5 => vec![n - 1],
        _ => (0..n).filter(|&i| splitmix64(salt ^ ((n as u64) << 40) ^ ((r as u64) << 20) ^ i as u64) & 1 == 0).collect(),
    };
    let rest: Vec<usize> = (0..n).filter(|i| !files.contains(i)).collect();
    let (t_pos, c_pos) = if c.tag_first { (0, 1) } else { (1, 0) };
    let fail = |(k, m): (String, String)| Verdict::fail(k, m);
    if c.fmt == 0 {
        let mut run = IRun::new(splitmix64(salt ^ n as u64));
        if c.tag_first {
            run.add_tag(0, 0);
        } else {
            run.add_tag(4, 1);
        }
        run.add_files(n);
        if c.tag_first {
            run.add_tag(4, 1);
        } else {
            run.add_tag(0, 0);
        }
        if let Err(e) = run.assoc_many(&files, t_pos).and_then(|()| run.assoc_many(&rest, c_pos)).and_then(|()| run.remove_file(r)) {
            return fail(e);
        }
        run.finish((n + r) % 2 == 1, salt ^ 0xe3 ^ n as u64)
    } else {
        let cfg = dl_cfg(n + r, salt);
        let mut run = match DRun::new(&cfg) {
            Ok(x) => x,
            Err(e) => return fail(e),
        };
        if c.tag_first {
            run.add_tag(0, 0);
        } else {
            run.add_tag(4, 1);
        }
        if let Err(e) = run.add_files(n) {
            return fail(e);
        }
        if c.tag_first {
            run.add_tag(4, 1);
        } else {
            run.add_tag(0, 0);
        }
        for &f in &files {
            if let Err(e) = run.assoc(f, t_pos) {
                return fail(e);
            }
        }
        for &f in &rest {
            if let Err(e) = run.assoc(f, c_pos) {
                return fail(e);
            }
        }
        if let Err(e) = run.remove_file(r, (n + r) % 2 == 0) {
            return fail(e);
        }
        run.finish(salt ^ 0xe4 ^ n as u64)
    }
}

fn rm_iter(fmt: u8) -> Box<dyn Iterator<Item = RmCase> + Send> {
    Box::new((1..=70u16).flat_map(move |n| {
        (0..n).flat_map(move |r| (0..7u8).flat_map(move |pat| [true, false].into_iter().map(move |tag_first| RmCase { fmt, n, r, pat, tag_first })))
    }))
}

// ---------------------------------------------------------------- random programs

fn files_burst() -> impl Strategy<Value = u16> {
    prop_oneof![4 => 1u16..=3, 3 => 1u16..=20, 1 => 1u16..=90]
}

fn prelude_sizes() -> impl Strategy<Value = (u8, u16, bool, u8)> {
    (
        prop_oneof![1 => Just(0u8), 6 => 1u8..=6, 3 => 0u8..=20],
        prop_oneof![3 => 0u16..=12, 4 => 0u16..=72, 2 => 0u16..=300],
        any::<bool>(),
        0..NAME_POOL,
    )
}

fn iop() -> impl Strategy<Value = IOp> {
    prop_oneof![
        5 => (prop_oneof![5 => 0..NAME_POOL, 1 => NAME_POOL..NAME_POOL + 8], 0u8..17).prop_map(|(name, ty)| IOp::AddTag { name, ty }),
        5 => files_burst().prop_map(|n| IOp::AddFiles { n }),
        3 => vec(any::<u16>(), 0..4).prop_map(|tags| IOp::AddFileWithTags { tags }),
        8 => (any::<u16>(), any::<u16>(), 0u8..3).prop_map(|(file, tag, how)| IOp::Assoc { file, tag, how }),
        5 => (any::<u16>(), 0u8..8, any::<u32>()).prop_map(|(tag, pat, salt)| IOp::AssocPattern { tag, pat, salt }),
        3 => (any::<u16>(), any::<u16>(), any::<bool>()).prop_map(|(file, tag, member)| IOp::Dissoc { file, tag, member }),
        5 => prop_oneof![any::<u16>(), Just(0u16), Just(u16::MAX)].prop_map(|file| IOp::RemoveFile { file }),
        2 => any::<u16>().prop_map(|tag| IOp::RemoveTag { tag }),
        1 => (0u8..7, 0u8..40).prop_map(|(kind, delta)| IOp::Bad { kind, delta }),
        1 => any::<bool>().prop_map(|via_bytes| IOp::Reload { via_bytes }),
    ]
}

fn install_case() -> BoxedStrategy<InstallCase> {
    (prelude_sizes(), vec(iop(), 0..40), any::<bool>(), any::<u64>())
        .prop_map(|((pre_tags, pre_files, tags_first, off), body, v2, seed)| {
            let mut ops = Vec::new();
            let tags = |ops: &mut Vec<IOp>| {
                for i in 0..pre_tags {
                    ops.push(IOp::AddTag { name: (off + i) % NAME_POOL, ty: i.wrapping_mul(5) % 17 });
                }
            };
            if tags_first {
                tags(&mut ops);
            }
            if pre_files > 0 {
                ops.push(IOp::AddFiles { n: pre_files });
            }
            if !tags_first {
                tags(&mut ops);
            }
            ops.extend(body);
            InstallCase { ops, v2, seed }
        })
        .boxed()
}

fn size40() -> impl Strategy<Value = u64> {
    prop_oneof![
        Just(0u64),
        Just(1u64),
        Just(u32::MAX as u64),
        Just(u32::MAX as u64 + 1),
        Just(download::MAX40),
        0u64..=download::MAX40,
        0u64..65536,
    ]
}

fn prio() -> impl Strategy<Value = i8> {
    prop_oneof![2 => any::<i8>(), 2 => -3i8..=8, 1 => prop_oneof![Just(i8::MIN), Just(i8::MAX), Just(-1i8), Just(0i8)]]
}

fn dop() -> impl Strategy<Value = DOp> {
    prop_oneof![
        5 => (prop_oneof![5 => 0..NAME_POOL, 1 => NAME_POOL..NAME_POOL + 8], 0u8..17).prop_map(|(name, ty)| DOp::AddTag { name, ty }),
        5 => files_burst().prop_map(|n| DOp::AddFiles { n }),
        3 => (size40(), prio(), vec(any::<u16>(), 0..4), proptest::option::of(any::<u32>()), any::<bool>())
            .prop_map(|(size, prio, tags, checksum, flags)| DOp::AddFileProps { size, prio, tags, checksum, flags }),
        7 => (any::<u16>(), any::<u16>()).prop_map(|(file, tag)| DOp::Assoc { file, tag }),
        2 => (any::<u16>(), vec(any::<u16>(), 0..4)).prop_map(|(file, tags)| DOp::AssocTags { file, tags }),
        5 => (any::<u16>(), 0u8..8, any::<u32>()).prop_map(|(tag, pat, salt)| DOp::AssocPattern { tag, pat, salt }),
        3 => (any::<u16>(), any::<u16>(), any::<bool>()).prop_map(|(file, tag, member)| DOp::Dissoc { file, tag, member }),
        4 => prop_oneof![any::<u16>(), Just(0u16), Just(u16::MAX)].prop_map(|file| DOp::RemoveFile { file }),
        2 => any::<u16>().prop_map(|file| DOp::RemoveFileByKey { file }),
        2 => any::<u16>().prop_map(|tag| DOp::RemoveTag { tag }),
        1 => (any::<u16>(), any::<u32>()).prop_map(|(file, v)| DOp::SetChecksum { file, v }),
        1 => (any::<u16>(), any::<u32>()).prop_map(|(file, salt)| DOp::SetFlags { file, salt }),
        1 => (any::<u16>(), any::<u32>(), any::<u32>()).prop_map(|(file, v, salt)| DOp::Configure { file, v, salt }),
        1 => (any::<u16>(), size40()).prop_map(|(file, size)| DOp::UpdateSize { file, size }),
        2 => (any::<u16>(), prio()).prop_map(|(file, prio)| DOp::UpdatePriority { file, prio }),
        1 => any::<u16>().prop_map(|file| DOp::UpdateKey { file }),
        1 => (0u8..12, 0u8..40).prop_map(|(kind, delta)| DOp::Bad { kind, delta }),
        1 => any::<bool>().prop_map(|via_bytes| DOp::Reload { via_bytes }),
    ]
}

fn download_case() -> BoxedStrategy<DownloadCase> {
    (
        prelude_sizes(),
        vec(dop(), 0..40),
        (1u8..=3, any::<bool>(), 0u8..=4, prop_oneof![2 => Just(0i8), 2 => -12i8..=12, 1 => any::<i8>()]),
        any::<u64>(),
    )
        .prop_map(|((pre_tags, pre_files, tags_first, off), body, (version, checksums, flag_size, base), seed)| {
            let mut ops = Vec::new();
            let tags = |ops: &mut Vec<DOp>| {
                for i in 0..pre_tags {
                    ops.push(DOp::AddTag { name: (off + i) % NAME_POOL, ty: i.wrapping_mul(5) % 17 });
                }
            };
            if tags_first {
                tags(&mut ops);
            }
            if pre_files > 0 {
                ops.push(DOp::AddFiles { n: pre_files });
            }
            if !tags_first {
                tags(&mut ops);
            }
            ops.extend(body);
            DownloadCase {
                version,
                checksums,
                flag_size: if version >= 2 { flag_size } else { 0 },
                base_priority: if version >= 3 { base } else { 0 },
                ops,
                seed,
            }
        })
        .boxed()
}

fn sop() -> impl Strategy<Value = SOp> {
    prop_oneof![
        3 => (0..NAME_POOL, 0u8..17).prop_map(|(name, ty)| SOp::AddTag { name, ty }),
        3 => files_burst().prop_map(|n| SOp::AddEntries { n }),
        6 => (any::<u16>(), any::<u16>()).prop_map(|(tag, file)| SOp::TagFile { tag, file }),
        3 => (any::<u16>(), 0u8..8, any::<u32>()).prop_map(|(tag, pat, salt)| SOp::TagPattern { tag, pat, salt }),
    ]
}

fn size_case() -> BoxedStrategy<SizeCase> {
    (prelude_sizes(), vec(sop(), 0..30), 1u8..=2, 1u8..=16, 1u8..=8, any::<u64>())
        .prop_map(|((pre_tags, pre_files, tags_first, off), body, version, ekey_size, esize_bytes, seed)| {
            let mut ops = Vec::new();
            let tags = |ops: &mut Vec<SOp>| {
                for i in 0..pre_tags {
                    ops.push(SOp::AddTag { name: (off + i) % NAME_POOL, ty: i.wrapping_mul(5) % 17 });
                }
            };
            if tags_first {
                tags(&mut ops);
            }
            if pre_files > 0 {
                ops.push(SOp::AddEntries { n: pre_files });
            }
            if !tags_first {
                tags(&mut ops);
            }
            ops.extend(body);
            SizeCase { version, ekey_size, esize_bytes, ops, seed }
        })
        .boxed()
}

fn main() {
    let mut ck = Check::from_args("C19", "exploration");
    let tier = ck.tier;
    let seed = ck.seed;
    ck.extra(
        "rule",
        "builder program (install / download V1-V3 / size V1-V2) -> build -> bytes -> parse, judged against a set model (tag -> set of file \
         uids; remove_file drops the uid) and an independent MSB-first reader of the serialized tag masks; non-trivial = final file count not \
         a multiple of 8 with the last file tagged, or a remove_file executed while some tag had an association; distinct by case hash"
            .into(),
    );
    ck.assume("tag names are unique among live tags and NUL-free; paths NUL-free; encoding keys unique per file (remove_file_by_key is unambiguous)");
    ck.assume("download builder configuration (version, checksums, flag size, base priority) is set before the first file, as in the rustdoc example; missing checksums are set before build");
    ck.assume("size manifest: every esize fits esize_bytes and the total fits the header field (40 bit in V2); tag_file only names files that exist at build time");
    ck.assume("install V2 manifests are obtained by rewriting the builder's V1 result with InstallHeader::new_v2 / InstallFileEntry::new_v2 (the builder itself only emits V1)");
    ck.assume("all-of query with an empty tag list is not judged for install (returns nothing by design); plan ordering, stats().tagged_files and large_file_count are outside the statement");

    for (fmt, name, scope) in [
        (0u8, "install-exhaustive", "install: every file count 0..=70 x {each single index set, all, even, odd} x judged tag added before/after the files (complement on a second tag); V1 for even n, V2 for odd n"),
        (1u8, "download-exhaustive", "download: every file count 0..=70 x {each single index set, all, even, odd} x judged tag added before/after the files; version = 1 + n%3, checksums n even, flag size (n/3)%5, base priority n-35"),
        (2u8, "size-exhaustive", "size: every entry count 0..=70 x {each single index set, all, even, odd} x files tagged before/after the entries are added; version 1 + n%2, ekey 1 + n%16, esize width 1 + n%8"),
    ] {
        ck.run(Section::enumerate(name, scope, move || ex_iter(fmt), move |c: &ExCase| check_ex(c, seed)).shards(12));
    }
    for (fmt, name, scope) in [
        (0u8, "install-remove-exhaustive", "install: every file count 1..=70 x every removed index x 7 association patterns (all, even, odd, neighbours of r, only r, only last, random half) x tag before/after files, one remove_file"),
        (1u8, "download-remove-exhaustive", "download: every file count 1..=70 x every removed index x 7 association patterns x tag before/after files, one remove_file / remove_file_by_key (alternating)"),
    ] {
        ck.run(Section::enumerate(name, scope, move || rm_iter(fmt), move |c: &RmCase| check_rm(c, seed)).shards(12));
    }

    ck.run(Section::pbt("install-programs", tier.pick(60_000, 5_000_000), install_case, install::check).shards(12));
    ck.run(Section::pbt("download-programs", tier.pick(60_000, 5_000_000), download_case, download::check).shards(12));
    ck.run(Section::pbt("size-programs", tier.pick(15_000, 1_500_000), size_case, size::check).shards(12));

    ck.finish();
}
