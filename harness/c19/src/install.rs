//! Install manifest: builder programs, model, oracle.

use crate::common::*;
use crate::raw;
use cascette_crypto::ContentKey;
use cascette_formats::install::{InstallFileEntry, InstallHeader, InstallManifest, InstallManifestBuilder};
use serde::{Deserialize, Serialize};
use vh_engine::Verdict;
use vh_engine::pick_idx;
use vh_engine::util::Rng;

pub type F = (String, String);

pub const MAX_FILES: usize = 300;
pub const MAX_TAGS: usize = 20;

#[derive(Debug, Clone, Serialize, Deserialize)]
pub enum IOp {
    AddTag { name: u8, ty: u8 },
    AddFiles { n: u16 },
    AddFileWithTags { tags: Vec<u16> },
    /// how%3: 0 by name, 1 by (file index, tag index), 2 associate_last_file_with_tag
    Assoc { file: u16, tag: u16, how: u8 },
    /// associate_files_with_tag (batch) with a pattern over the current files
    AssocPattern { tag: u16, pat: u8, salt: u32 },
    Dissoc { file: u16, tag: u16, member: bool },
    RemoveFile { file: u16 },
    RemoveTag { tag: u16 },
    /// documented error cases (out-of-range file, unknown tag): must leave the manifest unchanged
    Bad { kind: u8, delta: u8 },
    /// build -> [bytes -> parse] -> from_manifest, then continue
    Reload { via_bytes: bool },
}

#[derive(Debug, Clone, Serialize, Deserialize)]
pub struct InstallCase {
    pub ops: Vec<IOp>,
    /// rewrite the built manifest as a version 2 manifest (16-byte header, file_type byte)
    pub v2: bool,
    pub seed: u64,
}

pub struct IRun {
    b: InstallManifestBuilder,
    pub m: Model,
    seed: u64,
}

fn rejected(what: &str, e: impl std::fmt::Debug) -> F {
    ("C19:install:builder-rejected-valid-op".into(), format!("{what}: {e:?}"))
}

impl IRun {
    pub fn new(seed: u64) -> Self {
        IRun { b: InstallManifestBuilder::new(), m: Model::default(), seed }
    }
    fn take(&mut self) -> InstallManifestBuilder {
        std::mem::take(&mut self.b)
    }
    pub fn add_tag(&mut self, name: u8, ty: u8) {
        if self.m.name_live(name) || self.m.tags.len() >= MAX_TAGS {
            return;
        }
        self.b = self.take().add_tag(tag_name(name), tag_type(ty));
        self.m.add_tag(name, ty);
    }
    fn new_file(&mut self) -> FileInfo {
        let uid = self.m.info.len() as u32;
        let path = match uid % 9 {
            0 => format!("Data\\sub dir\\file_{uid}.bin"),
            1 => format!("ünï/{uid}.dåt"),
            2 => format!("{uid}"),
            _ => format!("d{}/file_{uid}.bin", uid % 7),
        };
        FileInfo { size: size32_for(self.seed, uid) as u64, key: key_for(self.seed, uid, 0), path, ..FileInfo::default() }
    }
    pub fn add_files(&mut self, n: usize) {
        for _ in 0..n {
            if self.m.n() >= MAX_FILES {
                return;
            }
            let fi = self.new_file();
            self.b = self.take().add_file(fi.path.clone(), ContentKey::from_bytes(fi.key), fi.size as u32);
            self.m.new_uid(fi);
        }
    }
    pub fn add_file_with_tags(&mut self, tag_pos: &[usize]) -> Result<(), F> {
        if self.m.n() >= MAX_FILES {
            return Ok(());
        }
        let fi = self.new_file();
        let names: Vec<String> = tag_pos.iter().map(|&p| tag_name(self.m.tags[p].name_id)).collect();
        let refs: Vec<&str> = names.iter().map(String::as_str).collect();
        self.b = self
            .take()
            .add_file_with_tags(fi.path.clone(), ContentKey::from_bytes(fi.key), fi.size as u32, &refs)
            .map_err(|e| rejected("add_file_with_tags", e))?;
        let uid = self.m.new_uid(fi);
        for &p in tag_pos {
            self.m.tags[p].set.insert(uid);
        }
        Ok(())
    }
    pub fn assoc(&mut self, file: usize, tag_pos: usize, how: u8) -> Result<(), F> {
        let name = tag_name(self.m.tags[tag_pos].name_id);
        let b = self.take();
        let (b, file) = match how % 3 {
            0 => (b.associate_file_with_tag(file, &name).map_err(|e| rejected("associate_file_with_tag", e))?, file),
            1 => (b.associate_file_with_tag_by_index(file, tag_pos).map_err(|e| rejected("associate_file_with_tag_by_index", e))?, file),
            _ => (b.associate_last_file_with_tag(&name).map_err(|e| rejected("associate_last_file_with_tag", e))?, self.m.n() - 1),
        };
        self.b = b;
        let uid = self.m.files[file];
        self.m.tags[tag_pos].set.insert(uid);
        Ok(())
    }
    pub fn assoc_many(&mut self, files: &[usize], tag_pos: usize) -> Result<(), F> {
        let name = tag_name(self.m.tags[tag_pos].name_id);
        self.b = self.take().associate_files_with_tag(files, &name).map_err(|e| rejected("associate_files_with_tag", e))?;
        for &f in files {
            let uid = self.m.files[f];
            self.m.tags[tag_pos].set.insert(uid);
        }
        Ok(())
    }
    pub fn dissoc(&mut self, file: usize, tag_pos: usize) -> Result<(), F> {
        let name = tag_name(self.m.tags[tag_pos].name_id);
        self.b = self.take().remove_file_from_tag(file, &name).map_err(|e| rejected("remove_file_from_tag", e))?;
        let uid = self.m.files[file];
        if self.m.tags[tag_pos].set.remove(&uid) {
            self.m.dissociations += 1;
        }
        Ok(())
    }
    pub fn remove_file(&mut self, file: usize) -> Result<(), F> {
        self.b = self.take().remove_file(file).map_err(|e| rejected("remove_file", e))?;
        self.m.remove_file(file);
        Ok(())
    }
    pub fn remove_tag(&mut self, tag_pos: usize) -> Result<(), F> {
        let name = tag_name(self.m.tags[tag_pos].name_id);
        self.b = self.take().remove_tag(&name).map_err(|e| rejected("remove_tag", e))?;
        self.m.remove_tag(tag_pos);
        Ok(())
    }
    /// A call the rustdoc says fails.  Whatever it returns, nothing was associated or removed.
    pub fn bad(&mut self, kind: u8, delta: u8) {
        let snap = self.b.snapshot();
        let n = self.m.n();
        let oob = n + delta as usize;
        let dead = {
            let mut id = delta % NAME_POOL;
            let mut g = 0;
            while self.m.name_live(id) && g < NAME_POOL {
                id = (id + 1) % NAME_POOL;
                g += 1;
            }
            if self.m.name_live(id) {
                return;
            }
            tag_name(id)
        };
        let live = self.m.tags.first().map(|t| tag_name(t.name_id));
        let applicable = match kind % 7 {
            0 | 6 => live.is_some(),
            1 => n > 0,
            _ => true,
        };
        if !applicable {
            return;
        }
        let live = live.unwrap_or_default();
        let b = self.take();
        let r = match kind % 7 {
            0 => b.associate_file_with_tag(oob, &live),
            1 => b.associate_file_with_tag(0, &dead),
            2 => b.associate_file_with_tag_by_index(oob, 0),
            3 => b.associate_file_with_tag_by_index(0, self.m.tags.len() + delta as usize),
            4 => b.remove_file(oob),
            5 => b.remove_tag(&dead),
            _ => b.remove_file_from_tag(oob, &live),
        };
        match r {
            Ok(b) => {
                // accepted although documented to fail: nothing was associated in the model's eyes
                self.b = b;
                self.m.bad_ops_accepted += 1;
            }
            Err(_) => {
                self.b = snap;
                self.m.bad_ops_rejected += 1;
            }
        }
    }
    pub fn reload(&mut self, via_bytes: bool) -> Result<(), F> {
        let man = self.b.snapshot().build().map_err(|e| ("C19:install:build-failed".to_string(), format!("mid-program: {e:?}")))?;
        let man = if via_bytes {
            let bytes = man.build().map_err(|e| ("C19:install:serialize-failed".to_string(), format!("mid-program: {e:?}")))?;
            InstallManifest::parse(&bytes).map_err(|e| ("C19:install:parse-failed".to_string(), format!("mid-program: {e:?}")))?
        } else {
            man
        };
        self.b = InstallManifestBuilder::from_manifest(&man);
        self.m.reloads += 1;
        Ok(())
    }

    pub fn apply(&mut self, op: &IOp) -> Result<(), F> {
        let n = self.m.n();
        let nt = self.m.tags.len();
        match op {
            IOp::AddTag { name, ty } => {
                // names >= NAME_POOL mean "reuse the name of a removed tag" (when there is one)
                let id = if *name >= NAME_POOL && !self.m.dead_names.is_empty() {
                    *self.m.dead_names.iter().nth((*name - NAME_POOL) as usize % self.m.dead_names.len()).unwrap_or(&0)
                } else {
                    *name % NAME_POOL
                };
                self.add_tag(id, *ty % 17);
            }
            IOp::AddFiles { n } => self.add_files(*n as usize),
            IOp::AddFileWithTags { tags } => {
                let pos: Vec<usize> = if nt == 0 { vec![] } else { tags.iter().map(|&t| pick_idx(t, nt)).collect() };
                self.add_file_with_tags(&pos)?;
            }
            IOp::Assoc { file, tag, how } => {
                if n > 0 && nt > 0 {
                    self.assoc(pick_idx(*file, n), pick_idx(*tag, nt), *how)?;
                }
            }
            IOp::AssocPattern { tag, pat, salt } => {
                if nt > 0 {
                    let files = pattern_files(*pat, *salt, n);
                    self.assoc_many(&files, pick_idx(*tag, nt))?;
                }
            }
            IOp::Dissoc { file, tag, member } => {
                if n > 0 && nt > 0 {
                    let tp = pick_idx(*tag, nt);
                    let members = self.m.indices(tp);
                    let f = if *member && !members.is_empty() { members[pick_idx(*file, members.len())] } else { pick_idx(*file, n) };
                    self.dissoc(f, tp)?;
                }
            }
            IOp::RemoveFile { file } => {
                if n > 0 {
                    self.remove_file(pick_idx(*file, n))?;
                }
            }
            IOp::RemoveTag { tag } => {
                if nt > 0 {
                    self.remove_tag(pick_idx(*tag, nt))?;
                }
            }
            IOp::Bad { kind, delta } => self.bad(*kind, *delta),
            IOp::Reload { via_bytes } => self.reload(*via_bytes)?,
        }
        Ok(())
    }

    /// build -> bytes -> parse, then judge against the model
    pub fn finish(self, v2: bool, qseed: u64) -> Verdict {
        let m = self.m;
        let mut man = match self.b.build() {
            Ok(x) => x,
            Err(e) => return Verdict::fail("C19:install:build-failed", format!("{e:?} (files={} tags={})", m.n(), m.tags.len())),
        };
        if v2 {
            man.header = InstallHeader::new_v2(man.header.tag_count, man.header.entry_count, 16, man.header.entry_count);
            for (i, e) in man.entries.iter_mut().enumerate() {
                *e = InstallFileEntry::new_v2(e.path.clone(), e.content_key, e.file_size, (i % 251) as u8);
            }
        }
        let bytes = match man.build() {
            Ok(x) => x,
            Err(e) => return Verdict::fail("C19:install:serialize-failed", format!("{e:?}")),
        };
        let parsed = match InstallManifest::parse(&bytes) {
            Ok(x) => x,
            Err(e) => return Verdict::fail("C19:install:parse-failed", format!("{e:?} (files={} tags={})", m.n(), m.tags.len())),
        };
        match verify(&m, &bytes, &parsed, qseed) {
            Err((k, msg)) => Verdict::fail(k, msg),
            Ok(padding) => {
                let n = m.n();
                Verdict::pass()
                    .nontrivial(m.nontrivial())
                    .class_if(n % 8 != 0, "n%8!=0")
                    .class_if(n % 8 != 0 && m.last_tagged(), "ragged+last-tagged")
                    .class_if(m.remove_after_assoc, "remove_file-after-assoc")
                    .class_if(m.removed_files >= 3, "remove_file>=3")
                    .class_if(m.removed_tags > 0, "remove_tag")
                    .class_if(m.readded_tag, "tag-name-reused")
                    .class_if(m.dissociations > 0, "dissociated")
                    .class_if(m.reloads > 0, "reloaded")
                    .class_if(m.bad_ops_accepted > 0, "bad-op-accepted")
                    .class_if(m.bad_ops_rejected > 0, "bad-op-rejected")
                    .class_if(n == 0, "no-files")
                    .class_if(m.tags.is_empty(), "no-tags")
                    .class_if(m.tags.len() >= 8, "tags>=8")
                    .class_if(n > 64, "files>64")
                    .class_if(n >= 200, "files>=200")
                    .class_if(v2, "v2")
                    .class_if(padding, "padding-bits-nonzero")
            }
        }
    }
}

fn ids(v: &[(usize, &InstallFileEntry)]) -> Vec<usize> {
    v.iter().map(|(i, _)| *i).collect()
}

fn verify(m: &Model, bytes: &[u8], parsed: &InstallManifest, qseed: u64) -> Result<bool, F> {
    let n = m.n();
    // 1. independent reader on the bytes
    let raw = raw::read_install(bytes).map_err(|e| ("C19:install:raw:layout".to_string(), e))?;
    let facts = raw::check_raw("install", bytes, &raw, m, &|i| m.fi(i).path.as_bytes().to_vec())?;

    // 2. the parsed manifest holds the model's files in the model's order
    if parsed.entries.len() != n || parsed.tags.len() != m.tags.len() {
        return Err((
            "C19:install:parsed:counts".into(),
            format!("parsed {} files / {} tags, model {} / {}", parsed.entries.len(), parsed.tags.len(), n, m.tags.len()),
        ));
    }
    for i in 0..n {
        let e = &parsed.entries[i];
        let fi = m.fi(i);
        if e.path != fi.path || e.content_key.as_bytes() != &fi.key || e.file_size as u64 != fi.size {
            return Err(("C19:install:parsed:entry".into(), format!("file {i}: parsed {:?}/{}, model {:?}/{}", e.path, e.file_size, fi.path, fi.size)));
        }
    }
    let entry_ok = |v: &[(usize, &InstallFileEntry)]| v.iter().all(|(i, e)| *i < n && e.path == m.fi(*i).path);
    let sum = |ix: &[usize]| ix.iter().map(|&i| m.size_at(i)).sum::<u64>();

    // 3. every tag
    for pos in 0..m.tags.len() {
        let name = tag_name(m.tags[pos].name_id);
        let want = m.indices(pos);
        let got = parsed.get_files_for_tag(&name);
        if ids(&got) != want || !entry_ok(&got) {
            return Err(("C19:install:query:files-for-tag".into(), format!("tag {name:?} n={n}: got {:?} want {:?}", ids(&got), want)));
        }
        let Some(t) = parsed.find_tag(&name) else {
            return Err(("C19:install:query:find-tag".into(), format!("tag {name:?} not found")));
        };
        if t.tag_type != tag_type(m.tags[pos].ty) {
            return Err(("C19:install:query:tag-type".into(), format!("tag {name:?}: {:?}", t.tag_type)));
        }
        if t.get_files(n) != want {
            return Err(("C19:install:query:tag-get-files".into(), format!("tag {name:?} n={n}: got {:?} want {:?}", t.get_files(n), want)));
        }
        for i in 0..n {
            if t.has_file(i) != want.binary_search(&i).is_ok() {
                return Err(("C19:install:query:has-file".into(), format!("tag {name:?} file {i} of {n}: has_file={}", t.has_file(i))));
            }
        }
        if t.file_count() != want.len() {
            return Err(("C19:install:query:file-count".into(), format!("tag {name:?} n={n}: file_count={} want {}", t.file_count(), want.len())));
        }
        let one = [name.as_str()];
        if parsed.calculate_install_size(&one) != sum(&want) {
            return Err(("C19:install:query:size-total".into(), format!("tag {name:?}: {} want {}", parsed.calculate_install_size(&one), sum(&want))));
        }
    }
    // a name that has no tag selects nothing
    for &d in m.dead_names.iter().take(3) {
        if !parsed.get_files_for_tag(&tag_name(d)).is_empty() {
            return Err(("C19:install:query:removed-tag-still-selects".into(), format!("tag {:?}", tag_name(d))));
        }
    }
    let all: Vec<usize> = (0..n).collect();
    if parsed.total_install_size() != sum(&all) {
        return Err(("C19:install:query:total-size".into(), format!("{} want {}", parsed.total_install_size(), sum(&all))));
    }

    // 4. combinations
    let mut r = Rng::new(qseed);
    for _ in 0..10 {
        let c = random_combo(m, &mut r, false);
        if c.is_empty() {
            continue;
        }
        let names: Vec<&str> = c.names.iter().map(String::as_str).collect();
        let want_all = c.all_of(m);
        let got = parsed.get_files_for_tags(&names);
        if ids(&got) != want_all || !entry_ok(&got) {
            return Err(("C19:install:query:all-of".into(), format!("tags {names:?} n={n}: got {:?} want {:?}", ids(&got), want_all)));
        }
        let want_any = c.any_of(m);
        let got = parsed.get_files_for_any_tag(&names);
        if ids(&got) != want_any || !entry_ok(&got) {
            return Err(("C19:install:query:any-of".into(), format!("tags {names:?} n={n}: got {:?} want {:?}", ids(&got), want_any)));
        }
        let sz = parsed.calculate_install_size(&names);
        if sz != sum(&want_all) {
            return Err(("C19:install:query:size-total".into(), format!("tags {names:?}: {sz} want {}", sum(&want_all))));
        }
        // mask algebra on two live tags, read back with the independent bit reader
        if c.live.len() >= 2 {
            let a = &parsed.tags[c.live[0]];
            let b = &parsed.tags[c.live[1]];
            let (sa, sb) = (&m.tags[c.live[0]].set, &m.tags[c.live[1]].set);
            let inter = a.intersect(b);
            let uni = a.union(b);
            for i in 0..n {
                let u = m.files[i];
                if raw::mask_bit(&inter, i) != (sa.contains(&u) && sb.contains(&u)) || raw::mask_bit(&uni, i) != (sa.contains(&u) || sb.contains(&u)) {
                    return Err(("C19:install:query:mask-intersect-union".into(), format!("tags {names:?} file {i} of {n}")));
                }
            }
        }
    }
    Ok(facts.padding_nonzero)
}

pub fn check(c: &InstallCase) -> Verdict {
    let mut run = IRun::new(c.seed);
    for op in &c.ops {
        if let Err((k, m)) = run.apply(op) {
            return Verdict::fail(k, m);
        }
    }
    run.finish(c.v2, c.seed ^ 0x7175_6572_79)
}
