//! Download manifest: builder programs, model, oracle.

use crate::common::*;
use crate::install::{F, MAX_FILES, MAX_TAGS};
use crate::raw;
use cascette_crypto::EncodingKey;
use cascette_formats::download::priority::DownloadPlan;
use cascette_formats::download::{DownloadFileEntry, DownloadManifest, DownloadManifestBuilder, PriorityCategory};
use serde::{Deserialize, Serialize};
use vh_engine::Verdict;
use vh_engine::pick_idx;
use vh_engine::util::{Rng, splitmix64};

pub const MAX40: u64 = (1u64 << 40) - 1;

#[derive(Debug, Clone, Serialize, Deserialize)]
pub enum DOp {
    AddTag { name: u8, ty: u8 },
    AddFiles { n: u16 },
    /// add_file_with_properties
    AddFileProps { size: u64, prio: i8, tags: Vec<u16>, checksum: Option<u32>, flags: bool },
    Assoc { file: u16, tag: u16 },
    /// associate_file_with_tags
    AssocTags { file: u16, tags: Vec<u16> },
    AssocPattern { tag: u16, pat: u8, salt: u32 },
    Dissoc { file: u16, tag: u16, member: bool },
    RemoveFile { file: u16 },
    RemoveFileByKey { file: u16 },
    RemoveTag { tag: u16 },
    SetChecksum { file: u16, v: u32 },
    SetFlags { file: u16, salt: u32 },
    Configure { file: u16, v: u32, salt: u32 },
    UpdateSize { file: u16, size: u64 },
    UpdatePriority { file: u16, prio: i8 },
    UpdateKey { file: u16 },
    /// documented error / "returns false" cases: must leave the manifest unchanged
    Bad { kind: u8, delta: u8 },
    Reload { via_bytes: bool },
}

#[derive(Debug, Clone, Serialize, Deserialize)]
pub struct DownloadCase {
    pub version: u8,
    pub checksums: bool,
    pub flag_size: u8,
    pub base_priority: i8,
    pub ops: Vec<DOp>,
    pub seed: u64,
}

pub struct DRun {
    b: DownloadManifestBuilder,
    pub m: Model,
    seed: u64,
    version: u8,
    checksums: bool,
    flag_size: u8,
    base: i8,
    key_gen: u32,
    pub updates: u32,
    pub removed_by_key: u32,
}

fn rejected(what: &str, e: impl std::fmt::Debug) -> F {
    ("C19:download:builder-rejected-valid-op".into(), format!("{what}: {e:?}"))
}

fn flags_for(salt: u32, uid: u32, len: u8) -> Vec<u8> {
    let x = splitmix64(((salt as u64) << 32) | uid as u64).to_le_bytes();
    x[..len as usize].to_vec()
}

/// effective priority: "In version 3+, all priorities are adjusted by subtracting the base_priority"
/// (saturating at the i8 range, as the rustdoc of effective_priority says)
fn eff(version: u8, base: i8, p: i8) -> i8 {
    if version >= 3 { (p as i32 - base as i32).clamp(-128, 127) as i8 } else { p }
}

/// PriorityCategory as documented on the enum's variants
fn cat(e: i8) -> PriorityCategory {
    if e < 0 {
        PriorityCategory::Critical
    } else if e == 0 {
        PriorityCategory::Essential
    } else if e <= 2 {
        PriorityCategory::High
    } else if e <= 5 {
        PriorityCategory::Normal
    } else {
        PriorityCategory::Low
    }
}

const CATS: [PriorityCategory; 5] =
    [PriorityCategory::Critical, PriorityCategory::Essential, PriorityCategory::High, PriorityCategory::Normal, PriorityCategory::Low];

impl DRun {
    pub fn new(c: &DownloadCase) -> Result<Self, F> {
        let version = c.version.clamp(1, 3);
        let flag_size = if version >= 2 { c.flag_size % 5 } else { 0 };
        let base = if version >= 3 { c.base_priority } else { 0 };
        let b = DownloadManifestBuilder::new(version)
            .map_err(|e| rejected("new", e))?
            .with_checksums(c.checksums)
            .with_flags(flag_size)
            .map_err(|e| rejected("with_flags", e))?
            .with_base_priority(base)
            .map_err(|e| rejected("with_base_priority", e))?;
        Ok(DRun { b, m: Model::default(), seed: c.seed, version, checksums: c.checksums, flag_size, base, key_gen: 0, updates: 0, removed_by_key: 0 })
    }
    fn take(&mut self) -> DownloadManifestBuilder {
        // the builder has no Default; a version-1 builder is a cheap placeholder
        std::mem::replace(&mut self.b, DownloadManifestBuilder::new(1).expect("version 1 builder"))
    }
    fn name(&self, pos: usize) -> String {
        tag_name(self.m.tags[pos].name_id)
    }
    pub fn add_tag(&mut self, name: u8, ty: u8) {
        if self.m.name_live(name) || self.m.tags.len() >= MAX_TAGS {
            return;
        }
        self.b = self.take().add_tag(tag_name(name), tag_type(ty));
        self.m.add_tag(name, ty);
    }
    pub fn add_files(&mut self, n: usize) -> Result<(), F> {
        for _ in 0..n {
            if self.m.n() >= MAX_FILES {
                return Ok(());
            }
            let uid = self.m.info.len() as u32;
            let fi = FileInfo {
                size: size40_for(self.seed, uid),
                prio: prio_for(self.seed, uid),
                key: key_for(self.seed, uid, 0),
                flags: vec![0; self.flag_size as usize],
                ..FileInfo::default()
            };
            self.b = self.take().add_file(EncodingKey::from_bytes(fi.key), fi.size, fi.prio).map_err(|e| rejected("add_file", e))?;
            self.m.new_uid(fi);
        }
        Ok(())
    }
    pub fn add_file_props(&mut self, size: u64, prio: i8, tag_pos: &[usize], checksum: Option<u32>, flags: bool) -> Result<(), F> {
        if self.m.n() >= MAX_FILES {
            return Ok(());
        }
        let uid = self.m.info.len() as u32;
        let size = size.min(MAX40);
        let checksum = if self.checksums { checksum } else { None };
        let fl = if self.flag_size > 0 && flags { Some(flags_for(uid ^ 0x55, uid, self.flag_size)) } else { None };
        let fi = FileInfo {
            size,
            prio,
            key: key_for(self.seed, uid, 0),
            checksum,
            flags: fl.clone().unwrap_or_else(|| vec![0; self.flag_size as usize]),
            ..FileInfo::default()
        };
        let names: Vec<String> = tag_pos.iter().map(|&p| self.name(p)).collect();
        let refs: Vec<&str> = names.iter().map(String::as_str).collect();
        let tn: Option<&[&str]> = if refs.is_empty() && uid % 2 == 0 { None } else { Some(&refs) };
        self.b = self
            .take()
            .add_file_with_properties(EncodingKey::from_bytes(fi.key), size, prio, checksum, fl, tn)
            .map_err(|e| rejected("add_file_with_properties", e))?;
        let uid = self.m.new_uid(fi);
        for &p in tag_pos {
            self.m.tags[p].set.insert(uid);
        }
        Ok(())
    }
    pub fn assoc(&mut self, file: usize, tag_pos: usize) -> Result<(), F> {
        let name = self.name(tag_pos);
        self.b = self.take().associate_file_with_tag(file, &name).map_err(|e| rejected("associate_file_with_tag", e))?;
        let uid = self.m.files[file];
        self.m.tags[tag_pos].set.insert(uid);
        Ok(())
    }
    pub fn assoc_tags(&mut self, file: usize, tag_pos: &[usize]) -> Result<(), F> {
        let names: Vec<String> = tag_pos.iter().map(|&p| self.name(p)).collect();
        let refs: Vec<&str> = names.iter().map(String::as_str).collect();
        self.b = self.take().associate_file_with_tags(file, &refs).map_err(|e| rejected("associate_file_with_tags", e))?;
        let uid = self.m.files[file];
        for &p in tag_pos {
            self.m.tags[p].set.insert(uid);
        }
        Ok(())
    }
    pub fn dissoc(&mut self, file: usize, tag_pos: usize) -> Result<(), F> {
        let name = self.name(tag_pos);
        self.b = self.take().disassociate_file_from_tag(file, &name).map_err(|e| rejected("disassociate_file_from_tag", e))?;
        let uid = self.m.files[file];
        if self.m.tags[tag_pos].set.remove(&uid) {
            self.m.dissociations += 1;
        }
        Ok(())
    }
    pub fn remove_file(&mut self, file: usize, by_key: bool) -> Result<(), F> {
        let ok = if by_key {
            let k = EncodingKey::from_bytes(self.m.fi(file).key);
            self.removed_by_key += 1;
            self.b.remove_file_by_key(&k)
        } else {
            self.b.remove_file(file)
        };
        if !ok {
            return Err(rejected(if by_key { "remove_file_by_key" } else { "remove_file" }, format!("returned false for live file {file}")));
        }
        // by key: "a file was found and removed" — the first one stored under the key
        let file = if by_key {
            let k = self.m.fi(file).key;
            (0..self.m.n()).find(|&i| self.m.fi(i).key == k).unwrap_or(file)
        } else {
            file
        };
        self.m.remove_file(file);
        Ok(())
    }
    pub fn remove_tag(&mut self, tag_pos: usize) -> Result<(), F> {
        let name = self.name(tag_pos);
        if !self.b.remove_tag(&name) {
            return Err(rejected("remove_tag", format!("returned false for live tag {name:?}")));
        }
        self.m.remove_tag(tag_pos);
        Ok(())
    }
    fn set_checksum(&mut self, file: usize, v: u32) -> Result<(), F> {
        self.b = self.take().set_file_checksum(file, v).map_err(|e| rejected("set_file_checksum", e))?;
        let uid = self.m.files[file] as usize;
        self.m.info[uid].checksum = Some(v);
        Ok(())
    }
    fn fill_checksums(&mut self) -> Result<(), F> {
        if !self.checksums {
            return Ok(());
        }
        for i in 0..self.m.n() {
            if self.m.fi(i).checksum.is_none() {
                let v = splitmix64(self.seed ^ 0xc5 ^ self.m.files[i] as u64) as u32;
                self.set_checksum(i, v)?;
            }
        }
        Ok(())
    }
    pub fn bad(&mut self, kind: u8, delta: u8) {
        let n = self.m.n();
        let oob = n + delta as usize;
        let dead = {
            let mut id = delta % NAME_POOL;
            let mut g = 0;
            while self.m.name_live(id) && g < NAME_POOL {
                id = (id + 1) % NAME_POOL;
                g += 1;
            }
            if self.m.name_live(id) {
                return;
            }
            tag_name(id)
        };
        let live = self.m.tags.first().map(|t| tag_name(t.name_id));
        let k = kind % 12;
        let applicable = match k {
            0 | 2 => live.is_some(),
            1 | 3 => n > 0,
            9 => n > 0,
            _ => true,
        };
        if !applicable {
            return;
        }
        let live = live.unwrap_or_default();
        // &mut self calls that report "nothing done" with false
        let accepted = match k {
            4 => Some(self.b.remove_file(oob)),
            5 => Some(self.b.remove_file_by_key(&EncodingKey::from_bytes(key_for(self.seed, u32::MAX - delta as u32, 77)))),
            6 => Some(self.b.remove_tag(&dead)),
            7 => Some(self.b.update_file_size(oob, 1).is_ok() || (n > 0 && self.b.update_file_size(0, MAX40 + 1 + delta as u64).is_ok())),
            10 => Some(self.b.update_file_priority(oob, 0) || self.b.update_file_key(oob, EncodingKey::from_bytes([9; 16]))),
            _ => None,
        };
        if let Some(a) = accepted {
            if a {
                self.m.bad_ops_accepted += 1;
            } else {
                self.m.bad_ops_rejected += 1;
            }
            return;
        }
        let snap = self.b.clone_builder();
        let b = self.take();
        let r = match k {
            0 => b.associate_file_with_tag(oob, &live),
            1 => b.associate_file_with_tag(0, &dead),
            2 => b.disassociate_file_from_tag(oob, &live),
            3 => b.disassociate_file_from_tag(0, &dead),
            8 => b.set_file_checksum(oob, 1),
            9 => b.set_file_flags(0, vec![1; self.flag_size as usize + 1 + (delta % 3) as usize]),
            _ => b.add_file(EncodingKey::from_bytes([7; 16]), MAX40 + 1 + delta as u64, 0),
        };
        match r {
            Ok(b) => {
                self.b = b;
                self.m.bad_ops_accepted += 1;
            }
            Err(_) => {
                self.b = snap;
                self.m.bad_ops_rejected += 1;
            }
        }
    }
    pub fn reload(&mut self, via_bytes: bool) -> Result<(), F> {
        self.fill_checksums()?;
        let man = self.b.clone_builder().build().map_err(|e| ("C19:download:build-failed".to_string(), format!("mid-program: {e:?}")))?;
        let man = if via_bytes {
            let bytes = man.build().map_err(|e| ("C19:download:serialize-failed".to_string(), format!("mid-program: {e:?}")))?;
            DownloadManifest::parse(&bytes).map_err(|e| ("C19:download:parse-failed".to_string(), format!("mid-program: {e:?}")))?
        } else {
            man
        };
        self.b = DownloadManifestBuilder::from_manifest(&man);
        self.m.reloads += 1;
        Ok(())
    }

    pub fn apply(&mut self, op: &DOp) -> Result<(), F> {
        let n = self.m.n();
        let nt = self.m.tags.len();
        let tags_of = |v: &Vec<u16>| -> Vec<usize> { if nt == 0 { vec![] } else { v.iter().map(|&t| pick_idx(t, nt)).collect() } };
        match op {
            DOp::AddTag { name, ty } => {
                // names >= NAME_POOL mean "reuse the name of a removed tag" (when there is one)
                let id = if *name >= NAME_POOL && !self.m.dead_names.is_empty() {
                    *self.m.dead_names.iter().nth((*name - NAME_POOL) as usize % self.m.dead_names.len()).unwrap_or(&0)
                } else {
                    *name % NAME_POOL
                };
                self.add_tag(id, *ty % 17);
            }
            DOp::AddFiles { n } => self.add_files(*n as usize)?,
            DOp::AddFileProps { size, prio, tags, checksum, flags } => self.add_file_props(*size, *prio, &tags_of(tags), *checksum, *flags)?,
            DOp::Assoc { file, tag } => {
                if n > 0 && nt > 0 {
                    self.assoc(pick_idx(*file, n), pick_idx(*tag, nt))?;
                }
            }
            DOp::AssocTags { file, tags } => {
                if n > 0 {
                    self.assoc_tags(pick_idx(*file, n), &tags_of(tags))?;
                }
            }
            DOp::AssocPattern { tag, pat, salt } => {
                if nt > 0 {
                    let tp = pick_idx(*tag, nt);
                    for f in pattern_files(*pat, *salt, n) {
                        self.assoc(f, tp)?;
                    }
                }
            }
            DOp::Dissoc { file, tag, member } => {
                if n > 0 && nt > 0 {
                    let tp = pick_idx(*tag, nt);
                    let members = self.m.indices(tp);
                    let f = if *member && !members.is_empty() { members[pick_idx(*file, members.len())] } else { pick_idx(*file, n) };
                    self.dissoc(f, tp)?;
                }
            }
            DOp::RemoveFile { file } => {
                if n > 0 {
                    self.remove_file(pick_idx(*file, n), false)?;
                }
            }
            DOp::RemoveFileByKey { file } => {
                if n > 0 {
                    self.remove_file(pick_idx(*file, n), true)?;
                }
            }
            DOp::RemoveTag { tag } => {
                if nt > 0 {
                    self.remove_tag(pick_idx(*tag, nt))?;
                }
            }
            DOp::SetChecksum { file, v } => {
                if n > 0 && self.checksums {
                    self.set_checksum(pick_idx(*file, n), *v)?;
                }
            }
            DOp::SetFlags { file, salt } => {
                if n > 0 && self.flag_size > 0 {
                    let f = pick_idx(*file, n);
                    let uid = self.m.files[f];
                    let fl = flags_for(*salt, uid, self.flag_size);
                    self.b = self.take().set_file_flags(f, fl.clone()).map_err(|e| rejected("set_file_flags", e))?;
                    self.m.info[uid as usize].flags = fl;
                }
            }
            DOp::Configure { file, v, salt } => {
                if n > 0 {
                    let f = pick_idx(*file, n);
                    let uid = self.m.files[f];
                    let cs = if self.checksums { Some(*v) } else { None };
                    let fl = if self.flag_size > 0 { Some(flags_for(*salt, uid, self.flag_size)) } else { None };
                    self.b = self.take().configure_file(f, cs, fl.clone()).map_err(|e| rejected("configure_file", e))?;
                    if let Some(c) = cs {
                        self.m.info[uid as usize].checksum = Some(c);
                    }
                    if let Some(fl) = fl {
                        self.m.info[uid as usize].flags = fl;
                    }
                }
            }
            DOp::UpdateSize { file, size } => {
                if n > 0 {
                    let f = pick_idx(*file, n);
                    let size = (*size).min(MAX40);
                    self.b.update_file_size(f, size).map_err(|e| rejected("update_file_size", e))?;
                    let uid = self.m.files[f];
                    self.m.info[uid as usize].size = size;
                    self.updates += 1;
                }
            }
            DOp::UpdatePriority { file, prio } => {
                if n > 0 {
                    let f = pick_idx(*file, n);
                    if !self.b.update_file_priority(f, *prio) {
                        return Err(rejected("update_file_priority", "returned false for a live file"));
                    }
                    let uid = self.m.files[f];
                    self.m.info[uid as usize].prio = *prio;
                    self.updates += 1;
                }
            }
            DOp::UpdateKey { file } => {
                if n > 0 {
                    let f = pick_idx(*file, n);
                    let uid = self.m.files[f];
                    self.key_gen += 1;
                    let k = key_for(self.seed, uid, self.key_gen);
                    if !self.b.update_file_key(f, EncodingKey::from_bytes(k)) {
                        return Err(rejected("update_file_key", "returned false for a live file"));
                    }
                    self.m.info[uid as usize].key = k;
                    self.updates += 1;
                }
            }
            DOp::Bad { kind, delta } => self.bad(*kind, *delta),
            DOp::Reload { via_bytes } => self.reload(*via_bytes)?,
        }
        Ok(())
    }

    pub fn finish(mut self, qseed: u64) -> Verdict {
        if let Err((k, msg)) = self.fill_checksums() {
            return Verdict::fail(k, msg);
        }
        let m = self.m;
        let man = match self.b.build() {
            Ok(x) => x,
            Err(e) => return Verdict::fail("C19:download:build-failed", format!("{e:?} (files={} tags={})", m.n(), m.tags.len())),
        };
        let bytes = match man.build() {
            Ok(x) => x,
            Err(e) => return Verdict::fail("C19:download:serialize-failed", format!("{e:?}")),
        };
        let parsed = match DownloadManifest::parse(&bytes) {
            Ok(x) => x,
            Err(e) => return Verdict::fail("C19:download:parse-failed", format!("{e:?} (files={} tags={})", m.n(), m.tags.len())),
        };
        let cfg = Cfg { version: self.version, checksums: self.checksums, flag_size: self.flag_size, base: self.base };
        match verify(&m, &cfg, &bytes, &parsed, qseed) {
            Err((k, msg)) => Verdict::fail(k, msg),
            Ok(facts) => {
                let n = m.n();
                Verdict::pass()
                    .nontrivial(m.nontrivial())
                    .class_if(n % 8 != 0, "n%8!=0")
                    .class_if(n % 8 != 0 && m.last_tagged(), "ragged+last-tagged")
                    .class_if(m.remove_after_assoc, "remove_file-after-assoc")
                    .class_if(m.removed_files >= 3, "remove_file>=3")
                    .class_if(self.removed_by_key > 0, "remove_file_by_key")
                    .class_if(crate::common::shared_keys(self.seed), "keys-shared-by-several-files")
                    .class_if(m.removed_tags > 0, "remove_tag")
                    .class_if(m.readded_tag, "tag-name-reused")
                    .class_if(m.dissociations > 0, "dissociated")
                    .class_if(m.reloads > 0, "reloaded")
                    .class_if(self.updates > 0, "update_file_*")
                    .class_if(m.bad_ops_accepted > 0, "bad-op-accepted")
                    .class_if(m.bad_ops_rejected > 0, "bad-op-rejected")
                    .class_if(n == 0, "no-files")
                    .class_if(m.tags.is_empty(), "no-tags")
                    .class_if(m.tags.len() >= 8, "tags>=8")
                    .class_if(n > 64, "files>64")
                    .class_if(n >= 200, "files>=200")
                    .class_if(cfg.version == 1, "v1")
                    .class_if(cfg.version == 2, "v2")
                    .class_if(cfg.version == 3, "v3")
                    .class_if(cfg.checksums, "checksums")
                    .class_if(cfg.flag_size > 0, "flags")
                    .class_if(cfg.base != 0, "base-priority!=0")
                    .class_if(facts.large, "file>4GiB")
                    .class_if(facts.saturated, "priority-saturates")
                    .class_if(facts.padding, "padding-bits-nonzero")
            }
        }
    }
}

pub struct Cfg {
    pub version: u8,
    pub checksums: bool,
    pub flag_size: u8,
    pub base: i8,
}

struct Facts {
    large: bool,
    saturated: bool,
    padding: bool,
}

fn ids(v: &[(usize, &DownloadFileEntry)]) -> Vec<usize> {
    v.iter().map(|(i, _)| *i).collect()
}

fn verify(m: &Model, cfg: &Cfg, bytes: &[u8], parsed: &DownloadManifest, qseed: u64) -> Result<Facts, F> {
    let n = m.n();
    // 1. independent reader
    let raw = raw::read_download(bytes).map_err(|e| ("C19:download:raw:layout".to_string(), e))?;
    if raw.version != cfg.version || raw.has_checksum != cfg.checksums || raw.flag_size != cfg.flag_size || raw.base_priority != cfg.base {
        return Err((
            "C19:download:raw:header-config".into(),
            format!("on disk v{} cs={} fs={} base={}", raw.version, raw.has_checksum, raw.flag_size, raw.base_priority),
        ));
    }
    let rf = raw::check_raw("download", bytes, &raw, m, &|i| m.fi(i).key.to_vec())?;
    for i in 0..n {
        let fi = m.fi(i);
        if raw.prios[i] != fi.prio {
            return Err(("C19:download:raw:priority".into(), format!("file {i}: on disk {} model {}", raw.prios[i], fi.prio)));
        }
        if raw.checksums[i] != fi.checksum || raw.flags[i] != fi.flags {
            return Err(("C19:download:raw:checksum-or-flags".into(), format!("file {i}: on disk {:?}/{:?} model {:?}/{:?}", raw.checksums[i], raw.flags[i], fi.checksum, fi.flags)));
        }
    }

    // 2. parsed entries are the model's files in order
    if parsed.entries.len() != n || parsed.tags.len() != m.tags.len() {
        return Err((
            "C19:download:parsed:counts".into(),
            format!("parsed {} files / {} tags, model {} / {}", parsed.entries.len(), parsed.tags.len(), n, m.tags.len()),
        ));
    }
    for i in 0..n {
        let e = &parsed.entries[i];
        let fi = m.fi(i);
        if e.encoding_key.as_bytes() != &fi.key || e.file_size.as_u64() != fi.size || e.priority != fi.prio {
            return Err((
                "C19:download:parsed:entry".into(),
                format!("file {i}: parsed size={} prio={}, model size={} prio={}", e.file_size.as_u64(), e.priority, fi.size, fi.prio),
            ));
        }
    }
    let entry_ok = |v: &[(usize, &DownloadFileEntry)]| v.iter().all(|(i, e)| *i < n && e.encoding_key.as_bytes() == &m.fi(*i).key);
    let sum = |ix: &[usize]| ix.iter().map(|&i| m.size_at(i)).sum::<u64>();
    let all: Vec<usize> = (0..n).collect();

    // 3. every tag
    for pos in 0..m.tags.len() {
        let name = tag_name(m.tags[pos].name_id);
        let want = m.indices(pos);
        let got = parsed.entries_by_tag(&name);
        if ids(&got) != want || !entry_ok(&got) {
            return Err(("C19:download:query:entries-by-tag".into(), format!("tag {name:?} n={n}: got {:?} want {:?}", ids(&got), want)));
        }
        let Some(t) = parsed.find_tag(&name) else {
            return Err(("C19:download:query:find-tag".into(), format!("tag {name:?} not found")));
        };
        if t.tag_type != tag_type(m.tags[pos].ty) {
            return Err(("C19:download:query:tag-type".into(), format!("tag {name:?}: {:?}", t.tag_type)));
        }
        if t.get_files(n) != want {
            return Err(("C19:download:query:tag-get-files".into(), format!("tag {name:?} n={n}: got {:?} want {:?}", t.get_files(n), want)));
        }
        for i in 0..n {
            if t.has_file(i) != want.binary_search(&i).is_ok() {
                return Err(("C19:download:query:has-file".into(), format!("tag {name:?} file {i} of {n}: has_file={}", t.has_file(i))));
            }
        }
        if t.file_count() != want.len() {
            return Err(("C19:download:query:file-count".into(), format!("tag {name:?} n={n}: file_count={} want {}", t.file_count(), want.len())));
        }
        let one = [name.as_str()];
        if parsed.calculate_size_for_tags(&one) != sum(&want) {
            return Err(("C19:download:query:size-total".into(), format!("tag {name:?}: {} want {}", parsed.calculate_size_for_tags(&one), sum(&want))));
        }
    }
    for &d in m.dead_names.iter().take(3) {
        if !parsed.entries_by_tag(&tag_name(d)).is_empty() {
            return Err(("C19:download:query:removed-tag-still-selects".into(), format!("tag {:?}", tag_name(d))));
        }
    }
    if parsed.total_download_size() != sum(&all) || parsed.stats().total_size != sum(&all) {
        return Err(("C19:download:query:total-size".into(), format!("{} / {} want {}", parsed.total_download_size(), parsed.stats().total_size, sum(&all))));
    }

    // 4. combinations (all-of; the download manifest has no any-of query) and the platform filter
    let mut r = Rng::new(qseed);
    for _ in 0..10 {
        let c = random_combo(m, &mut r, true);
        let names: Vec<&str> = c.names.iter().map(String::as_str).collect();
        let want_all = c.all_of(m);
        let got = parsed.entries_by_tags(&names);
        if ids(&got) != want_all || !entry_ok(&got) {
            return Err(("C19:download:query:all-of".into(), format!("tags {names:?} n={n}: got {:?} want {:?}", ids(&got), want_all)));
        }
        let sz = parsed.calculate_size_for_tags(&names);
        if sz != sum(&want_all) {
            return Err(("C19:download:query:size-total".into(), format!("tags {names:?}: {sz} want {}", sum(&want_all))));
        }
        if names.len() == 2 {
            let got = parsed.entries_for_platform(names[0], names[1]);
            if ids(&got) != want_all || !entry_ok(&got) {
                return Err(("C19:download:query:platform".into(), format!("platform {:?} arch {:?} n={n}: got {:?} want {:?}", names[0], names[1], ids(&got), want_all)));
            }
        }
    }

    // 5. priority filters and their size totals
    let effs: Vec<i8> = (0..n).map(|i| eff(cfg.version, cfg.base, m.fi(i).prio)).collect();
    let saturated = (0..n).any(|i| cfg.version >= 3 && (m.fi(i).prio as i32 - cfg.base as i32) != effs[i] as i32);
    for c in CATS {
        let want: Vec<usize> = (0..n).filter(|&i| cat(effs[i]) == c).collect();
        let got = parsed.entries_by_priority(c);
        if ids(&got) != want || !entry_ok(&got) {
            return Err(("C19:download:query:priority-category".into(), format!("{c:?} v{} base={}: got {:?} want {:?}", cfg.version, cfg.base, ids(&got), want)));
        }
    }
    for k in 0..6 {
        let (lo, hi) = match k {
            0 => (i8::MIN, i8::MAX),
            1 => (0, 0),
            _ => (r.next_u64() as i8, r.next_u64() as i8),
        };
        let want: Vec<usize> = (0..n).filter(|&i| effs[i] >= lo && effs[i] <= hi).collect();
        let got = parsed.entries_by_priority_range(lo, hi);
        if ids(&got) != want || !entry_ok(&got) {
            return Err(("C19:download:query:priority-range".into(), format!("[{lo},{hi}] v{} base={}: got {:?} want {:?}", cfg.version, cfg.base, ids(&got), want)));
        }
    }
    let essential: u64 = (0..n).filter(|&i| effs[i] <= 0).map(|i| m.size_at(i)).sum();
    if parsed.essential_download_size() != essential {
        return Err(("C19:download:query:essential-size".into(), format!("{} want {essential}", parsed.essential_download_size())));
    }
    let an = parsed.analyze_priorities();
    let streamable: u64 = (0..n).filter(|&i| effs[i] >= 3).map(|i| m.size_at(i)).sum();
    if an.total_files != n || an.total_size != sum(&all) || an.essential_size != essential || an.streamable_size != streamable {
        return Err((
            "C19:download:query:priority-analysis-totals".into(),
            format!("files={} total={} essential={} streamable={}; want {n} {} {essential} {streamable}", an.total_files, an.total_size, an.essential_size, an.streamable_size, sum(&all)),
        ));
    }
    for c in CATS {
        let want: Vec<usize> = (0..n).filter(|&i| cat(effs[i]) == c).collect();
        let (gc, gs) = an.categories.get(&c).map(|s| (s.file_count, s.total_size)).unwrap_or((0, 0));
        if gc != want.len() || gs != sum(&want) {
            return Err(("C19:download:query:priority-analysis-category".into(), format!("{c:?}: count={gc} size={gs}; want {} {}", want.len(), sum(&want))));
        }
    }
    // download plan: priority ceiling + category filter
    for k in 0..3 {
        let max_p: Option<i8> = match k {
            0 => None,
            1 => Some(0),
            _ => Some(r.next_u64() as i8),
        };
        let mask = r.below(32) as u8;
        let cats: Vec<PriorityCategory> = CATS.iter().enumerate().filter(|(j, _)| mask & (1 << j) != 0).map(|(_, c)| *c).collect();
        let use_cats = k != 1 && r.below(2) == 0;
        let plan = DownloadPlan::create(&parsed.entries, &parsed.header, max_p, if use_cats { Some(&cats) } else { None });
        let mut want: Vec<usize> =
            (0..n).filter(|&i| max_p.is_none_or(|mp| effs[i] <= mp) && (!use_cats || cats.contains(&cat(effs[i])))).collect();
        let want_total = sum(&want);
        let want_ess: u64 = want.iter().filter(|&&i| effs[i] <= 0).map(|&i| m.size_at(i)).sum();
        // the statement is about *which* files are selected; the plan's ordering is not judged
        want.sort_unstable();
        let mut got: Vec<usize> = plan.entries.iter().map(|e| e.0).collect();
        got.sort_unstable();
        if got != want || plan.total_size != want_total || plan.essential_size != want_ess {
            return Err((
                "C19:download:query:download-plan".into(),
                format!("max={max_p:?} cats={:?}: got {:?} total={} ess={}; want {:?} {want_total} {want_ess}", if use_cats { Some(&cats) } else { None }, got, plan.total_size, plan.essential_size, want),
            ));
        }
    }
    let large = (0..n).any(|i| m.size_at(i) > u32::MAX as u64);
    Ok(Facts { large, saturated, padding: rf.padding_nonzero })
}

pub fn check(c: &DownloadCase) -> Verdict {
    let mut run = match DRun::new(c) {
        Ok(r) => r,
        Err((k, m)) => return Verdict::fail(k, m),
    };
    for op in &c.ops {
        if let Err((k, m)) = run.apply(op) {
            return Verdict::fail(k, m);
        }
    }
    run.finish(c.seed ^ 0x7175_6572_79)
}
