//! C08 — serialisation is stable: parse→build→parse→build reaches a fixed
//! point with the same logical content (A: mutation stream in isolated workers,
//! shared with C02), builder outputs parse back to what was built (B), real
//! CDN fixtures round-trip byte-identically (C, inside the A stream).

use cascette_formats::CascFormat;
use proptest::prelude::*;
use serde::{Deserialize, Serialize};
use vh_c02::driver::{DriverCfg, run_iso};
use vh_c02::project::Project;
use vh_c02::targets::{CASC_TARGETS, TARGETS};
use vh_engine::util::Rng;
use vh_engine::{Check, Section, Verdict, pick_idx};

/// B: serialise a built value, parse it back, compare logical projections; then
/// a second build must be byte-identical.
fn roundtrip<T: CascFormat + Project>(name: &str, v: &T) -> Verdict {
    let b1 = match v.build() {
        Ok(b) => b,
        // a serialiser may refuse a value (allowed); counted as class
        Err(_) => return Verdict::pass().class("build-refused"),
    };
    let p = match T::parse(&b1) {
        Ok(p) => p,
        Err(e) => {
            return Verdict::fail(
                format!("C08:{name}:builder-output-rejected-by-own-parser"),
                format!("{} (serialisation is {} bytes)", vh_engine::util::normalise(&e.to_string()), b1.len()),
            );
        }
    };
    let (j1, j2) = (v.project(), p.project());
    if j1 != j2 {
        let at = j1.bytes().zip(j2.bytes()).position(|(a, b)| a != b).unwrap_or(j1.len().min(j2.len()));
        let lo = at.saturating_sub(50);
        let s1: String = j1.chars().skip(lo).take(130).collect();
        let s2: String = j2.chars().skip(lo).take(130).collect();
        return Verdict::fail(format!("C08:{name}:builder-output-parses-to-different-content"), format!("built …{s1}… parsed …{s2}…"));
    }
    match p.build() {
        Ok(b2) if b2 == b1 => Verdict::pass(),
        Ok(b2) => Verdict::fail(format!("C08:{name}:second-build-differs"), format!("{} vs {} bytes", b1.len(), b2.len())),
        Err(e) => Verdict::fail(format!("C08:{name}:second-build-fails"), vh_engine::util::normalise(&e.to_string())),
    }
}

fn k16(r: &mut Rng) -> [u8; 16] {
    let mut k = [0u8; 16];
    k.copy_from_slice(&r.bytes(16));
    k
}
fn hex32(r: &mut Rng) -> String {
    hex::encode(r.bytes(16))
}

// ---- size manifest --------------------------------------------------------

#[derive(Debug, Clone, Serialize, Deserialize)]
struct SizeProg {
    version: u8,
    ekey_size: u8,
    esize_bytes: u8,
    tags: u8,
    entries: u16,
    big_sizes: bool,
    content_seed: u64,
}

fn check_size(c: &SizeProg) -> Verdict {
    use cascette_formats::install::TagType;
    use cascette_formats::size::SizeManifestBuilder;
    let mut r = Rng::new(c.content_seed);
    let mut b = SizeManifestBuilder::new().version(c.version).ekey_size(c.ekey_size).esize_bytes(c.esize_bytes);
    for t in 0..c.tags {
        b = b.add_tag(format!("tag{t}"), [TagType::Platform, TagType::Locale, TagType::Category][t as usize % 3]);
    }
    // sizes up to 2^40-1 (the documented width of CASC file sizes), further limited by the field width
    let width_max: u64 = if c.version == 1 && c.esize_bytes < 8 { (1u64 << (8 * c.esize_bytes as u32)) - 1 } else if c.version == 1 { u64::MAX } else { u32::MAX as u64 };
    let maxv: u64 = width_max.min((1u64 << 40) - 1);
    let mut total: u128 = 0;
    for i in 0..c.entries {
        let v = if c.big_sizes { maxv - r.below(3).min(maxv) } else { r.below(maxv.min(1 << 20) + 1) };
        total += v as u128;
        b = b.add_entry(r.bytes(c.ekey_size as usize), v);
        for t in 0..c.tags {
            if r.below(3) == 0 {
                b = b.tag_file(t as usize, i as usize);
            }
        }
    }
    let over40 = c.version == 2 && total >= (1u128 << 40);
    match b.build() {
        Ok(m) => {
            let mut v = roundtrip("size", &m).nontrivial(c.entries >= 2).class_if(c.version == 1, "v1").class_if(c.entries % 8 != 0 && c.tags > 0, "ragged-mask").class_if(over40, "v2-total>=2^40");
            if over40 {
                if let Some(f) = &mut v.fail {
                    f.key = "C08:size:v2-total-size-over-40-bits-not-refused".into();
                }
            }
            v
        }
        Err(_) => Verdict::pass().class("builder-refused"),
    }
}

// ---- encoding table ---------------------------------------------------------

/// `EncodingBuilder` with independent CKey / EKey page sizes and enough entries for several pages.
#[derive(Debug, Clone, Serialize, Deserialize)]
struct EncodingProg {
    ckeys: u16,
    ekeys: u16,
    ckey_page_kb: u8,
    ekey_page_kb: u8,
    /// content keys carry 1..=3 encoding keys instead of one
    multi: bool,
    content_seed: u64,
}

fn check_encoding(c: &EncodingProg) -> Verdict {
    use cascette_crypto::{ContentKey, EncodingKey};
    use cascette_formats::encoding::{CKeyEntryData, EKeyEntryData, EncodingBuilder};
    let mut r = Rng::new(c.content_seed);
    let mut b = EncodingBuilder::new().with_page_sizes(u16::from(c.ckey_page_kb), u16::from(c.ekey_page_kb));
    let specs = ["z", "n", "b:{164=z,16K*565=z,1656=z}", "z:{9,mpq}"];
    for _ in 0..c.ckeys {
        let n = if c.multi { 1 + r.below(3) as usize } else { 1 };
        let mut key = k16(&mut r);
        key[0] |= 1; // never the all-zero padding pattern
        b.add_ckey_entry(CKeyEntryData { content_key: ContentKey::from_bytes(key), file_size: r.below(1 << 32), encoding_keys: (0..n).map(|_| EncodingKey::from_bytes(k16(&mut r))).collect() });
    }
    for _ in 0..c.ekeys {
        let mut key = k16(&mut r);
        key[0] |= 1;
        b.add_ekey_entry(EKeyEntryData { encoding_key: EncodingKey::from_bytes(key), espec: specs[r.below(specs.len() as u64) as usize].to_string(), file_size: r.below(1 << 32) });
    }
    // entries per page with one encoding key: (page - 0) / 38 content keys, page / 25 encoding keys
    let c_pages = usize::from(c.ckeys).div_ceil(((usize::from(c.ckey_page_kb) * 1024) / 38).max(1));
    let e_pages = usize::from(c.ekeys).div_ceil(((usize::from(c.ekey_page_kb) * 1024) / 25).max(1));
    if c.ckeys == 0 || c.ekeys == 0 {
        // the format has no representation for a table without CKey pages or without EKey pages
        // (same exclusion as in C03's encoding section)
        return Verdict::pass().class("excluded-empty-table");
    }
    match b.build() {
        Ok(f) => roundtrip("encoding", &f)
            .nontrivial(c.ckeys >= 2 && c.ekeys >= 2)
            .class_if(c.ckey_page_kb != c.ekey_page_kb, "ckey-and-ekey-page-sizes-differ")
            .class_if(c_pages >= 3, ">=3-ckey-pages")
            .class_if(e_pages >= 3, ">=3-ekey-pages"),
        Err(_) => Verdict::pass().class("builder-refused"),
    }
}

// ---- TVFS: container table fields at their wide widths ------------------------

/// A TVFS manifest whose container file table is large enough for 2- and 3-byte offset fields,
/// with PATCH_SUPPORT: `TvfsBuilder` always stores patch offset 0, so the parsed value gets
/// non-zero patch offsets (as a real manifest has) before it is serialised again.
#[derive(Debug, Clone, Serialize, Deserialize)]
struct TvfsWideProg {
    files: u16,
    flags: u8,
    content_seed: u64,
}

fn check_tvfs_wide(c: &TvfsWideProg) -> Verdict {
    use cascette_formats::tvfs::{TvfsBuilder, TvfsFile};
    let mut r = Rng::new(c.content_seed);
    let flags = u32::from(c.flags & 0x05) | 0x04;
    let mut b = TvfsBuilder::with_flags(flags);
    for i in 0..c.files {
        let mut ek = [0u8; 9];
        ek.copy_from_slice(&r.bytes(9));
        let ck = if flags & 1 != 0 { Some(k16(&mut r)) } else { None };
        b.add_file(format!("d{}/f{i}", i % 7), ek, r.below(1 << 24) as u32, r.below(1 << 24) as u32, ck);
    }
    let bytes = match b.build() {
        Ok(x) => x,
        Err(_) => return Verdict::pass().class("builder-refused"),
    };
    let mut f = match TvfsFile::parse(&bytes) {
        Ok(f) => f,
        // the builder's own defects at the width thresholds are C03's (listed there)
        Err(_) => return Verdict::pass().class("builder-output-not-parsed(C03)"),
    };
    let width = f.header.cft_offs_size();
    let table_len = f.container_table.data.len() as u64;
    let mut set = 0usize;
    for e in &mut f.container_table.entries {
        if e.patch_offset.is_some() {
            // an offset of another entry of the table: any value below the table size
            let v = match r.below(4) {
                0 => table_len.saturating_sub(1),
                1 => 1,
                _ => r.below(table_len.max(1)),
            };
            e.patch_offset = Some(v as u32);
            set += 1;
        }
    }
    roundtrip("tvfs", &f)
        .nontrivial(set >= 2)
        .class_if(width == 1, "cft-offset-width:1")
        .class_if(width == 2, "cft-offset-width:2")
        .class_if(width == 3, "cft-offset-width:3")
        .class_if(width == 4, "cft-offset-width:4")
}

// ---- patch archive / patch index -------------------------------------------

#[derive(Debug, Clone, Serialize, Deserialize)]
struct PatchArchiveProg {
    entries: u16,
    max_patches: u8,
    with_encoding_info: bool,
    sort: bool,
    block_bits: u8,
    content_seed: u64,
}

fn check_patch_archive(c: &PatchArchiveProg) -> Verdict {
    use cascette_formats::patch_archive::{PatchArchive, PatchArchiveBuilder, PatchArchiveEncodingInfo};
    let mut r = Rng::new(c.content_seed);
    let mut b = PatchArchiveBuilder::new().block_size_bits(c.block_bits);
    if c.with_encoding_info {
        b = b.encoding_info(PatchArchiveEncodingInfo {
            encoding_ckey: k16(&mut r),
            encoding_ekey: k16(&mut r),
            decoded_size: r.next_u64() as u32,
            encoded_size: r.next_u64() as u32,
            espec: ["z", "n", "b:{256K*=z}", ""][r.below(4) as usize].to_string(),
        });
    }
    for _ in 0..c.entries {
        let np = 1 + r.below(c.max_patches.max(1) as u64) as usize;
        let patches = (0..np).map(|_| (k16(&mut r), r.below(1 << 40), k16(&mut r), r.next_u64() as u32, r.below(256) as u8)).collect();
        b.add_file_entry(k16(&mut r), r.below(1 << 40), patches);
    }
    if c.sort {
        b.sort_entries();
    }
    let bytes = match b.build() {
        Ok(x) => x,
        Err(_) => return Verdict::pass().class("builder-refused"),
    };
    let parsed = match <PatchArchive as CascFormat>::parse(&bytes) {
        Ok(p) => p,
        Err(e) => {
            // unsorted input may legitimately be refused by the parser's sort check only when sort=false
            if !c.sort {
                return Verdict::pass().class("unsorted-rejected");
            }
            return Verdict::fail("C08:patch-archive:builder-output-rejected-by-own-parser", vh_engine::util::normalise(&e.to_string()));
        }
    };
    // model content: every entry of the builder appears with identical fields, in builder order
    // (build() sorts by target key, so the comparison is on the multiset)
    let mut want: Vec<String> = b.entries().iter().map(|e| format!("{e:?}")).collect();
    let mut got: Vec<String> = parsed.blocks.iter().flat_map(|bl| bl.file_entries.iter()).map(|e| format!("{e:?}")).collect();
    want.sort_unstable();
    got.sort_unstable();
    if want != got {
        let i = want.iter().zip(&got).position(|(a, b)| a != b).unwrap_or(want.len().min(got.len()));
        return Verdict::fail(
            "C08:patch-archive:builder-output-parses-to-different-content",
            format!("{} built vs {} parsed entries; first difference at #{i}: {:?} vs {:?}", want.len(), got.len(), want.get(i), got.get(i)),
        );
    }
    roundtrip("patch-archive", &parsed).nontrivial(c.entries >= 2).class_if(c.with_encoding_info, "encoding-info").class_if(parsed.blocks.len() >= 2, "multi-block")
}

#[derive(Debug, Clone, Serialize, Deserialize)]
struct PatchIndexProg {
    entries: u16,
    content_seed: u64,
}

fn check_patch_index(c: &PatchIndexProg) -> Verdict {
    use cascette_formats::patch_index::{PatchIndex, PatchIndexBuilder, PatchIndexEntry};
    let mut r = Rng::new(c.content_seed);
    let mut b = PatchIndexBuilder::new();
    let mut want = Vec::new();
    for _ in 0..c.entries {
        let e = PatchIndexEntry {
            source_ekey: k16(&mut r),
            source_size: r.next_u64() as u32,
            target_ekey: k16(&mut r),
            target_size: r.next_u64() as u32,
            encoded_size: r.next_u64() as u32,
            suffix_offset: r.below(256) as u8,
            patch_ekey: k16(&mut r),
        };
        want.push(e.clone());
        b.add_entry(e);
    }
    let bytes = match b.build() {
        Ok(x) => x,
        Err(_) => return Verdict::pass().class("builder-refused"),
    };
    let parsed = match <PatchIndex as CascFormat>::parse(&bytes) {
        Ok(p) => p,
        Err(e) => return Verdict::fail("C08:patch-index:builder-output-rejected-by-own-parser", vh_engine::util::normalise(&e.to_string())),
    };
    if parsed.entries != want {
        return Verdict::fail(
            "C08:patch-index:builder-output-parses-to-different-content",
            format!("{} built vs {} parsed entries", want.len(), parsed.entries.len()),
        );
    }
    roundtrip("patch-index", &parsed).nontrivial(c.entries >= 2)
}

// ---- archive index (all key sizes / offset widths; lookups are C03's business) ------------

#[derive(Debug, Clone, Serialize, Deserialize)]
struct ArchiveIndexProg {
    key: u8,
    off: u8,
    n: u32,
}

fn check_archive_index(c: &ArchiveIndexProg) -> Verdict {
    use cascette_formats::archive::ArchiveIndex;
    let Some(bytes) = vh_c02::seeds::archive_index_small(c.key, c.off, c.n) else {
        return Verdict::pass().class("builder-refused");
    };
    match <ArchiveIndex as CascFormat>::parse(&bytes) {
        Ok(p) => {
            let mut v = Verdict::pass().nontrivial(c.n >= 2).class_if(c.key != 16 || c.off != 4, "non-16/4-layout");
            // 1-byte keys cannot hold c.n distinct keys: the builder may merge or keep duplicates; only the count bound is judged
            if c.key >= 4 && p.entries.len() != c.n as usize {
                v = v.with_fail("C08:archive-index:builder-output-parses-to-different-content", format!("key {} off {}: built {} entries, parsed {}", c.key, c.off, c.n, p.entries.len()));
            }
            if p.footer.ekey_length != c.key || p.footer.offset_bytes != c.off {
                v = v.with_fail("C08:archive-index:builder-output-parses-to-different-content", format!("footer says key {} off {}, built with key {} off {}", p.footer.ekey_length, p.footer.offset_bytes, c.key, c.off));
            }
            v
        }
        Err(e) => Verdict::fail("C08:archive-index:builder-output-rejected-by-own-parser", format!("key {} off {} n {}: {}", c.key, c.off, c.n, vh_engine::util::normalise(&e.to_string()))),
    }
}

// ---- BLTE containers with chunk counts around 2^16 -------------------------------

#[derive(Debug, Clone, Serialize, Deserialize)]
struct ManyChunksProg {
    chunks: u32,
}

fn check_many_chunks(c: &ManyChunksProg) -> Verdict {
    use cascette_formats::blte::{BlteFile, ChunkData, CompressionMode};
    let mut chunks = Vec::with_capacity(c.chunks as usize);
    for i in 0..c.chunks {
        match ChunkData::new(vec![(i % 251) as u8], CompressionMode::None) {
            Ok(ch) => chunks.push(ch),
            Err(_) => return Verdict::pass().class("builder-refused"),
        }
    }
    match BlteFile::multi_chunk(chunks) {
        Ok(f) => roundtrip("blte", &f).nontrivial(true).class_if(c.chunks >= 65_536, "chunk-count>=65536"),
        Err(_) => Verdict::pass().class("builder-refused"),
    }
}

// ---- archive group through the merging builder -----------------------------------

/// `build_merged` over source indices that share keys: the group it writes must be accepted by
/// `ArchiveGroup::parse` and hold each distinct key once.
#[derive(Debug, Clone, Serialize, Deserialize)]
struct GroupProg {
    /// distinct keys of the union (a page holds 157 records)
    distinct: u16,
    sources: u8,
    /// every `shared_every`-th key is in all sources (0: no key is shared)
    shared_every: u8,
}

fn check_group(c: &GroupProg) -> Verdict {
    use cascette_formats::archive::{ArchiveGroup, ArchiveIndex, ArchiveIndexBuilder, build_merged};
    use std::io::Cursor;
    let mut r = Rng::new(0xC08_6000 ^ u64::from(c.distinct) << 16 ^ u64::from(c.sources) << 8 ^ u64::from(c.shared_every));
    let mut keys: Vec<Vec<u8>> = (0..c.distinct).map(|_| r.bytes(16)).collect();
    keys.sort();
    keys.dedup();
    let ns = usize::from(c.sources.clamp(1, 5));
    let mut per: Vec<ArchiveIndexBuilder> = (0..ns).map(|_| ArchiveIndexBuilder::new()).collect();
    let mut shared = 0usize;
    for (i, k) in keys.iter().enumerate() {
        let everywhere = c.shared_every > 0 && i % usize::from(c.shared_every) == 0;
        for (s, b) in per.iter_mut().enumerate() {
            if everywhere || i % ns == s {
                b.add_entry(k.clone(), 100 + i as u32, (i as u64) * 128);
            }
        }
        shared += usize::from(everywhere && ns > 1);
    }
    let mut sources: Vec<ArchiveIndex> = Vec::new();
    for b in per {
        let mut buf = Cursor::new(Vec::new());
        if b.build(&mut buf).is_err() {
            return Verdict::pass().class("builder-refused");
        }
        match ArchiveIndex::parse(Cursor::new(buf.into_inner())) {
            Ok(i) => sources.push(i),
            Err(_) => return Verdict::pass().class("source-index-not-parsed(C03)"),
        }
    }
    let refs: Vec<(u16, &ArchiveIndex)> = sources.iter().enumerate().map(|(i, s)| (i as u16, s)).collect();
    let mut out = Cursor::new(Vec::new());
    if build_merged(&refs, &mut out).is_err() {
        return Verdict::pass().class("builder-refused");
    }
    let bytes = out.into_inner();
    let v = Verdict::pass().nontrivial(keys.len() >= 2 && shared > 0).class_if(keys.len() % 157 == 0 && !keys.is_empty(), "distinct-keys-fill-their-pages-exactly").class_if(shared > 0, "keys-shared-between-sources");
    match ArchiveGroup::parse(&mut Cursor::new(&bytes)) {
        Err(e) => v.with_fail("C08:archive-group:builder-output-rejected-by-own-parser", format!("{} distinct keys, {ns} sources, {shared} shared: {} ({} bytes)", keys.len(), vh_engine::util::normalise(&e.to_string()), bytes.len())),
        Ok(g) => {
            let got: Vec<&Vec<u8>> = g.entries.iter().map(|e| &e.encoding_key).collect();
            let want: Vec<&Vec<u8>> = keys.iter().collect();
            if got != want {
                return v.with_fail("C08:archive-group:builder-output-parses-to-different-content", format!("{} distinct keys, {ns} sources, {shared} shared: parsed {} entries", keys.len(), got.len()));
            }
            v
        }
    }
}

// ---- text configs ----------------------------------------------------------

#[derive(Debug, Clone, Serialize, Deserialize)]
struct ConfigProg {
    kind: u8,
    keys: u8,
    content_seed: u64,
}

fn check_config(c: &ConfigProg) -> Verdict {
    use cascette_formats::config::{BuildConfig, CdnConfig, KeyringConfig, PatchConfig, PatchEntry};
    let mut r = Rng::new(c.content_seed);
    const BKEYS: [&str; 14] = [
        "root", "install", "install-size", "download", "download-size", "encoding", "encoding-size", "size", "size-size", "patch", "build-name",
        "build-uid", "vfs-root", "vfs-1",
    ];
    const CKEYS: [&str; 8] = [
        "archives", "archives-index-size", "archive-group", "patch-archives", "patch-archive-group", "file-index", "file-index-size", "builds",
    ];
    let val = |r: &mut Rng| -> Vec<String> {
        let n = 1 + r.below(3) as usize;
        (0..n).map(|_| if r.below(2) == 0 { hex32(r) } else { format!("{}", r.below(1 << 40)) }).collect()
    };
    match c.kind % 4 {
        0 => {
            let mut v = BuildConfig::new();
            for _ in 0..c.keys {
                let k = if r.below(5) == 0 { format!("custom-key-{}", r.below(50)) } else { BKEYS[r.below(14) as usize].to_string() };
                v.set(k, val(&mut r));
            }
            roundtrip("build-config", &v).nontrivial(c.keys >= 2).class("build-config")
        }
        1 => {
            let mut v = CdnConfig::new();
            for _ in 0..c.keys {
                let k = if r.below(5) == 0 { format!("custom-key-{}", r.below(50)) } else { CKEYS[r.below(8) as usize].to_string() };
                v.set(k, val(&mut r));
            }
            roundtrip("cdn-config", &v).nontrivial(c.keys >= 2).class("cdn-config")
        }
        2 => {
            let mut v = PatchConfig::new();
            if r.below(2) == 0 {
                v.set_patch_hash(hex32(&mut r));
                v.set_patch_size(r.below(1 << 40));
            }
            for _ in 0..c.keys {
                if r.below(4) == 0 {
                    v.set_property(format!("prop-{}", r.below(20)), format!("{}", r.below(1000)));
                } else {
                    let ty = ["encoding", "install", "download", "size", "vfs:1"][r.below(5) as usize];
                    v.add_entry(PatchEntry::new(ty, hex32(&mut r), r.below(1 << 40), hex32(&mut r), r.below(1 << 40)));
                }
            }
            roundtrip("patch-config", &v).nontrivial(c.keys >= 2).class("patch-config")
        }
        _ => {
            let mut v = KeyringConfig::new();
            for _ in 0..c.keys {
                let id = hex::encode(r.bytes(8));
                let id = if r.below(3) == 0 { id.to_uppercase() } else { id };
                v.add_entry(id, hex32(&mut r));
            }
            roundtrip("keyring-config", &v).nontrivial(c.keys >= 2).class("keyring-config")
        }
    }
}

// ---- BPSV -------------------------------------------------------------------

#[derive(Debug, Clone, Serialize, Deserialize)]
struct BpsvProg {
    fields: u8,
    rows: u8,
    seqn: Option<u32>,
    content_seed: u64,
}

fn check_bpsv(c: &BpsvProg) -> Verdict {
    use cascette_formats::bpsv::{BpsvDocument, BpsvField, BpsvSchema, BpsvType};
    let mut r = Rng::new(c.content_seed);
    let nf = c.fields.max(1) as usize;
    let mut types = Vec::new();
    let fields: Vec<BpsvField> = (0..nf)
        .map(|i| {
            let t = match r.below(3) {
                0 => BpsvType::String(0),
                1 => BpsvType::Hex(16),
                _ => BpsvType::Dec(4),
            };
            types.push(t.clone());
            BpsvField::new(format!("Field{i}"), t)
        })
        .collect();
    let mut doc = BpsvDocument::new(BpsvSchema::new(fields));
    if let Some(s) = c.seqn {
        doc.set_sequence_number(s);
    }
    let mut added = 0;
    let mut blank_row = false;
    for _ in 0..c.rows {
        let vals: Vec<String> = types
            .iter()
            .map(|t| match t {
                BpsvType::String(_) => {
                    let n = r.below(12) as usize;
                    (0..n).map(|_| b"abcXYZ019 ._-/:?"[r.below(16) as usize] as char).collect::<String>().trim().to_string()
                }
                BpsvType::Hex(_) => {
                    if r.below(5) == 0 {
                        String::new()
                    } else {
                        hex32(&mut r)
                    }
                }
                BpsvType::Dec(_) => {
                    if r.below(6) == 0 {
                        String::new()
                    } else {
                        format!("{}", r.below(1 << 31))
                    }
                }
            })
            .collect();
        let blank = vals.len() == 1 && vals[0].is_empty();
        if doc.add_raw_row(vals).is_ok() {
            added += 1;
            blank_row |= blank;
        }
    }
    let mut v = roundtrip("bpsv", &doc).nontrivial(added >= 2).class_if(c.seqn.is_some(), "seqn").class_if(blank_row, "row-of-one-empty-field");
    if blank_row {
        if let Some(f) = &mut v.fail {
            f.key = "C08:bpsv:row-of-one-empty-field-serialises-to-a-blank-line-and-is-lost".into();
        }
    }
    v
}

// ---- ESpec --------------------------------------------------------------------

#[derive(Debug, Clone, Serialize, Deserialize)]
struct ESpecProg {
    depth: u8,
    content_seed: u64,
}

fn gen_espec(r: &mut Rng, depth: u8) -> cascette_formats::espec::ESpec {
    use cascette_formats::espec::{BlockChunk, BlockSizeSpec, ESpec, ZLibVariant};
    let pick = if depth == 0 { r.below(4) } else { r.below(6) };
    match pick {
        0 => ESpec::None,
        1 => {
            // documented domain: level 1-9, bits 8-15; window bits only together with a level
            let level = if r.below(3) == 0 { None } else { Some(1 + r.below(9) as u8) };
            let variant = if level.is_some() && r.below(3) == 0 { Some([ZLibVariant::MPQ, ZLibVariant::ZLib, ZLibVariant::LZ4HC][r.below(3) as usize].clone()) } else { None };
            let window_bits = if level.is_some() && variant.is_none() && r.below(3) == 0 { Some(8 + r.below(8) as u8) } else { None };
            ESpec::ZLib { level, variant, window_bits }
        }
        2 => ESpec::BCPack { bcn: if r.below(2) == 0 { None } else { Some(1 + r.below(7) as u8) } },
        3 => ESpec::GDeflate { level: if r.below(2) == 0 { None } else { Some(1 + r.below(9) as u8) } },
        4 => {
            let ivl = 1 + r.below(8) as usize;
            ESpec::Encrypted { key: hex::encode_upper(r.bytes(8)), iv: r.bytes(ivl), spec: Box::new(gen_espec(r, depth - 1)) }
        }
        _ => {
            let n = 1 + r.below(4) as usize;
            let mut chunks: Vec<BlockChunk> = (0..n)
                .map(|_| BlockChunk {
                    size_spec: Some(BlockSizeSpec { size: [1u64, 164, 1024, 16 * 1024, 256 * 1024, 1 << 20, 1656][r.below(7) as usize], count: if r.below(2) == 0 { None } else { Some(1 + r.below(600) as u32) } }),
                    spec: gen_espec(r, depth - 1),
                })
                .collect();
            if r.below(2) == 0 {
                // final "rest of file" chunk
                chunks.push(BlockChunk { size_spec: None, spec: gen_espec(r, depth - 1) });
            }
            ESpec::BlockTable { chunks }
        }
    }
}

fn check_espec(c: &ESpecProg) -> Verdict {
    let mut r = Rng::new(c.content_seed);
    let v = gen_espec(&mut r, c.depth.min(4));
    roundtrip("espec", &v).nontrivial(c.depth >= 1).class_if(matches!(v, cascette_formats::espec::ESpec::BlockTable { .. }), "block-table")
}

fn main() {
    let args: Vec<String> = std::env::args().collect();
    if args.get(1).map(String::as_str) == Some("worker") {
        if args.get(2).map(String::as_str) == Some("fixpoint") {
            vh_c02::targets::FIXPOINT.store(true, std::sync::atomic::Ordering::SeqCst);
        }
        vh_engine::iso::worker_main(TARGETS);
    }
    if args.get(1).map(String::as_str) == Some("debug-tvfs") {
        use cascette_formats::tvfs::TvfsFile;
        let j: serde_json::Value = serde_json::from_str(&std::fs::read_to_string(&args[2]).unwrap()).unwrap();
        let data = hex::decode(j["case"]["input"].as_str().unwrap()).unwrap();
        let sum = |p: &TvfsFile| format!("{:?} path.data={} files={} vfs.data={} vfs={} cft.data={} cft={} est={:?}", p.header, p.path_table.data.len(), p.path_table.files.len(), p.vfs_table.data.len(), p.vfs_table.entries.len(), p.container_table.data.len(), p.container_table.entries.len(), p.est_table.as_ref().map(|e| (e.specs.len(), e.specs.iter().map(|s| s.len() + 1).sum::<usize>())));
        let p1 = <TvfsFile as CascFormat>::parse(&data).unwrap();
        println!("in len {}\np1: {}", data.len(), sum(&p1));
        let b1 = p1.build().unwrap();
        let p2 = <TvfsFile as CascFormat>::parse(&b1).unwrap();
        println!("b1 len {}\np2: {}", b1.len(), sum(&p2));
        let b2 = p2.build().unwrap();
        println!("b2 len {}", b2.len());
        return;
    }
    if args.get(1).map(String::as_str) == Some("debug-root") {
        // developer aid: vh-c08 debug-root <replay.json>
        use cascette_formats::root::RootFile;
        let j: serde_json::Value = serde_json::from_str(&std::fs::read_to_string(&args[2]).unwrap()).unwrap();
        let data = hex::decode(j["case"]["input"].as_str().unwrap()).unwrap();
        let sum = |p: &RootFile| format!("version={:?} header={:?} blocks={:?}", p.version, p.header, p.blocks.iter().map(|b| (b.header.num_records, b.header.content_flags, b.header.locale_flags, b.records.len())).collect::<Vec<_>>());
        let p1 = <RootFile as CascFormat>::parse(&data).unwrap();
        println!("p1: {}", sum(&p1));
        let b1 = p1.build();
        println!("b1: {:?}", b1.as_ref().map(|b| (b.len(), hex::encode(&b[..b.len().min(48)]))));
        if let Ok(b1) = b1 {
            let p2 = <RootFile as CascFormat>::parse(&b1);
            match p2 {
                Ok(p2) => {
                    println!("p2: {}", sum(&p2));
                    let b2 = p2.build();
                    println!("b2: {:?}", b2.as_ref().map(|b| (b.len(), hex::encode(&b[..b.len().min(48)]))));
                }
                Err(e) => println!("p2 err: {e}"),
            }
        }
        return;
    }
    let mut ck = Check::from_args("C08", "exploration");
    let tier = ck.tier;
    ck.extra(
        "rule",
        "A (iso-fixpoint): the C02 input stream (seeds, truncations, boundary sweep, shapes, mutations, integrity fix-ups) for every CascFormat type in \
         isolated workers; for each ACCEPTED input: build must succeed, re-parse must succeed, second build byte-identical, logical projection equal; \
         non-trivial = accepted input that differs from every seed (distinct by input hash); real CDN fixtures must rebuild byte-identically (C). \
         B: generated builder programs for size manifest, patch archive, patch index, build/CDN/patch/keyring config, BPSV, ESpec: \
         parse(serialise(v)) has v's logical content; non-trivial = program with >= 2 entries"
            .into(),
    );
    ck.assume("logical projections in harness/c02/src/project.rs capture entries, keys, sizes, flags, tags (not raw page buffers, not derived hashes)");
    ck.assume("builder programs of BLTE, archive index/group, root, install, download, TVFS are checked against models by C01/C03/C19; here the encoding builder (page packing, independent page sizes) and TVFS values with wide container-table fields go through the plain round trip");

    let cfg = DriverCfg { fixpoint: true, targets: CASC_TARGETS.to_vec(), mutations_per_target: std::env::var("VH_C02_MUTATIONS").ok().and_then(|v| v.parse().ok()).unwrap_or(tier.pick(2_000, 200_000)), sweep: true };
    run_iso(&mut ck, "iso-fixpoint", &cfg);

    ck.run(
        Section::pbt(
            "builder-size",
            tier.pick(3_000, 300_000),
            || {
                (1u8..=2, prop_oneof![Just(9u8), Just(16u8), 1u8..=16], prop_oneof![Just(4u8), 1u8..=8], 0u8..4, prop_oneof![0u16..20, 0u16..300], any::<bool>(), any::<u64>())
                    .prop_map(|(version, ekey_size, esize_bytes, tags, entries, big_sizes, content_seed)| SizeProg { version, ekey_size, esize_bytes, tags, entries, big_sizes, content_seed })
                    .boxed()
            },
            check_size,
        )
        .shards(8),
    );
    ck.run(
        Section::pbt(
            "builder-encoding",
            tier.pick(600, 40_000),
            || {
                let kb = || prop_oneof![3 => Just(4u8), 1 => Just(1u8), 1 => Just(2u8), 1 => Just(8u8)];
                (prop_oneof![2 => 0u16..40, 3 => 100u16..800], prop_oneof![2 => 0u16..40, 3 => 100u16..1100], kb(), kb(), any::<bool>(), any::<u64>())
                    .prop_map(|(ckeys, ekeys, ckey_page_kb, ekey_page_kb, multi, content_seed)| EncodingProg { ckeys, ekeys, ckey_page_kb, ekey_page_kb, multi, content_seed })
                    .boxed()
            },
            check_encoding,
        )
        .shards(12),
    );
    ck.run(
        Section::enumerate(
            "tvfs-wide-offsets",
            "TvfsBuilder output with PATCH_SUPPORT (with and without content keys) of 3 / 40 / 300 / 2,800 / 4,000 files — container tables below 256 bytes, below and above 64 KiB — whose parsed entries get non-zero patch offsets before the value is serialised again: parse(build(v)) has v's content, second build identical",
            move || {
                let mut v = Vec::new();
                for files in [3u16, 40, 300, 2_800, 4_000] {
                    for flags in [4u8, 5] {
                        for k in 0..3u64 {
                            v.push(TvfsWideProg { files, flags, content_seed: 0xC08 ^ u64::from(files) << 8 ^ u64::from(flags) ^ k << 32 });
                        }
                    }
                }
                Box::new(v.into_iter())
            },
            check_tvfs_wide,
        )
        .shards(10),
    );
    ck.run(
        Section::pbt(
            "builder-patch-archive",
            tier.pick(2_000, 200_000),
            || {
                (prop_oneof![0u16..12, 0u16..400], 1u8..4, any::<bool>(), prop_oneof![4 => Just(true), 1 => Just(false)], prop_oneof![Just(16u8), 12u8..=20], any::<u64>())
                    .prop_map(|(entries, max_patches, with_encoding_info, sort, block_bits, content_seed)| PatchArchiveProg { entries, max_patches, with_encoding_info, sort, block_bits, content_seed })
                    .boxed()
            },
            check_patch_archive,
        )
        .shards(8),
    );
    ck.run(
        Section::pbt(
            "builder-patch-index",
            tier.pick(2_000, 200_000),
            || (prop_oneof![0u16..12, 0u16..500], any::<u64>()).prop_map(|(entries, content_seed)| PatchIndexProg { entries, content_seed }).boxed(),
            check_patch_index,
        )
        .shards(8),
    );
    ck.run(
        Section::enumerate(
            "builder-archive-index",
            "ArchiveIndexBuilder::with_config: every key size 1..=16 x offset width {4,5,6} x entry count {1, 2, 40, 200, 400}: the built index must be accepted by ArchiveIndex::parse with the same layout and entry count",
            || Box::new((1u8..=16).flat_map(|key| [4u8, 5, 6].into_iter().flat_map(move |off| [1u32, 2, 40, 200, 400].into_iter().map(move |n| ArchiveIndexProg { key, off, n })))),
            check_archive_index,
        )
        .shards(4),
    );
    ck.run(
        Section::enumerate(
            "builder-blte-many-chunks",
            "BlteFile::multi_chunk over 255 / 256 / 65,535 / 65,536 / 65,541 / 70,000 one-byte chunks (the count is a 24-bit field): build -> parse -> same chunks, second build identical",
            || Box::new([255u32, 256, 65_535, 65_536, 65_541, 70_000].into_iter().map(|chunks| ManyChunksProg { chunks })),
            check_many_chunks,
        )
        .shards(6),
    );
    ck.run(
        Section::enumerate(
            "builder-archive-group-merged",
            "build_merged over 1..=3 source indices, distinct keys in {1, 2, 156, 157, 158, 313, 314, 315, 471, 628}, no key / every 2nd / every 7th key present in all sources: ArchiveGroup::parse accepts the output and finds each distinct key once, in order",
            || Box::new([1u16, 2, 156, 157, 158, 313, 314, 315, 471, 628].into_iter().flat_map(|distinct| (1u8..=3).flat_map(move |sources| [0u8, 2, 7].into_iter().map(move |shared_every| GroupProg { distinct, sources, shared_every })))),
            check_group,
        )
        .shards(8),
    );
    ck.run(
        Section::pbt(
            "builder-configs",
            tier.pick(4_000, 400_000),
            || (0u8..4, 0u8..12, any::<u64>()).prop_map(|(kind, keys, content_seed)| ConfigProg { kind, keys, content_seed }).boxed(),
            check_config,
        )
        .shards(8),
    );
    ck.run(
        Section::pbt(
            "builder-bpsv",
            tier.pick(3_000, 300_000),
            || (1u8..8, 0u8..12, proptest::option::of(any::<u32>()), any::<u64>()).prop_map(|(fields, rows, seqn, content_seed)| BpsvProg { fields, rows, seqn, content_seed }).boxed(),
            check_bpsv,
        )
        .shards(8),
    );
    ck.run(
        Section::pbt(
            "builder-espec",
            tier.pick(5_000, 500_000),
            || (0u8..5, any::<u64>()).prop_map(|(depth, content_seed)| ESpecProg { depth, content_seed }).boxed(),
            check_espec,
        )
        .shards(8),
    );
    let _ = pick_idx(0, 1);
    ck.finish();
}
