//! C14 — retries are bounded, ordered and respect back-off limits.
//!
//! Every case is a retry policy (built from the public fields, or through
//! `RetryPolicy::from_env`) plus a scripted sequence of outcomes.  The policy's
//! `execute` runs on a current-thread tokio runtime whose clock is paused, the
//! closure logs the virtual time of each attempt and answers from the script,
//! so every delay is measured exactly and no wall-clock time is involved.

use cascette_protocol::error::ProtocolError;
use cascette_protocol::retry::RetryPolicy;
use proptest::prelude::*;
use reqwest::StatusCode;
use serde::{Deserialize, Serialize};
use std::cell::RefCell;
mod http429;

use std::sync::Mutex;
use std::time::Duration;
use vh_engine::{Check, Known, Section, Verdict};

// ---------------------------------------------------------------------------
// case

/// One scripted outcome of the operation.
#[derive(Debug, Clone, Copy, PartialEq, Eq, Serialize, Deserialize)]
enum Out {
    /// the operation succeeds
    Ok,
    /// a retryable error that carries no Retry-After hint (u8 picks the variant)
    Retryable(u8),
    /// `RateLimited { retry_after: Some(ms) }`
    Hinted(u64),
    /// `RateLimited { retry_after: None }`
    Limited,
    /// a non-retryable error (u8 picks the variant)
    Fatal(u8),
}

#[derive(Debug, Clone, Serialize, Deserialize)]
struct Case {
    max_attempts: u32,
    initial_backoff: Duration,
    max_backoff: Duration,
    /// text form, parsed with `str::parse::<f64>` exactly as `from_env` does
    /// (JSON has no NaN)
    multiplier: String,
    jitter: bool,
    /// outcome of call 1, 2, …; calls beyond the script get `Retryable(0)`
    script: Vec<Out>,
    /// virtual milliseconds every attempt takes before it returns its outcome (a request that
    /// runs into a timeout, a slow answer): the wait between attempts is counted from the END of
    /// the failed attempt
    #[serde(default)]
    busy_ms: u64,
    /// the five environment texts as they are, instead of the rendering of the fields above
    /// (arbitrary text in one variable)
    #[serde(default)]
    env_raw: Option<[String; 5]>,
}

const INITIALS: [Duration; 4] = [Duration::ZERO, Duration::from_millis(1), Duration::from_millis(100), Duration::from_secs(10)];
const MAXES: [Duration; 6] = [
    Duration::ZERO,
    Duration::from_millis(1),
    Duration::from_secs(1),
    Duration::from_secs(10),
    Duration::from_secs(3600),
    Duration::from_secs(u64::MAX),
];
const MULTS: [&str; 8] = ["0", "0.5", "1", "2", "10", "1e30", "NaN", "-1"];
/// the five ways an attempt can fail and be retried
const NONTERMINAL: [Out; 5] = [Out::Retryable(0), Out::Hinted(0), Out::Hinted(1_000), Out::Hinted(3_600_000), Out::Limited];
const N_RETRYABLE: u8 = 6;
const N_FATAL: u8 = 12;

/// Build the concrete error for outcome `o` of call `i` (tagged with `i` where the variant has a payload).
fn mk_err(o: Out, i: usize) -> ProtocolError {
    match o {
        Out::Ok => unreachable!(),
        Out::Retryable(v) => match v % N_RETRYABLE {
            0 => ProtocolError::Timeout,
            1 => ProtocolError::ServiceUnavailable,
            2 => ProtocolError::Network(std::io::Error::new(std::io::ErrorKind::ConnectionReset, format!("call {i}"))),
            3 => ProtocolError::ServerError(StatusCode::from_u16(500 + (i as u16 % 5)).unwrap()),
            4 => ProtocolError::HttpStatus(StatusCode::BAD_GATEWAY),
            _ => ProtocolError::HttpStatus(StatusCode::TOO_MANY_REQUESTS),
        },
        Out::Hinted(ms) => ProtocolError::RateLimited { retry_after: Some(Duration::from_millis(ms)) },
        Out::Limited => ProtocolError::RateLimited { retry_after: None },
        Out::Fatal(v) => match v % N_FATAL {
            0 => ProtocolError::Parse(format!("call {i}")),
            1 => ProtocolError::Other(format!("call {i}")),
            2 => ProtocolError::HttpStatus(StatusCode::NOT_FOUND),
            3 => ProtocolError::InvalidKey,
            4 => ProtocolError::InvalidEndpoint(format!("call {i}")),
            5 => ProtocolError::AllHostsFailed,
            6 => ProtocolError::RangeNotSupported,
            // permanent server conditions: ProtocolError::should_retry's documentation names 429, 500,
            // 502, 503 and 504 as the transient HttpStatus codes (table kept here, not asked of the code)
            7 => ProtocolError::HttpStatus(StatusCode::NOT_IMPLEMENTED),
            8 => ProtocolError::HttpStatus(StatusCode::HTTP_VERSION_NOT_SUPPORTED),
            9 => ProtocolError::HttpStatus(StatusCode::INSUFFICIENT_STORAGE),
            10 => ProtocolError::HttpStatus(StatusCode::NETWORK_AUTHENTICATION_REQUIRED),
            _ => ProtocolError::HttpStatus(StatusCode::FORBIDDEN),
        },
    }
}

fn retryable(o: Out) -> bool {
    matches!(o, Out::Retryable(_) | Out::Hinted(_) | Out::Limited)
}

// ---------------------------------------------------------------------------
// policy construction

const ENV_VARS: [&str; 5] =
    ["CASCETTE_MAX_RETRIES", "CASCETTE_RETRY_BACKOFF", "CASCETTE_MAX_BACKOFF", "CASCETTE_BACKOFF_MULTIPLIER", "CASCETTE_RETRY_JITTER"];
static ENV_LOCK: Mutex<()> = Mutex::new(());

/// Environment text for the case, if it is expressible (whole ms / whole s).
fn env_text(c: &Case) -> Option<[String; 5]> {
    if c.initial_backoff.subsec_nanos() % 1_000_000 != 0 || c.max_backoff.subsec_nanos() != 0 {
        return None;
    }
    let ms = u64::try_from(c.initial_backoff.as_millis()).ok()?;
    Some([
        c.max_attempts.to_string(),
        ms.to_string(),
        c.max_backoff.as_secs().to_string(),
        c.multiplier.clone(),
        c.jitter.to_string(),
    ])
}

/// `RetryPolicy::from_env` under the five documented variables; the previous
/// environment is restored.  Only called from the single-threaded section.
fn policy_from_env(vals: &[String; 5]) -> Result<Option<RetryPolicy>, String> {
    let _g = ENV_LOCK.lock().unwrap_or_else(|e| e.into_inner());
    let saved: Vec<Option<std::ffi::OsString>> = ENV_VARS.iter().map(std::env::var_os).collect();
    for (k, v) in ENV_VARS.iter().zip(vals) {
        // SAFETY: the section runs with shards(1); no other thread of this process reads or writes the environment meanwhile.
        unsafe { std::env::set_var(k, v) };
    }
    let r = vh_engine::util::catch_panic(RetryPolicy::from_env);
    for (k, v) in ENV_VARS.iter().zip(saved) {
        // SAFETY: as above
        unsafe {
            match v {
                Some(v) => std::env::set_var(k, v),
                None => std::env::remove_var(k),
            }
        }
    }
    match r {
        Ok(Ok(p)) => Ok(Some(p)),
        // a configuration that is refused cannot make a call misbehave
        Ok(Err(_)) => Ok(None),
        Err(p) => Err(format!("from_env panicked at {}:{}: {}", p.file, p.line, p.msg)),
    }
}

// ---------------------------------------------------------------------------
// execution + oracle

const K_MORE: &str = "C14:execute:more-attempts-than-max-retries-plus-one";
const K_AFTER_OK: &str = "C14:execute:continued-after-success";
const K_AFTER_FATAL: &str = "C14:execute:continued-after-non-retryable-error";
const K_RESULT: &str = "C14:execute:result-is-not-the-last-outcome";
const K_EARLY: &str = "C14:execute:gave-up-on-retryable-error-before-retries-exhausted";
const K_HINT_SHORT: &str = "C14:hint:wait-shorter-than-retry-after";
const K_HINT_LONG: &str = "C14:hint:wait-longer-than-retry-after-plus-jitter";
const K_FIRST: &str = "C14:backoff:first-delay-exceeds-max-backoff:initial>max";
const K_EXCEEDS: &str = "C14:backoff:delay-exceeds-max-backoff";
const K_EXACT: &str = "C14:backoff:delay-differs-from-min(initial*m^k,max):jitter-off";
const K_TOTAL: &str = "C14:execute:total-wait-exceeds-sum-of-bounds";
const K_PANIC_NEG: &str = "C14:execute:panic:backoff-update:negative-float-seconds-to-duration";
const K_PANIC_BIG: &str = "C14:execute:panic:backoff-update:float-seconds-too-big-for-duration";
const K_PANIC_ADD: &str = "C14:execute:panic:jitter:duration-add-overflow";
const K_ENV: &str = "C14:from_env:panic";

/// timer granularity of tokio (deadlines are rounded up to the next ms)
const TICK: f64 = 1e-3;
const EPS: f64 = 1e-6;
/// tokio clamps sleeps it cannot represent to "30 years from now"; above this only a lower bound is checked
const HORIZON: f64 = 1e8;
/// virtual time after which delays are no longer judged (see the loop over the gaps)
const CLOCK_RANGE: f64 = 1000.0 * 365.0 * 86_400.0;
/// a sleep between this and 2^63 s is representable for tokio but takes ~10^8 clock hops or saturates the clock;
/// no such policy is generated (u64::MAX s itself is clamped by tokio to 30 years)
const SLOW_SLEEP: f64 = 1e14;

fn run_case(c: &Case, known: &Known, via_env: bool) -> Verdict {
    let Ok(mult) = c.multiplier.parse::<f64>() else {
        return Verdict::pass(); // never generated
    };
    let policy = if via_env {
        let Some(vals) = c.env_raw.clone().or_else(|| env_text(c)) else { return Verdict::pass() };
        match policy_from_env(&vals) {
            Ok(Some(p)) => p,
            Ok(None) => return Verdict::pass().class("from_env-refused-the-values"),
            Err(e) => return Verdict::fail(K_ENV, format!("{vals:?}: {e}")),
        }
    } else {
        RetryPolicy {
            max_attempts: c.max_attempts,
            initial_backoff: c.initial_backoff,
            max_backoff: c.max_backoff,
            multiplier: mult,
            jitter: c.jitter,
        }
    };
    // the configuration the oracle holds the call to is what the policy object says
    let a = policy.max_attempts as usize;
    let initial_s = policy.initial_backoff.as_secs_f64();
    let max_s = policy.max_backoff.as_secs_f64();
    let m = policy.multiplier;
    let jit = if policy.jitter { 1.3 } else { 1.0 };
    let env_differs = via_env
        && c.env_raw.is_none()
        && (policy.max_attempts != c.max_attempts
            || policy.initial_backoff != c.initial_backoff
            || policy.max_backoff != c.max_backoff
            || policy.jitter != c.jitter
            || !(m == mult || (m.is_nan() && mult.is_nan())));

    // a runaway loop is cut by a non-retryable error (and then reported by the attempt bound)
    let cap = a + 4;
    let outcome_of = |i: usize| -> Out {
        if i > cap {
            Out::Fatal(1)
        } else if i <= c.script.len() {
            c.script[i - 1]
        } else if a > 1_000 {
            // a policy with (nearly) unlimited retries: the operation recovers when the script ends
            Out::Ok
        } else {
            Out::Retryable(0)
        }
    };

    let log: RefCell<Vec<tokio::time::Instant>> = RefCell::new(Vec::new());
    let ends: RefCell<Vec<tokio::time::Instant>> = RefCell::new(Vec::new());
    let busy = Duration::from_millis(c.busy_ms.min(3_600_000));
    // "no constructible policy makes the call panic": a panic is a failure whose key names its origin
    let ran = vh_engine::util::catch_panic(|| {
        let rt = tokio::runtime::Builder::new_current_thread().enable_time().start_paused(true).build().expect("runtime");
        rt.block_on(async {
            let r = policy
                .execute(|| {
                    let i = {
                        let mut l = log.borrow_mut();
                        l.push(tokio::time::Instant::now());
                        l.len()
                    };
                    let ends = &ends;
                    async move {
                        if !busy.is_zero() {
                            tokio::time::sleep(busy).await;
                        }
                        ends.borrow_mut().push(tokio::time::Instant::now());
                        match outcome_of(i) {
                            Out::Ok => Ok(i),
                            o => Err(mk_err(o, i)),
                        }
                    }
                })
                .await;
            (r, tokio::time::Instant::now())
        })
    });
    let (res, end) = match ran {
        Ok(x) => x,
        Err(p) => {
            let n = log.borrow().len();
            let outs: Vec<Out> = (1..=n).map(outcome_of).collect();
            let key = if p.msg.contains("cannot convert float seconds to Duration: value is negative") {
                K_PANIC_NEG.to_string()
            } else if p.msg.contains("cannot convert float seconds to Duration: value is either too big or NaN") {
                K_PANIC_BIG.to_string()
            } else if p.msg.contains("overflow when adding durations") {
                K_PANIC_ADD.to_string()
            } else {
                let file = p.file.rsplit("/library/").next().unwrap_or(&p.file).to_string();
                format!("C14:execute:panic:{}:{}", file, p.norm_msg())
            };
            return Verdict::fail(key, format!("panic after {n} attempt(s) at {}:{}: {}; policy={policy:?} outcomes={outs:?}", p.file, p.line, p.msg));
        }
    };
    let times = log.into_inner();
    let n = times.len();
    let outs: Vec<Out> = (1..=n).map(outcome_of).collect();
    let ctx = || format!("policy={policy:?} outcomes={outs:?}");

    if n == 0 {
        return Verdict::fail(K_RESULT, format!("execute returned without attempting the operation; {}", ctx()));
    }
    // 1. bounded
    if n > a + 1 {
        return Verdict::fail(K_MORE, format!("{n} attempts with max_attempts={a}; {}", ctx()));
    }
    // 2. ordered: only a retryable failure may be followed by another attempt
    for (i, o) in outs[..n - 1].iter().enumerate() {
        match o {
            Out::Ok => return Verdict::fail(K_AFTER_OK, format!("attempt {} succeeded but {} attempts were made; {}", i + 1, n, ctx())),
            Out::Fatal(_) => {
                return Verdict::fail(K_AFTER_FATAL, format!("attempt {} failed with a non-retryable error but {} attempts were made; {}", i + 1, n, ctx()));
            }
            _ => {}
        }
    }
    // 3. the result is exactly the outcome of the last attempt
    let last = outs[n - 1];
    let want = match last {
        Out::Ok => format!("Ok({n})"),
        o => format!("Err({:?})", mk_err(o, n)),
    };
    let got = match &res {
        Ok(v) => format!("Ok({v})"),
        Err(e) => format!("Err({e:?})"),
    };
    if got != want {
        return Verdict::fail(K_RESULT, format!("returned {got}, last attempt produced {want}; {}", ctx()));
    }
    // 4. retries are used up before a retryable error is handed back
    if retryable(last) && n < a + 1 {
        return Verdict::fail(K_EARLY, format!("{n} attempts, max_attempts={a}, returned {got}; {}", ctx()));
    }

    // 5. delays
    let mut v = Verdict::pass();
    // from the end of attempt k to the start of attempt k+1
    let ended = ends.borrow().clone();
    let gaps: Vec<f64> = (0..times.len().saturating_sub(1)).map(|k| (times[k + 1] - ended.get(k).copied().unwrap_or(times[k])).as_secs_f64()).collect();
    let any_hint = outs.iter().any(|o| matches!(o, Out::Hinted(_)));
    let exact = !policy.jitter && m.is_finite() && m >= 1.0 && !any_hint;
    let mut sum_hi = 0.0f64;
    let mut cur = initial_s; // initial * m^k
    let (mut hinted_gap, mut hint_over_max, mut clamped, mut exact_checked) = (false, false, false, false);
    let mut clock_range_exceeded = false;
    for (k, &gap) in gaps.iter().enumerate() {
        // tokio's virtual clock counts u64 milliseconds and saturates: once the call has slept for more than
        // 1000 years in total the measurements are no longer meaningful (a single unrepresentable sleep is 30 years)
        if (times[k + 1] - times[0]).as_secs_f64() > CLOCK_RANGE {
            clock_range_exceeded = true;
            break;
        }
        match outs[k] {
            Out::Hinted(ms) => {
                let h = ms as f64 / 1000.0;
                hinted_gap = true;
                hint_over_max |= h > max_s;
                if gap < h - EPS {
                    return Verdict::fail(K_HINT_SHORT, format!("waited {gap}s after a Retry-After of {h}s (attempt {}); {}", k + 1, ctx()));
                }
                let hi = jit * h + TICK + EPS;
                if gap > hi {
                    return Verdict::fail(K_HINT_LONG, format!("waited {gap}s after a Retry-After of {h}s (attempt {}, jitter={}); {}", k + 1, policy.jitter, ctx()));
                }
                sum_hi += hi;
            }
            _ => {
                let hi = jit * max_s + TICK + EPS;
                let mut tolerated = false;
                if gap > hi {
                    let msg = format!("waited {gap}s after attempt {} with max_backoff={max_s}s initial_backoff={initial_s}s jitter={}; {}", k + 1, policy.jitter, ctx());
                    if k == 0 && policy.initial_backoff > policy.max_backoff {
                        if known.is_open(K_FIRST) {
                            v.known_hits.push(K_FIRST.to_string());
                            tolerated = true;
                        } else {
                            return Verdict::fail(K_FIRST, msg);
                        }
                    } else {
                        return Verdict::fail(K_EXCEEDS, msg);
                    }
                }
                sum_hi += if tolerated { gap + TICK } else { hi };
                if exact && !tolerated {
                    let e = cur.min(max_s);
                    clamped |= cur >= max_s && k > 0;
                    exact_checked = true;
                    let bad = if e <= HORIZON { gap < e - EPS - 1e-9 * e || gap > e + TICK + EPS + 1e-9 * e } else { gap < HORIZON };
                    if bad {
                        return Verdict::fail(
                            K_EXACT,
                            format!("delay {k} was {gap}s, min(initial*m^{k}, max) = {e}s (initial={initial_s}s m={m} max={max_s}s); {}", ctx()),
                        );
                    }
                }
            }
        }
        cur *= m;
    }
    // 6. no waiting outside the delays above ("wait for ever")
    let total = (end - times[0]).as_secs_f64();
    let busy_total = busy.as_secs_f64() * n as f64 + TICK * n as f64;
    if !clock_range_exceeded && total > sum_hi + busy_total + TICK {
        return Verdict::fail(K_TOTAL, format!("call took {total}s of virtual time, the delays are bounded by {sum_hi}s; {}", ctx()));
    }

    v.nontrivial(n >= 2)
        .class_if(n >= 2, "retried")
        .class_if(n == a + 1 && retryable(last), "retries-exhausted")
        .class_if(n >= 2 && last == Out::Ok, "ok-after-retry")
        .class_if(n >= 2 && matches!(last, Out::Fatal(_)), "fatal-after-retry")
        .class_if(hinted_gap, "hinted-gap")
        .class_if(hint_over_max, "hint>max_backoff")
        .class_if(exact_checked, "exact-progression-checked")
        .class_if(clamped, "exact-progression-clamped")
        .class_if(policy.initial_backoff > policy.max_backoff, "initial>max")
        .class_if(m.is_nan(), "multiplier-nan")
        .class_if(m < 0.0, "multiplier-negative")
        .class_if(m >= 0.0 && m < 1.0, "multiplier<1")
        .class_if(policy.max_backoff == Duration::from_secs(u64::MAX), "max=u64::MAX s")
        .class_if(policy.jitter && n >= 2, "jitter-on")
        .class_if(a >= 4, "max_attempts>=4")
        .class_if(via_env, "via-from_env")
        .class_if(env_differs, "from_env-fields-differ-from-text")
        .class_if(clock_range_exceeded, "virtual-clock-range-exceeded")
        .class_if(gaps.iter().any(|g| *g > HORIZON), "slept-unrepresentable-delay")
}

// ---------------------------------------------------------------------------
// generators

/// Canonical scripts for `a` retries: every sequence of ≤ a+1 retryable
/// failures followed by a success or by a non-retryable error, and every
/// sequence of a+2 retryable failures.  (What follows the first success /
/// non-retryable error is never observed, so these are all sequences of
/// length ≤ a+2 up to their observable prefix.)
fn scripts(a: u32, salt: usize) -> Vec<Vec<Out>> {
    let mut out = Vec::new();
    let mut level: Vec<Vec<Out>> = vec![Vec::new()];
    for len in 0..=(a as usize + 2) {
        if len <= a as usize + 1 {
            for (j, p) in level.iter().enumerate() {
                let mut s = p.clone();
                s.push(Out::Ok);
                out.push(s);
                let mut s = p.clone();
                s.push(Out::Fatal(((salt + j + len) % N_FATAL as usize) as u8));
                out.push(s);
            }
        } else {
            out.extend(level.iter().cloned());
            break;
        }
        let mut next = Vec::with_capacity(level.len() * NONTERMINAL.len());
        for (j, p) in level.iter().enumerate() {
            for sym in NONTERMINAL {
                let mut s = p.clone();
                s.push(match sym {
                    Out::Retryable(_) => Out::Retryable(((salt + j + len) % N_RETRYABLE as usize) as u8),
                    o => o,
                });
                next.push(s);
            }
        }
        level = next;
    }
    out
}

fn grid_policies(max_a: u32) -> impl Iterator<Item = (u32, Duration, Duration, &'static str, bool)> + Send {
    (0..=max_a).flat_map(|a| {
        INITIALS.into_iter().flat_map(move |i| {
            MAXES.into_iter().flat_map(move |mx| MULTS.into_iter().flat_map(move |mu| [false, true].into_iter().map(move |j| (a, i, mx, mu, j))))
        })
    })
}

fn sym_strategy() -> impl Strategy<Value = Out> {
    prop_oneof![
        5 => (0..N_RETRYABLE).prop_map(Out::Retryable),
        1 => Just(Out::Hinted(0)),
        1 => Just(Out::Hinted(1_000)),
        1 => Just(Out::Hinted(3_600_000)),
        2 => Just(Out::Limited),
        1 => Just(Out::Ok),
        1 => (0..N_FATAL).prop_map(Out::Fatal),
    ]
}

fn sampled_strategy() -> BoxedStrategy<Case> {
    // grid values first (shrinking moves towards them), then a few off-grid ones
    let initials: Vec<Duration> = INITIALS.into_iter().chain([Duration::from_millis(7), Duration::from_secs(3600)]).collect();
    let maxes: Vec<Duration> = MAXES.into_iter().chain([Duration::from_millis(50), Duration::from_secs(86_400 * 365)]).collect();
    let mults: Vec<&'static str> = MULTS.into_iter().chain(["1.5", "3", "inf", "-inf", "-0", "1e-30", "1.7976931348623157e308"]).collect();
    (
        prop_oneof![2 => 0u32..=3, 10 => 4u32..=5, 1 => proptest::sample::select(vec![u32::MAX, u32::MAX - 1, 1u32 << 31, 65_536])],
        prop_oneof![12 => proptest::sample::select(initials), 1 => proptest::sample::select(vec![Duration::from_secs(u64::MAX), Duration::MAX])],
        proptest::sample::select(maxes),
        proptest::sample::select(mults),
        any::<bool>(),
        (proptest::collection::vec(sym_strategy(), 0..=7), prop_oneof![6 => Just(0u64), 1 => Just(1u64), 1 => Just(300u64), 1 => Just(15_000u64)]),
    )
        .prop_map(|(a, i, mx, mu, j, (mut script, busy_ms))| {
            script.truncate(a as usize + 2);
            // keep the documented delays min(initial*m^k, max) out of the range the virtual clock cannot walk through
            let m: f64 = mu.parse().unwrap_or(0.0);
            let d1 = (i.as_secs_f64() * m).min(mx.as_secs_f64());
            let mu = if m > 0.0 && m < 1.0 && d1 >= SLOW_SLEEP { "0" } else { mu };
            Case { max_attempts: a, initial_backoff: i, max_backoff: mx, multiplier: mu.to_string(), jitter: j, script, busy_ms, env_raw: None }
        })
        .boxed()
}

fn main() {
    // Every tracing event of the library is formatted (and thrown away): the arguments of a log
    // line are evaluated only when a subscriber listens, and an application always has one.
    let _ = tracing_subscriber::fmt().with_max_level(tracing_subscriber::filter::LevelFilter::TRACE).with_writer(std::io::sink).try_init();
    let mut ck = Check::from_args("C14", "exploration");
    let tier = ck.tier;
    ck.extra(
        "rule",
        "policy grid (max_attempts x initial_backoff x max_backoff x multiplier x jitter, incl. initial > max, zero, NaN, negative, huge) x scripted outcome \
         sequences over {Ok, retryable, RateLimited with hint 0/1 s/1 h, RateLimited without hint, non-retryable}; RetryPolicy::execute on a paused tokio clock, \
         attempt times logged by the closure; non-trivial = at least 2 attempts were made; distinct by case hash"
            .into(),
    );
    ck.assume("tokio's paused clock: a sleep completes at its deadline rounded up to the next millisecond and never earlier (1 ms tolerance on upper bounds)");
    ck.assume("a tracing subscriber at level TRACE is installed (output discarded), as in any application that logs: log arguments are evaluated");
    ck.assume("jitter comes from the library's own thread RNG: jittered delays are checked against bounds only, never against exact values");
    ck.assume(
        "CdnClient::download_with_retry runs RetryPolicy::default() (a grid point) through the same execute loop; its HTTP status mapping \
         (5xx -> ServerError, 429 -> RateLimited{Retry-After}, other -> HttpStatus) is represented by the scripted error variants; HTTP traffic is generated only by section cdn-429-retry-after (real clock, lower bounds only)",
    );
    ck.assume("retryable / non-retryable variants are the ones listed in ProtocolError::should_retry (reqwest::Error values cannot be constructed offline)");
    ck.assume(
        "tokio clamps a sleep it cannot represent (u64::MAX s) to 30 years and its virtual clock saturates after u64::MAX ms: delays later than 1000 years \
         of virtual time are not judged, expected delays above 1e8 s are only checked from below, and no policy whose documented delay \
         min(initial*m^k, max) lies in [1e14 s, 2^63 s) is generated (the paused clock would need ~10^8 hops to walk through it)",
    );
    ck.assume(
        "the exact progression gap_k = min(initial*m^k, max) (jitter off, finite multiplier >= 1, no hint) and 'a retryable error is only returned after \
         max_attempts retries' are taken from the field docs and the crate's own tests (test_backoff_progression, test_execute_exceed_max_attempts)",
    );
    ck.assume("a configuration that RetryPolicy::from_env refuses (Err) is not a constructible policy; from_env itself must not panic");

    // 1. exhaustive part of the grid
    let max_a = tier.pick(3u32, 4u32);
    let known = ck.known().clone();
    ck.run(
        Section::enumerate(
            "grid-exhaustive",
            format!(
                "max_attempts 0..={max_a} x initial {{0,1ms,100ms,10s}} x max {{0,1ms,1s,10s,1h,u64::MAX s}} x multiplier {{0,0.5,1,2,10,1e30,NaN,-1}} x jitter on/off x \
                 every outcome sequence of length <= max_attempts+2 (up to the unobservable tail after the first success / non-retryable error)"
            ),
            move || {
                Box::new(grid_policies(max_a).enumerate().flat_map(|(pi, (a, i, mx, mu, j))| {
                    scripts(a, pi).into_iter().map(move |script| Case {
                        max_attempts: a,
                        initial_backoff: i,
                        max_backoff: mx,
                        multiplier: mu.to_string(),
                        jitter: j,
                        script,
                        busy_ms: if pi % 5 == 4 { 250 } else { 0 },
                        env_raw: None,
                    })
                }))
            },
            move |c: &Case| run_case(c, &known, false),
        )
        .shards(16)
        .panic_prefix_("execute"),
    );

    // 2. the rest of the grid (max_attempts 4..5, longer scripts, a few off-grid values), sampled
    let known = ck.known().clone();
    ck.run(
        Section::pbt("grid-sampled", tier.pick(60_000, 4_000_000), sampled_strategy, move |c: &Case| run_case(c, &known, false))
            .shards(16)
            .panic_prefix_("execute"),
    );

    // 2b. the HTTP end of the hint: what CdnClient makes of a 429's Retry-After header
    ck.run(
        Section::enumerate(
            "cdn-429-retry-after",
            "a loopback HTTP server answers CdnClient::download with 1..=3 responses `429` carrying Retry-After absent / `0` / `1` / `1.5` / `-1` / `soon` / an HTTP-date / empty, then `200`; the arrival times of the requests are logged: an integer header is the hint (waited at least that long), every other form is documented as ignored, i.e. the default policy's 100 ms, 200 ms, 400 ms (never less); plus 403 / 404 / 410 (final: one request) and 500 / 503 (ordinary backoff) carrying a Retry-After header",
            || Box::new(http429::all_cases().into_iter()),
            http429::check,
        )
        .shards(16),
    );

    // 3. the same values as environment text through RetryPolicy::from_env (process-global: one thread)
    let known = ck.known().clone();
    ck.run(
        Section::enumerate(
            "from-env",
            "CASCETTE_MAX_RETRIES 0..=5 x CASCETTE_RETRY_BACKOFF {0,1,100,10000} x CASCETTE_MAX_BACKOFF {0,1,10,3600,u64::MAX} x CASCETTE_BACKOFF_MULTIPLIER \
             {0,0.5,1,2,10,1e30,NaN,-1} x CASCETTE_RETRY_JITTER {false,true} x 4 outcome sequences (all retryable; hint/no-hint/retryable then Ok; \
             two retryable then non-retryable; immediate Ok)",
            move || {
                Box::new(grid_policies(5).filter(|p| p.2.subsec_nanos() == 0).flat_map(|(a, i, mx, mu, j)| {
                    [
                        vec![],
                        vec![Out::Hinted(1_000), Out::Limited, Out::Retryable(3), Out::Ok],
                        vec![Out::Retryable(2), Out::Retryable(5), Out::Fatal(2)],
                        vec![Out::Ok],
                    ]
                    .into_iter()
                    .map(move |script| Case { max_attempts: a, initial_backoff: i, max_backoff: mx, multiplier: mu.to_string(), jitter: j, script, busy_ms: 0, env_raw: None })
                }))
            },
            move |c: &Case| run_case(c, &known, true),
        )
        .shards(1)
        .panic_prefix_("execute"),
    );

    // 4. arbitrary text in one environment variable at a time
    let known = ck.known().clone();
    ck.run(
        Section::enumerate(
            "from-env-texts",
            "each of the five CASCETTE_* variables in turn set to one of 22 texts (empty, blanks, words, negative, fractional, exponent, inf, NaN, 2^64-1, 2^64, 2^128, hex, signed, trailing blank, non-ASCII digits, true/false/1/0/yes) with the other four at plain values; from_env must not panic, and a policy it returns is run through three outcome sequences".to_string(),
            move || {
                const TEXTS: [&str; 22] = [
                    "", " ", "abc", "-1", "1.5", "1e3", "1e20", "1e400", "inf", "-inf", "NaN", "18446744073709551615", "18446744073709551616", "340282366920938463463374607431768211456", "0x10", "+5", "5 ",
                    "\u{663}", "true", "false", "1", "yes",
                ];
                let plain = ["2", "10", "1", "2", "false"];
                let mut v = Vec::new();
                for var in 0..5 {
                    for t in TEXTS {
                        let mut vals: [String; 5] = plain.map(str::to_string);
                        vals[var] = t.to_string();
                        for script in [vec![], vec![Out::Retryable(0), Out::Limited, Out::Ok], vec![Out::Hinted(1_000), Out::Fatal(0)]] {
                            v.push(Case { max_attempts: 2, initial_backoff: Duration::from_millis(10), max_backoff: Duration::from_secs(1), multiplier: "2".into(), jitter: false, script, busy_ms: 0, env_raw: Some(vals.clone()) });
                        }
                    }
                }
                Box::new(v.into_iter())
            },
            move |c: &Case| run_case(c, &known, true),
        )
        .shards(1)
        .panic_prefix_("execute"),
    );
    ck.finish();
}

trait PanicPrefix {
    fn panic_prefix_(self, p: &str) -> Self;
}
impl<C> PanicPrefix for Section<C> {
    /// the same panic found through any section is the same finding
    fn panic_prefix_(mut self, p: &str) -> Self {
        self.panic_prefix = Some(p.to_string());
        self
    }
}
