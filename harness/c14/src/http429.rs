//! C14 / cdn-429-retry-after: the server's Retry-After hint as it travels over HTTP.
//!
//! `CdnClient::download` runs `RetryPolicy::default()` (3 retries, 100 ms initial backoff, factor 2,
//! jitter) and maps a 429 to `RateLimited { retry_after }` with the header parsed by
//! `parse_retry_after`, documented as: "Only the seconds (integer) format is supported. HTTP-date
//! format is ignored." The loopback server logs when each request arrives; only lower bounds on
//! the gaps are judged (a loaded machine makes gaps longer, never shorter).

use cascette_protocol::cache::ProtocolCache;
use cascette_protocol::cdn::{CdnClient, CdnEndpoint, ContentType};
use cascette_protocol::config::{CacheConfig, CdnConfig};
use serde::{Deserialize, Serialize};
use std::sync::{Arc, Mutex};
use std::time::{Duration, Instant};
use tokio::io::{AsyncReadExt, AsyncWriteExt};
use vh_engine::Verdict;

#[derive(Debug, Clone, Serialize, Deserialize)]
pub struct Case {
    /// value of the Retry-After header of every 429; None = no such header
    pub header: Option<String>,
    /// number of 429 responses before the 200 (1..=3: within the default policy's retries)
    pub n429: u8,
    /// status of the error responses (default 429). 4xx other than 429 is final: one request, the
    /// error is returned whatever headers it carries; 5xx is retried with the ordinary backoff
    #[serde(default = "d429")]
    pub status: u16,
    /// 0 `download`, 1 `download_with_resume(.., None)`, 2 `download_archive_index`: three entry
    /// points documented to run the same retry policy
    #[serde(default)]
    pub api: u8,
}

fn d429() -> u16 {
    429
}

pub fn all_cases() -> Vec<Case> {
    let headers: [Option<&str>; 9] = [None, Some("0"), Some("1"), Some("1.5"), Some("-1"), Some("soon"), Some("Wed, 21 Oct 2037 07:28:00 GMT"), Some(""), Some("0x1")];
    let mut v = Vec::new();
    for h in headers {
        for n429 in 1..=3u8 {
            if h == Some("1") && n429 > 2 {
                continue; // 3 s of waiting add nothing
            }
            v.push(Case { header: h.map(str::to_string), n429, status: 429, api: 0 });
        }
    }
    // other error statuses carrying a Retry-After header
    for status in [403u16, 404, 410, 500, 503] {
        for h in [Some("0"), Some("1"), None] {
            v.push(Case { header: h.map(str::to_string), n429: 2, status, api: 0 });
        }
    }
    // the other entry points, and servers that do not recover within the policy's retries (4 and 9
    // error answers: the call makes exactly 1 + 3 requests and returns the last error)
    for api in 0..3u8 {
        for (status, h) in [(429u16, Some("0")), (503, None), (500, None)] {
            for n429 in [1u8, 3, 4, 9] {
                if api == 0 && n429 <= 3 && status == 429 {
                    continue;
                }
                v.push(Case { header: h.map(str::to_string), n429, status, api });
            }
        }
    }
    // redirects that never arrive
    for api in 0..3u8 {
        for status in [301u16, 302, 307, 308] {
            v.push(Case { header: None, n429: 200, status, api });
        }
    }
    v
}

const BODY: &[u8] = b"payload-of-the-cdn-object";

async fn serve(listener: tokio::net::TcpListener, case: Case, log: Arc<Mutex<Vec<Instant>>>) {
    loop {
        let Ok((mut sock, _)) = listener.accept().await else { return };
        let case = case.clone();
        let log = Arc::clone(&log);
        tokio::spawn(async move {
            let mut buf = Vec::new();
            let mut tmp = [0u8; 2048];
            loop {
                // one request head
                while !buf.windows(4).any(|w| w == b"\r\n\r\n") {
                    match sock.read(&mut tmp).await {
                        Ok(0) | Err(_) => return,
                        Ok(n) => buf.extend_from_slice(&tmp[..n]),
                    }
                }
                let end = buf.windows(4).position(|w| w == b"\r\n\r\n").unwrap() + 4;
                buf.drain(..end);
                let n = {
                    let mut g = log.lock().unwrap();
                    g.push(Instant::now());
                    g.len()
                };
                let resp = if n <= usize::from(case.n429) {
                    let mut r = format!("HTTP/1.1 {} Status\r\nContent-Length: 0\r\n", case.status);
                    if let Some(h) = &case.header {
                        r.push_str(&format!("Retry-After: {h}\r\n"));
                    }
                    if (300..400).contains(&case.status) {
                        // a redirect that never arrives: each hop points at another path of this server
                        r.push_str(&format!("Location: /hop/{n}\r\n"));
                    }
                    r.push_str("\r\n");
                    r.into_bytes()
                } else {
                    let mut r = format!("HTTP/1.1 200 OK\r\nContent-Length: {}\r\n\r\n", BODY.len()).into_bytes();
                    r.extend_from_slice(BODY);
                    r
                };
                if sock.write_all(&resp).await.is_err() {
                    return;
                }
            }
        });
    }
}

pub fn check(c: &Case) -> Verdict {
    let rt = match tokio::runtime::Builder::new_current_thread().enable_all().build() {
        Ok(r) => r,
        Err(_) => return Verdict::pass().class("VACUOUS:no-runtime"),
    };
    let log: Arc<Mutex<Vec<Instant>>> = Arc::new(Mutex::new(Vec::new()));
    let log2 = Arc::clone(&log);
    let case = c.clone();
    let case_api = c.api;
    let res = rt.block_on(async move {
        let listener = tokio::net::TcpListener::bind("127.0.0.1:0").await.map_err(|e| format!("bind: {e}"))?;
        let port = listener.local_addr().map_err(|e| e.to_string())?.port();
        let server = tokio::spawn(serve(listener, case, log2));
        let cache = ProtocolCache::new(&CacheConfig { cache_dir: None, ..CacheConfig::default() }).map_err(|e| format!("ProtocolCache::new: {e}"))?;
        let client = CdnClient::new(Arc::new(cache), CdnConfig::default()).map_err(|e| format!("CdnClient::new: {e}"))?;
        let ep = CdnEndpoint { host: format!("127.0.0.1:{port}"), path: "tpr/test".into(), product_path: None, scheme: Some("http".into()), is_fallback: false, strict: false, max_hosts: None };
        let key = [0xABu8, 0xCD, 1, 2, 3, 4, 5, 6, 7, 8, 9, 10, 11, 12, 13, 14];
        let r = match case_api {
            1 => tokio::time::timeout(Duration::from_secs(120), client.download_with_resume(&ep, ContentType::Data, &key, None)).await,
            2 => tokio::time::timeout(Duration::from_secs(120), client.download_archive_index(&ep, "abcd0102030405060708090a0b0c0d0e")).await,
            _ => tokio::time::timeout(Duration::from_secs(120), client.download(&ep, ContentType::Data, &key)).await,
        };
        server.abort();
        Ok::<_, String>(r)
    });
    let r = match res {
        Ok(r) => r,
        Err(_) => return Verdict::pass().class("VACUOUS:no-loopback"),
    };
    let times = log.lock().unwrap().clone();
    let what = format!("Retry-After {:?}, {} x {} then 200", c.header, c.n429, c.status);
    let hint: Option<u64> = c.header.as_deref().and_then(|h| h.parse::<u64>().ok());
    let mut v = Verdict::pass().nontrivial(true).class(match (&c.header, hint) {
        (None, _) => "no-header",
        (Some(_), Some(_)) => "integer-seconds",
        (Some(_), None) => "header-not-an-integer",
    });
    if c.status != 429 && (400..500).contains(&c.status) {
        // a final answer: the first non-retryable error ends the call
        return match r {
            Err(_) => Verdict::fail("C14:cdn-429:download-does-not-return-within-120s", what),
            Ok(Ok(_)) => Verdict::fail("C14:cdn-4xx:final-status-retried-until-success", format!("status {} with {what}: download returned Ok after {} requests", c.status, times.len())),
            Ok(Err(_)) if times.len() != 1 => Verdict::fail("C14:cdn-4xx:final-status-requested-again", format!("status {} with {what}: the server saw {} requests, a non-retryable answer ends the call after 1", c.status, times.len())),
            Ok(Err(_)) => v.class("final-4xx-with-retry-after"),
        };
    }
    let hint = if c.status == 429 { hint } else { None };
    v = v.class(["api:download", "api:download_with_resume(None)", "api:download_archive_index"][usize::from(c.api.min(2))]);
    if (300..400).contains(&c.status) {
        // The HTTP client gives up on the chain of redirects (reqwest: at most 10 hops) and reports
        // an error that is final: one attempt, i.e. at most 11 requests.
        return match r {
            Err(_) => Verdict::fail("C14:cdn-429:download-does-not-return-within-120s", what),
            Ok(Ok(_)) => Verdict::fail("C14:cdn-redirects:endless-redirects-answered-with-content", format!("{what}: Ok after {} requests", times.len())),
            Ok(Err(_)) if times.len() > 11 => Verdict::fail(
                "C14:cdn-redirects:redirect-error-retried",
                format!("{what}: the server saw {} requests; following a chain of redirects takes at most 11, and 'too many redirects' is an answer, not a transient fault", times.len()),
            ),
            Ok(Err(_)) => v.class("endless-redirects:one-attempt"),
        };
    }
    if c.n429 > 3 {
        // the default policy: one attempt and three retries, then the last error
        return match r {
            Err(_) => Verdict::fail("C14:cdn-429:download-does-not-return-within-120s", what),
            Ok(Ok(_)) => Verdict::fail("C14:cdn-retries:result-of-an-attempt-beyond-the-configured-retries-returned", format!("{what}: Ok after {} requests; the default policy allows 1 + 3 attempts", times.len())),
            Ok(Err(_)) if times.len() != 4 => Verdict::fail("C14:cdn-retries:more-or-fewer-requests-than-one-plus-the-configured-retries", format!("{what}: the server saw {} requests, the default policy makes 1 + 3", times.len())),
            Ok(Err(_)) => v.class("server-never-recovers:4-requests-then-error"),
        };
    }
    match r {
        Err(_) => return Verdict::fail("C14:cdn-429:download-does-not-return-within-120s", what),
        Ok(Err(e)) => return Verdict::fail("C14:cdn-429:gives-up-within-the-configured-retries", format!("{what}: download returned Err({e}) after {} requests; the default policy allows 3 retries", times.len())),
        Ok(Ok(b)) => {
            if b != BODY {
                return Verdict::fail("C14:cdn-429:wrong-body", format!("{what}: {} bytes", b.len()));
            }
        }
    }
    if times.len() != usize::from(c.n429) + 1 {
        return Verdict::fail("C14:cdn-429:attempt-count", format!("{what}: the server saw {} requests, expected {}", times.len(), c.n429 + 1));
    }
    for k in 0..usize::from(c.n429) {
        let gap = times[k + 1].duration_since(times[k]);
        let want = match hint {
            Some(s) => Duration::from_secs(s),
            None => Duration::from_millis(100 << k),
        };
        // 2 % slack for timer granularity; no upper bound (machine load)
        if gap + want / 50 + Duration::from_millis(1) < want {
            let key = if hint.is_some() { "C14:cdn-429:waited-less-than-the-hint" } else { "C14:cdn-429:ignored-header-shortens-the-backoff" };
            return Verdict::fail(key, format!("{what}: request {} arrived {:?} after request {}, expected at least {:?}", k + 2, gap, k + 1, want));
        }
        if gap > Duration::from_secs(30) + want {
            v = v.class("gap-30s-above-expectation");
        }
    }
    v
}
