//! C07 — integrity checks reject every corruption of what they protect.
//!
//! Fault enumeration: every single-bit flip (exhaustive for builder-made
//! artifacts, sampled for the large fixtures) inside the protected region of a
//! valid artifact, plus random substitutions / deletions / insertions of 1–8
//! bytes, handed to the real loader; and put / corrupt / get sequences on the
//! validating caches. All guards are recomputed with the reference MD5 /
//! lookup3 (vh_engine::refimpl) before an acceptance is called a violation.

mod art;
mod caches;
mod checks;
mod edit;
mod shared;
mod tcp;

use art::Art;
use checks::*;
use edit::{Edit, EditSel, pick32};
use proptest::prelude::*;
use serde::{Deserialize, Serialize};
use std::sync::Arc;
use std::sync::atomic::Ordering;
use vh_engine::util::{Rng, hexbytes};
use vh_engine::{Check, Section, Verdict};

fn total_of(name: &str, enc_region: EncRegion) -> usize {
    match art::get(name).as_deref() {
        Ok(Art::Enc(a)) => {
            if enc_region == EncRegion::Pages {
                a.page_regions().total()
            } else {
                a.sum_regions().total()
            }
        }
        Ok(Art::Aidx(_)) => 20,
        Ok(Art::Lru(a)) => a.bytes.len(),
        Ok(Art::Upd(a)) => a.regions().total(),
        Ok(Art::Idx(a)) => a.regions().total(),
        Err(_) => 0,
    }
}

fn all_flips(total: usize) -> impl Iterator<Item = Edit> + Send {
    (0..total as u32).flat_map(|pos| (0..8u8).map(move |bit| Edit::Flip { pos, bit }))
}

/// every deletion of 1..=8 bytes at every position of a `total`-byte region
fn all_deletions(total: usize) -> impl Iterator<Item = Edit> + Send {
    (0..total as u32).flat_map(|pos| (1..=8u8).map(move |n| Edit::Delete { pos, n }))
}

/// n flips at seed-chosen positions plus the first and last byte of every `stride`-sized block
fn sampled_flips(total: usize, n: usize, stride: usize, seed: u64) -> Vec<Edit> {
    let mut v = Vec::new();
    if total == 0 {
        return v;
    }
    let mut r = Rng::new(seed);
    let mut b = 0;
    while stride > 0 && b < total {
        for pos in [b, (b + stride - 1).min(total - 1)] {
            for bit in [0u8, 7] {
                v.push(Edit::Flip { pos: pos as u32, bit });
            }
        }
        b += stride;
    }
    for _ in 0..n {
        v.push(Edit::Flip { pos: r.below(total as u64) as u32, bit: r.below(8) as u8 });
    }
    v
}

#[derive(Debug, Clone, Serialize, Deserialize)]
struct IntactCase {
    art: String,
}

#[derive(Debug, Clone, Serialize, Deserialize)]
struct EncPbt {
    art: String,
    region: EncRegion,
    edit: EditSel,
}

#[derive(Debug, Clone, Serialize, Deserialize)]
struct ArtPbt {
    art: String,
    edit: EditSel,
}

#[derive(Debug, Clone, Serialize, Deserialize)]
enum LruSel {
    Edit(EditSel),
    DropEntries { n: u8 },
    AddEntries { n: u8, seed: u64 },
}

#[derive(Debug, Clone, Serialize, Deserialize)]
struct LruPbt {
    art: String,
    fault: LruSel,
}

#[derive(Debug, Clone, Serialize, Deserialize)]
struct EntPbt {
    ent: EntSpec,
    edit: EditSel,
}

#[derive(Debug, Clone, Serialize, Deserialize)]
struct HdrPbt {
    key_seed: u64,
    blte_size: u32,
    base: u32,
    edit: EditSel,
}

#[derive(Debug, Clone, Serialize, Deserialize)]
struct V1Pbt {
    #[serde(with = "hexbytes")]
    resp: Vec<u8>,
    edit: EditSel,
}

/// span length of a generated length fault: bytes, or a multiple of a structural unit
#[derive(Debug, Clone, Serialize, Deserialize)]
enum LenSel {
    Bytes(u32),
    /// k units of 0 = record, 1 = TOC entry, 2 = page
    Units(u32, u8),
}

#[derive(Debug, Clone, Serialize, Deserialize)]
struct AidxLenPbt {
    art: String,
    sel: u32,
    n: LenSel,
    /// snap the position down to a record boundary (data pages) / TOC entry boundary
    align: bool,
    insert: bool,
    copy_neighbour: bool,
}

/// (record size, page size, pages, toc entry size) of an archive-index artifact
fn aidx_geometry(name: &str) -> Option<(usize, usize, usize, usize, usize)> {
    let a = art::get(name).ok()?;
    let Art::Aidx(a) = &*a else { return None };
    let f = &a.bytes[a.bytes.len() - 28..];
    let rec = usize::from(f[12]) + usize::from(f[13]) + usize::from(f[14]);
    let page = usize::from(f[11]) * 1024;
    let toc = usize::from(f[14]) + usize::from(f[15]);
    if rec == 0 || page == 0 {
        return None;
    }
    let pages = (a.bytes.len() - 28) / (page + toc);
    Some((rec, page, pages, toc, a.bytes.len() - 28))
}

impl AidxLenPbt {
    fn resolve(&self) -> AidxLenCase {
        let Some((rec, page, pages, toc, body)) = aidx_geometry(&self.art) else {
            return AidxLenCase { art: self.art.clone(), pos: 0, n: 1, insert: self.insert, copy_neighbour: false };
        };
        let mut pos = pick32(self.sel, body + 1);
        if self.align {
            if pos < pages * page {
                pos -= pos % page % rec;
            } else {
                pos -= (pos - pages * page) % toc;
            }
        }
        let n = match self.n {
            LenSel::Bytes(n) => n as usize,
            LenSel::Units(k, u) => k as usize * [rec, toc, page][usize::from(u) % 3],
        };
        AidxLenCase { art: self.art.clone(), pos: pos as u32, n: n as u32, insert: self.insert, copy_neighbour: self.copy_neighbour }
    }
}

fn aidx_len_grid(name: &'static str) -> Vec<AidxLenCase> {
    let Some((rec, page, pages, toc, body)) = aidx_geometry(name) else { return Vec::new() };
    let a = art::get(name).ok();
    let count = match a.as_deref() {
        Some(Art::Aidx(a)) => {
            let f = &a.bytes[a.bytes.len() - 28..];
            u32::from_le_bytes([f[16], f[17], f[18], f[19]]) as usize
        }
        _ => 0,
    };
    let per_page = page / rec;
    let mut pos = Vec::new();
    for p in 0..pages.min(3).max(if pages > 0 { 1 } else { 0 }) {
        // first pages and (below) the last page
        for pg in [p, pages - 1 - p] {
            let used = if pg == pages - 1 { count - per_page * (pages - 1) } else { per_page };
            let base = pg * page;
            for r in (0..used.min(8)).chain(used.saturating_sub(8)..=used) {
                pos.push(base + r * rec);
            }
            pos.push(base + rec / 2); // inside a record
            pos.push(base + used * rec + (page - used * rec) / 2); // padding (or page end)
            pos.push(base + page - 1);
        }
    }
    for t in 0..pages.min(4) {
        pos.push(pages * page + t * toc);
        pos.push(pages * page + (pages - 1 - t) * toc);
    }
    pos.push(pages * page + pages * toc / 2 + 3);
    pos.push(body);
    pos.sort_unstable();
    pos.dedup();
    let spans = [1, 8, rec, 2 * rec, 3 * rec, toc, page];
    let mut v = Vec::new();
    for &p in &pos {
        for &n in &spans {
            v.push(AidxLenCase { art: name.into(), pos: p as u32, n: n as u32, insert: false, copy_neighbour: false });
            v.push(AidxLenCase { art: name.into(), pos: p as u32, n: n as u32, insert: true, copy_neighbour: false });
            v.push(AidxLenCase { art: name.into(), pos: p as u32, n: n as u32, insert: true, copy_neighbour: true });
        }
    }
    v
}

fn names(v: &[&'static str]) -> impl Strategy<Value = String> + use<> {
    // an empty list (all artifacts of a kind failed their self-check: infrastructure trouble
    // already reported) still needs a value; the placeholder makes every case vacuous
    let mut l = v.iter().map(|s| (*s).to_string()).collect::<Vec<_>>();
    if l.is_empty() {
        l.push("none".into());
    }
    proptest::sample::select(l)
}

/// Responses of the real server code for every V1 endpoint.
fn v1_responses() -> Result<Vec<(String, Vec<u8>)>, String> {
    use cascette_ribbit::{AppState, ServerConfig};
    let dir = crate::scratch_dir().map_err(|e| e.to_string())?;
    let rec = |id: u64, product: &str, version: &str, build: &str, salt: u32| {
        serde_json::json!({
            "id": id, "product": product, "version": version, "build": build,
            "build_config": hex::encode(art::k16(salt)), "cdn_config": hex::encode(art::k16(salt + 1)),
            "keyring": null, "product_config": hex::encode(art::k16(salt + 2)),
            "build_time": "2024-01-01T00:00:00+00:00",
            "encoding_ekey": hex::encode(art::k16(salt + 3)), "root_ekey": hex::encode(art::k16(salt + 4)),
            "install_ekey": hex::encode(art::k16(salt + 5)), "download_ekey": hex::encode(art::k16(salt + 6)),
        })
    };
    let db = serde_json::json!([rec(1, "wow", "1.13.2.32600", "32600", 10), rec(2, "wow", "1.15.7.61491", "61491", 20), rec(3, "wow_classic_era", "1.15.8.65989", "65989", 30)]);
    let p = dir.path().join("builds.json");
    std::fs::write(&p, db.to_string()).map_err(|e| e.to_string())?;
    let cfg = ServerConfig {
        http_bind: "127.0.0.1:0".parse().unwrap(),
        tcp_bind: "127.0.0.1:0".parse().unwrap(),
        builds: p,
        cdn_hosts: "cdn.example.test cdn2.example.test".into(),
        cdn_path: "tpr/wow".into(),
        tls_cert: None,
        tls_key: None,
    };
    let state = AppState::new(&cfg).map_err(|e| e.to_string())?;
    let mut out = Vec::new();
    for cmd in ["v1/summary", "v1/products/wow/versions", "v1/products/wow/cdns", "v1/products/wow_classic_era/bgdl"] {
        let r = cascette_ribbit::tcp::v1::handle_v1_command(cmd, &state).map_err(|e| format!("{cmd}: {e}"))?;
        let r = r.into_bytes();
        if v1_layout(&r).is_none() {
            return Err(format!("{cmd}: response does not end with a checksum line covering the bytes before it"));
        }
        match cascette_protocol::mime_parser::parse_v1_mime_response(&r) {
            Ok(x) if x.checksum.is_some() => {}
            Ok(_) => return Err(format!("{cmd}: parser found no checksum in the server response")),
            Err(e) => return Err(format!("{cmd}: server response rejected by parse_v1_mime_response: {e}")),
        }
        out.push((cmd.to_string(), r));
    }
    // Unusual but legal: the protected part itself mentions "Checksum: " (a BPSV comment line).
    // Made from the server's versions response; the epilogue line is recomputed over the new
    // protected bytes. Kept only when the parser accepts it.
    let base = out.iter().find(|(c, _)| c.ends_with("/versions")).map(|(_, r)| r.clone());
    if let Some(base) = base {
        for (name, line) in [
            ("versions+comment-mentioning-checksum", &b"## Checksum: SHA-256 over everything before the last line\n"[..]),
            ("versions+comment-with-64-hex-digits", &b"## Checksum: 0123456789abcdef0123456789abcdef0123456789abcdef0123456789abcdef\n"[..]),
        ] {
            let Some(at) = checks::v1_layout(&base) else { continue };
            let Some(seqn) = base.windows(7).position(|w| w == b"## seqn") else { continue };
            let Some(eol) = base[seqn..at].iter().position(|&b| b == b'\n') else { continue };
            let mut r = base[..seqn + eol + 1].to_vec();
            r.extend_from_slice(line);
            r.extend_from_slice(&base[seqn + eol + 1..at]);
            let sum = hex::encode(<sha2::Sha256 as sha2::Digest>::digest(&r));
            r.extend_from_slice(b"Checksum: ");
            r.extend_from_slice(sum.as_bytes());
            r.extend_from_slice(b"\r\n");
            // (whether the parser *finds* the checksum is not asked here: if it does not, every flip below is accepted and reported)
            let accepted = cascette_protocol::mime_parser::parse_v1_mime_response(&r).is_ok();
            if checks::v1_layout(&r).is_some() && accepted {
                out.push((name.to_string(), r));
            }
        }
    }
    // The shape the official servers send: a data part AND a signature part, then the checksum
    // line over everything before it (the in-repo server sends the data part alone).
    let body = "Region!STRING:0|BuildConfig!HEX:16|CDNConfig!HEX:16|BuildId!DEC:4|VersionsName!String:0\n## seqn = 2461791\nus|0123456789abcdef0123456789abcdef|fedcba9876543210fedcba9876543210|61491|1.15.7.61491\neu|00112233445566778899aabbccddeeff|ffeeddccbbaa99887766554433221100|61491|1.15.7.61491\n";
    for (name, binary) in [("official-shape+base64-signature", false), ("official-shape+binary-signature", true)] {
        let b = "a1b2c3";
        let mut r = format!(
            "MIME-Version: 1.0\r\nContent-Type: multipart/alternative; boundary=\"{b}\"\r\nFrom: Test/1.0\r\n\r\n--{b}\r\nContent-Type: text/plain\r\nContent-Disposition: version\r\n\r\n{body}\r\n"
        )
        .into_bytes();
        if binary {
            r.extend_from_slice(format!("--{b}\r\nContent-Type: application/octet-stream\r\nContent-Disposition: signature\r\n\r\n").as_bytes());
            r.extend((0..256u32).map(|i| if i as u8 == b'-' { b'.' } else { (i * 7 + 3) as u8 }).map(|x| if x == b'-' { b'.' } else { x }));
            r.extend_from_slice(b"\r\n");
        } else {
            r.extend_from_slice(format!("--{b}\r\nContent-Type: application/octet-stream\r\nContent-Disposition: signature\r\nContent-Transfer-Encoding: base64\r\n\r\n{}\r\n", "QUJDREVGR0hJSktMTU5PUFFSU1RVVldYWVo".repeat(3)).as_bytes());
        }
        r.extend_from_slice(format!("--{b}--\r\n").as_bytes());
        let sum = hex::encode(<sha2::Sha256 as sha2::Digest>::digest(&r));
        r.extend_from_slice(format!("Checksum: {sum}\r\n").as_bytes());
        if checks::v1_layout(&r).is_some() && cascette_protocol::mime_parser::parse_v1_mime_response(&r).is_ok() {
            out.push((name.to_string(), r));
        }
    }
    Ok(out)
}

/// Per-case scratch directory. Memory-backed when possible: the disk cache fsyncs every
/// value, and on a shared, I/O-loaded machine that alone can stretch a run tenfold. Nothing
/// in the property depends on the medium.
pub fn scratch_dir() -> std::io::Result<tempfile::TempDir> {
    let shm = std::path::Path::new("/dev/shm");
    if std::env::var_os("VH_C07_TMP_ON_DISK").is_none() && shm.is_dir() {
        if let Ok(d) = tempfile::Builder::new().prefix("vh-c07-").tempdir_in(shm) {
            return Ok(d);
        }
    }
    tempfile::Builder::new().prefix("vh-c07-").tempdir()
}

struct StderrParked(Option<i32>);

impl StderrParked {
    fn new() -> Self {
        if std::env::var_os("VH_C07_KEEP_STDERR").is_some() {
            return StderrParked(None);
        }
        // SAFETY: plain descriptor juggling on fd 2; no Rust object owns these descriptors
        unsafe {
            let saved = libc::dup(2);
            let null = libc::open(c"/dev/null".as_ptr(), libc::O_WRONLY);
            if saved < 0 || null < 0 {
                return StderrParked(None);
            }
            libc::dup2(null, 2);
            libc::close(null);
            StderrParked(Some(saved))
        }
    }
}

impl Drop for StderrParked {
    fn drop(&mut self) {
        if let Some(saved) = self.0.take() {
            // SAFETY: restores the descriptor saved in `new`
            unsafe {
                libc::dup2(saved, 2);
                libc::close(saved);
            }
        }
    }
}

fn main() {
    let mut ck = Check::from_args("C07", "fault_enumeration");
    let tier = ck.tier;
    let seed = ck.seed;
    ck.extra(
        "rule",
        "a fault (single-bit flip; substitution, deletion, insertion of 1-8 bytes; whole-entry truncation/extension for .lru) is applied inside the protected \
         region of an artifact that the real loader accepted un-mutated; non-trivial = at least one protected byte, as read by the loader at the position its \
         unchanged layout prescribes, differs from the original, and the loader was run on it. Cache sequences: non-trivial = a validating read was issued while \
         the backing store held bytes whose reference MD5 differs from the requested key and the read reported an error. Distinct by case hash."
            .into(),
    );
    ck.assume("reference MD5 / lookup3 in vh_engine::refimpl are correct (pinned by published vectors in vh-selftest); SHA-256 of the sha2 crate is used only to confirm that the server's checksum line covers exactly the bytes before it");
    ck.assume("an acceptance is reported only when the reference hash of the bytes the loader saw disagrees with the stored hash it saw; agreeing cases (true collisions) are counted in class ref-consistent");
    ck.assume("archive-index toc_hash (documented as unchecked), the first_key fields of the encoding page index and the padding byte 23 of an update entry are outside the protected regions; cache values above 1 MiB occur only in the fixed cases of section caches-around-100MiB");
    ck.assume("UpdateEntry keeps the status as an enum: a raw status byte that reads back as the same status yields an entry equal to the accepted original and is counted (class status-byte-alias-of-same-entry), not reported");
    let bad = vh_engine::refimpl::self_test();
    for b in &bad {
        ck.infra(format!("reference self-test failed: {b}"));
    }
    if !bad.is_empty() {
        ck.finish();
    }
    // every artifact must be accepted un-mutated and agree with the reference hashes
    let mut sizes = serde_json::Map::new();
    for n in art::all_names() {
        match art::get(n) {
            Ok(_) => {
                sizes.insert(n.to_string(), serde_json::json!({"protected_bytes": total_of(n, EncRegion::Pages)}));
            }
            // reported as a failure by the section below
            Err(art::ArtErr::WeakerThanDocumented(_)) => {}
            Err(e) => ck.infra(format!("artifact {n}: {e}")),
        }
    }
    ck.extra("artifacts", sizes.into());
    let ok = |n: &str| art::get(n).is_ok();

    // the intact artifacts themselves: stored hash = documented hash (reference), loader accepts
    ck.run(Section::enumerate(
        "intact-artifacts",
        "every artifact used below, un-mutated: the stored hashes equal the documented hash computed with the reference MD5 / lookup3, and the real loader accepts the file",
        || Box::new(art::all_names().into_iter().map(|n| IntactCase { art: n.to_string() })),
        |c: &IntactCase| match art::get(&c.art) {
            Ok(_) => Verdict::pass().class("accepted-and-reference-consistent"),
            Err(art::ArtErr::WeakerThanDocumented(m)) => Verdict::fail(
                format!("C07:{}:producer-and-loader-agree-on-a-weaker-hash-than-documented", c.art.split(':').next().unwrap_or("?")),
                format!("{}: {m}", c.art),
            ),
            Err(_) => Verdict::pass().class("VACUOUS"),
        },
    ));

    // ------------------------------------------------------------ encoding
    if ok(art::ENC_BUILT) {
        let tp = total_of(art::ENC_BUILT, EncRegion::Pages);
        ck.run(
            Section::enumerate(
                "enc-built-page-flips",
                format!("exhaustive: every single-bit flip of every byte ({tp} bytes) of all CKey and EKey pages of the builder-made encoding file (60 entries, 1 KiB pages)"),
                move || Box::new(all_flips(tp).map(|edit| EncCase { art: art::ENC_BUILT.into(), region: EncRegion::Pages, edit })),
                check_enc,
            )
            .shards(16),
        );
    }
    {
        let arts: Vec<&'static str> = std::iter::once(art::ENC_BUILT).chain(art::ENC_FIXTURES).filter(|n| ok(n)).collect();
        ck.run(
            Section::enumerate(
                "enc-stored-checksum-flips",
                "exhaustive: every single-bit flip of every stored 16-byte page checksum in the page index of the builder-made file and of both CDN fixtures",
                move || {
                    let arts = arts.clone();
                    Box::new(arts.into_iter().flat_map(|n| all_flips(total_of(n, EncRegion::Sums)).map(move |edit| EncCase { art: n.into(), region: EncRegion::Sums, edit })))
                },
                check_enc,
            )
            .shards(16),
        );
    }
    {
        let arts: Vec<&'static str> = art::ENC_FIXTURES.into_iter().filter(|n| ok(n)).collect();
        let n = tier.pick(4000, 100_000);
        ck.run(
            Section::enumerate(
                "enc-fixture-page-flips",
                format!("sampled: per CDN fixture (2 CKey + 2 EKey pages of 4 KiB) {n} seed-chosen single-bit flips plus bits 0 and 7 of the first and last byte of every page"),
                move || {
                    let arts = arts.clone();
                    Box::new(arts.into_iter().enumerate().flat_map(move |(i, a)| {
                        sampled_flips(total_of(a, EncRegion::Pages), n, 4096, seed ^ 0xE0 ^ i as u64).into_iter().map(move |edit| EncCase { art: a.into(), region: EncRegion::Pages, edit })
                    }))
                },
                check_enc,
            )
            .shards(16),
        );
    }
    {
        let arts: Vec<&'static str> = std::iter::once(art::ENC_BUILT).chain(art::ENC_FIXTURES).filter(|n| ok(n)).collect();
        ck.run(
            Section::pbt(
                "enc-edits",
                tier.pick(6000, 600_000),
                move || {
                    (names(&arts), prop_oneof![5 => Just(EncRegion::Pages), 1 => Just(EncRegion::Sums)], edit::strat::edits(true))
                        .prop_map(|(art, region, edit)| EncPbt { art, region, edit })
                        .boxed()
                },
                |c: &EncPbt| check_enc(&EncCase { art: c.art.clone(), region: c.region, edit: c.edit.resolve(total_of(&c.art, c.region)) }),
            )
            .shards(16),
        );
    }

    // ------------------------------------------------------- archive index
    {
        let arts: Vec<&'static str> = art::AIDX_BUILT.into_iter().chain(art::AIDX_FIXTURES).filter(|n| ok(n)).collect();
        let a2 = arts.clone();
        ck.run(
            Section::enumerate(
                "aidx-footer-flips",
                "exhaustive: every single-bit flip of footer bytes [8..28) (version, reserved, page size, offset/size/key widths, hash size, element count, stored footer hash) of 4 builder-made indices (16/4 one and two chunks, 9/5, 16/6) and 3 CDN fixtures; through ArchiveIndex::parse and ChunkedArchiveIndex::open",
                move || {
                    let arts = arts.clone();
                    Box::new(arts.into_iter().flat_map(|n| all_flips(20).map(move |edit| AidxCase { art: n.into(), edit, chunked: true })))
                },
                check_aidx,
            )
            .shards(16),
        );
        let a3 = a2.clone();
        ck.run(
            Section::enumerate(
                "aidx-footer-deletions",
                "exhaustive: every deletion of 1..=8 bytes starting at every position of footer bytes [8..28) (incl. cutting off the tail of the file) of the same 7 indices; through ArchiveIndex::parse and ChunkedArchiveIndex::open",
                move || {
                    let arts = a3.clone();
                    Box::new(arts.into_iter().flat_map(|n| all_deletions(20).map(move |edit| AidxCase { art: n.into(), edit, chunked: true })))
                },
                check_aidx,
            )
            .shards(16),
        );
        ck.run(
            Section::pbt(
                "aidx-edits",
                tier.pick(4000, 400_000),
                move || (names(&a2), edit::strat::edits(true), proptest::bool::weighted(0.2)).prop_map(|(art, edit, chunked)| (ArtPbt { art, edit }, chunked)).boxed(),
                |c: &(ArtPbt, bool)| check_aidx(&AidxCase { art: c.0.art.clone(), edit: c.0.edit.resolve(20), chunked: c.1 }),
            )
            .shards(16),
        );
    }

    // ------------------------------------------ archive index: length vs footer
    {
        let arts: Vec<&'static str> = art::AIDX_BUILT.into_iter().chain(art::AIDX_FIXTURES).filter(|n| ok(n)).collect();
        let a2 = arts.clone();
        ck.run(
            Section::enumerate(
                "aidx-length",
                "exhaustive over a grid: spans of 1, 8, one, two and three records, one TOC entry and one page removed from / inserted (zeros or a copy of the preceding bytes) into the data pages and the table of contents of the same 7 indices — at every record boundary of the first 8 and last 8 records of every page's used part, inside a record, in the zero padding and at every TOC entry — with the footer byte-identical (valid hash): the checksummed footer fields fix the file length, ArchiveIndex::parse must refuse (validate_file_size)",
                move || {
                    let arts = arts.clone();
                    Box::new(arts.into_iter().flat_map(|n| aidx_len_grid(n).into_iter()))
                },
                check_aidx_len,
            )
            .shards(16),
        );
        ck.run(
            Section::pbt(
                "aidx-length-random",
                tier.pick(3000, 300_000),
                move || {
                    (names(&a2), any::<u32>(), prop_oneof![3 => (1u32..=64).prop_map(LenSel::Bytes), 4 => (1u32..=6, 0u8..3).prop_map(|(k, u)| LenSel::Units(k, u)), 1 => (1u32..5000).prop_map(LenSel::Bytes)], any::<bool>(), any::<bool>(), any::<bool>())
                        .prop_map(|(art, sel, n, align, insert, copy_neighbour)| AidxLenPbt { art, sel, n, align, insert, copy_neighbour })
                        .boxed()
                },
                |c: &AidxLenPbt| check_aidx_len(&c.resolve()),
            )
            .shards(16),
        );
    }

    // ----------------------------------------------------------------- lru
    {
        let arts: Vec<&'static str> = art::LRU_ALL.into_iter().filter(|n| ok(n)).collect();
        let a2 = arts.clone();
        ck.run(
            Section::enumerate(
                "lru-flips",
                "exhaustive: every single-bit flip of every byte (header incl. stored MD5, all entries) of 4 checkpoint files (capacity/used 1/1, 4/3, 16/16, 6/0), plus dropping 1..all and adding 1..3 whole 20-byte entries; through lru_file::deserialize, LruManager::load_from_disk and run_cycle",
                move || {
                    let arts = arts.clone();
                    Box::new(arts.into_iter().flat_map(move |n| {
                        let total = total_of(n, EncRegion::Pages);
                        let entries = total.saturating_sub(28) / 20;
                        all_flips(total)
                            .map(LruFault::Edit)
                            .chain((1..=entries as u8).map(|n| LruFault::DropEntries { n }))
                            .chain((1..=3u8).map(move |k| LruFault::AddEntries { n: k, seed: seed ^ u64::from(k) }))
                            .map(move |fault| LruCase { art: n.into(), fault, disk: true })
                    }))
                },
                check_lru,
            )
            .shards(16),
        );
        ck.run(
            Section::pbt(
                "lru-edits",
                tier.pick(4000, 400_000),
                move || {
                    (
                        names(&a2),
                        prop_oneof![
                            8 => edit::strat::edits(true).prop_map(LruSel::Edit),
                            1 => (1u8..=16).prop_map(|n| LruSel::DropEntries { n }),
                            1 => (1u8..=4, any::<u64>()).prop_map(|(n, seed)| LruSel::AddEntries { n, seed }),
                        ],
                    )
                        .prop_map(|(art, fault)| LruPbt { art, fault })
                        .boxed()
                },
                |c: &LruPbt| {
                    let fault = match &c.fault {
                        LruSel::Edit(e) => LruFault::Edit(e.resolve(total_of(&c.art, EncRegion::Pages))),
                        LruSel::DropEntries { n } => LruFault::DropEntries { n: *n },
                        LruSel::AddEntries { n, seed } => LruFault::AddEntries { n: *n, seed: *seed },
                    };
                    check_lru(&LruCase { art: c.art.clone(), fault, disk: true })
                },
            )
            .shards(16),
        );
    }

    // -------------------------------------------------------- update entry
    {
        let specs: Vec<EntSpec> = (0..8u32)
            .map(|i| {
                let mut r = Rng::new(seed ^ 0x0E57 ^ u64::from(i));
                EntSpec {
                    key_seed: r.next_u64(),
                    id: if i == 0 { 0 } else if i == 1 { 1023 } else { r.below(1024) as u16 },
                    off: if i == 0 { 0 } else if i == 1 { 0x3FFF_FFFF } else { r.below(1 << 30) as u32 },
                    size: if i == 0 { 0 } else if i == 1 { u32::MAX } else { r.next_u64() as u32 },
                    status: (i % 4) as u8,
                }
            })
            .collect();
        ck.run(
            Section::enumerate(
                "update-entry-flips",
                "exhaustive: every single-bit flip of bytes [0..23) (guard, key, packed location, size, status) of 8 update entries (all four statuses, extreme and seed-chosen fields), every deletion of 1..=8 bytes at every position, and every pair of bit flips for the first 4 of them; through UpdateEntry::from_bytes + validate_hash_guard",
                move || {
                    let specs = specs.clone();
                    let pairs = specs.clone().into_iter().take(4).flat_map(|ent| {
                        (0..184u32).flat_map(move |a| {
                            let ent = ent.clone();
                            (a + 1..184).map(move |b| EntCase { ent: ent.clone(), edit: Edit::Flip2 { pos_a: a / 8, bit_a: (a % 8) as u8, pos_b: b / 8, bit_b: (b % 8) as u8 } })
                        })
                    });
                    let dels = specs.clone().into_iter().flat_map(|ent| all_deletions(23).map(move |edit| EntCase { ent: ent.clone(), edit }));
                    Box::new(specs.into_iter().flat_map(|ent| all_flips(23).map(move |edit| EntCase { ent: ent.clone(), edit })).chain(dels).chain(pairs))
                },
                check_upd_entry,
            )
            .shards(16),
        );
        ck.run(
            Section::pbt(
                "update-entry-edits",
                tier.pick(40_000, 4_000_000),
                || {
                    (any::<u64>(), 0u16..1024, prop_oneof![Just(0u32), Just(0x3FFF_FFFFu32), 0u32..(1 << 30)], any::<u32>(), 0u8..4, edit::strat::edits(true))
                        .prop_map(|(key_seed, id, off, size, status, edit)| EntPbt { ent: EntSpec { key_seed, id, off, size, status }, edit })
                        .boxed()
                },
                |c: &EntPbt| check_upd_entry(&EntCase { ent: c.ent.clone(), edit: c.edit.resolve(23) }),
            )
            .shards(16),
        );
    }

    // ------------------------------------------- update section and .idx file
    {
        let arts: Vec<&'static str> = art::UPD_ALL.into_iter().filter(|n| ok(n)).collect();
        let a2 = arts.clone();
        ck.run(
            Section::enumerate(
                "update-section-flips",
                "exhaustive: every single-bit flip of bytes [0..23) of every entry of four update sections (5 entries; 30 entries over two pages with re-used keys, tombstones and non-resident statuses; 190 and 400 entries = 10 and 20 pages, beyond one 8-page sync block); through UpdateSection::from_bytes + search / all_entries",
                move || {
                    let arts = arts.clone();
                    Box::new(arts.into_iter().flat_map(|n| all_flips(total_of(n, EncRegion::Pages)).map(move |edit| ArtEdit { art: n.into(), edit })))
                },
                check_upd_section,
            )
            .shards(16),
        );
        ck.run(
            Section::pbt(
                "update-section-edits",
                tier.pick(10_000, 1_000_000),
                move || (names(&a2), edit::strat::edits(true)).prop_map(|(art, edit)| ArtPbt { art, edit }).boxed(),
                |c: &ArtPbt| check_upd_section(&ArtEdit { art: c.art.clone(), edit: c.edit.resolve(total_of(&c.art, EncRegion::Pages)) }),
            )
            .shards(16),
        );
        let arts: Vec<&'static str> = art::IDX_ALL.into_iter().filter(|n| ok(n)).collect();
        let a2 = arts.clone();
        ck.run(
            Section::enumerate(
                "idx-loader-flips",
                "exhaustive: every single-bit flip of bytes [0..23) of every update-section entry of three saved .idx files (6 sorted + 8 update entries incl. an override and two tombstones; 0 sorted + 4 update entries; 4 sorted + 188 update entries over 9 pages); through IndexManager::load_index + lookup / iter_entries",
                move || {
                    let arts = arts.clone();
                    Box::new(arts.into_iter().flat_map(|n| all_flips(total_of(n, EncRegion::Pages)).map(move |edit| ArtEdit { art: n.into(), edit })))
                },
                check_idx,
            )
            .shards(16),
        );
        ck.run(
            Section::pbt(
                "idx-loader-edits",
                tier.pick(1500, 100_000),
                move || (names(&a2), edit::strat::edits(true)).prop_map(|(art, edit)| ArtPbt { art, edit }).boxed(),
                |c: &ArtPbt| check_idx(&ArtEdit { art: c.art.clone(), edit: c.edit.resolve(total_of(&c.art, EncRegion::Pages)) }),
            )
            .shards(16),
        );
    }

    ck.run(
        Section::enumerate(
            "update-loader-partial-guard-collisions",
            "for every entry of the 5-entry update section and the first 3 update entries of the 6+8 .idx file, for each guard mask {low 16, high 16, low 24, high 24 bits}: the first packed-offset value whose reference guard agrees with the stored guard on the masked bits only; through UpdateSection::from_bytes / IndexManager::load_index",
            || {
                Box::new([("upd:5", 5u16), ("idx:6:5", 3u16)].into_iter().filter(|(n, _)| art::get(n).is_ok()).flat_map(|(n, k)| {
                    (0..k).flat_map(move |slot| [0x0000_FFFFu32, 0xFFFF_0000, 0x00FF_FFFF, 0xFFFF_FF00].into_iter().map(move |mask| CollideCase { art: n.into(), slot, mask }))
                }))
            },
            check_collide,
        )
        .shards(16),
    );

    // -------------------------------------------------------- local header
    {
        ck.run(
            Section::enumerate(
                "local-header-flips",
                "exhaustive: every single-bit flip of bytes [0..30) of 3 headers x base offsets {0,1,2,3,30,4097,65534,65535}, every deletion of 1..=8 bytes at every position and every pair of bit flips for one header x base offsets {0,1,2,3}; through LocalHeader::from_bytes + validate_checksums(base)",
                move || {
                    let specs: Vec<(u64, u32)> = (0..3u64).map(|i| (seed ^ 0x4D ^ i, [0u32, 1234, u32::MAX - 30][i as usize])).collect();
                    let (ks, sz) = specs[1];
                    let pairs = [0u32, 1, 2, 3].into_iter().flat_map(move |base| {
                        (0..240u32).flat_map(move |a| {
                            (a + 1..240).map(move |b| HdrCase { key_seed: ks, blte_size: sz, base, edit: Edit::Flip2 { pos_a: a / 8, bit_a: (a % 8) as u8, pos_b: b / 8, bit_b: (b % 8) as u8 } })
                        })
                    });
                    Box::new(
                        specs
                            .into_iter()
                            .flat_map(|(key_seed, blte_size)| {
                                [0u32, 1, 2, 3, 30, 4097, 65534, 65535].into_iter().flat_map(move |base| all_flips(30).map(move |edit| HdrCase { key_seed, blte_size, base, edit }))
                            })
                            .chain([0u32, 1, 2, 3].into_iter().flat_map(move |base| all_deletions(30).map(move |edit| HdrCase { key_seed: ks, blte_size: sz, base, edit })))
                            .chain(pairs),
                    )
                },
                check_hdr,
            )
            .shards(16),
        );
        ck.run(
            Section::pbt(
                "local-header-edits",
                tier.pick(40_000, 4_000_000),
                || {
                    (any::<u64>(), prop_oneof![Just(0u32), any::<u32>(), 0u32..100_000], prop_oneof![0u32..8, any::<u32>()], edit::strat::edits(true))
                        .prop_map(|(key_seed, blte_size, base, edit)| HdrPbt { key_seed, blte_size, base, edit })
                        .boxed()
                },
                |c: &HdrPbt| check_hdr(&HdrCase { key_seed: c.key_seed, blte_size: c.blte_size, base: c.base, edit: c.edit.resolve(30) }),
            )
            .shards(16),
        );
    }

    // -------------------------------------------------------------- V1 MIME
    // In replay mode the response travels inside the case; otherwise it is produced by the
    // server code now (its sequence number is the clock, so it cannot be re-derived later).
    let resps: Arc<Vec<(String, Vec<u8>)>> = Arc::new(if ck.is_replay() {
        Vec::new()
    } else {
        match v1_responses() {
            Ok(r) => r,
            Err(e) => {
                ck.infra(format!("V1 responses: {e}"));
                Vec::new()
            }
        }
    });
    ck.extra("v1_responses", serde_json::json!(resps.iter().map(|(c, r)| (c.clone(), r.len())).collect::<Vec<_>>()));
    if !resps.is_empty() || ck.is_replay() {
        let rt = resps.clone();
        ck.run(
            Section::enumerate(
                "v1-over-tcp",
                "versions / cdns / official-shape responses and versions padded to 8192 and 16384 protected bytes, intact and with one hex digit altered, sent by a loopback server in one piece / cut in front of the Checksum line / one byte into it / in the middle / in front of the closing delimiter line (60 ms pause): RibbitClient::query reads the intact one and refuses the altered one".to_string(),
                move || Box::new(tcp::cases(&rt).into_iter()),
                tcp::check,
            )
            .shards(16),
        );
        let r1 = resps.clone();
        ck.run(
            Section::enumerate(
                "v1-flips",
                "exhaustive: every single-bit flip of every byte before the `Checksum:` line, and every substitution of one checksum hex digit by another hex digit (either case), for the responses of cascette_ribbit::tcp::v1::handle_v1_command to summary / versions / cdns / bgdl and for versions responses whose BPSV body carries a comment line containing the text `Checksum: ` (epilogue recomputed); through parse_v1_mime_response",
                move || {
                    let r1 = r1.clone();
                    Box::new((0..r1.len()).flat_map(move |i| {
                        let resp = r1[i].1.clone();
                        let at = v1_layout(&resp).unwrap_or(0);
                        let r2 = resp.clone();
                        let digits = (0..64u32).flat_map(move |pos| {
                            let r2 = r2.clone();
                            b"0123456789abcdefABCDEF".iter().map(move |&d| V1Case { resp: r2.clone(), region: V1Region::Digits, edit: Edit::Subst { pos, bytes: vec![d] } })
                        });
                        all_flips(at).map(move |edit| V1Case { resp: resp.clone(), region: V1Region::Message, edit }).chain(digits)
                    }))
                },
                check_v1,
            )
            .shards(16),
        );
        let r2 = resps.clone();
        ck.run(
            Section::pbt(
                "v1-edits",
                tier.pick(10_000, 1_000_000),
                move || {
                    let r2 = r2.clone();
                    let n = r2.len().max(1);
                    (0..n, edit::strat::edits(true)).prop_map(move |(i, edit)| V1Pbt { resp: r2.get(i).map(|x| x.1.clone()).unwrap_or_default(), edit }).boxed()
                },
                |c: &V1Pbt| {
                    let at = v1_layout(&c.resp).unwrap_or(0);
                    check_v1(&V1Case { resp: c.resp.clone(), region: V1Region::Message, edit: c.edit.resolve(at) })
                },
            )
            .shards(16),
        );
    }

    // --------------------------------------------------------------- caches
    // The hooks and the multi-layer cache eprintln! one line per rejected content (tens of
    // thousands here); stderr is parked on /dev/null for these sections. Panics are captured
    // by the engine and reported through stdout as failures.
    let quiet = StderrParked::new();
    ck.run(Section::pbt("hooks-direct", tier.pick(6000, 600_000), caches::hooks_strategy, caches::check_hooks).shards(16));
    ck.run(Section::pbt("cac-sequences", tier.pick(6000, 400_000), caches::cac_strategy, caches::check_cac).shards(16));
    ck.run(Section::pbt("ml-sequences", tier.pick(5000, 300_000), caches::ml_strategy, caches::check_ml).shards(16));

    ck.run(
        Section::enumerate(
            "caches-around-100MiB",
            "fixed cases with one value of exactly 100 MiB and one of 100 MiB + 1 byte (Md5ValidationHooks::should_skip_validation's threshold): the hooks called directly, ContentAddressedCache over memory and over disk (put_validated, get, corrupt the backing entry / file, get), MultiLayerCacheImpl with Md5 and with Ngdp hooks (put_with_validation, get, put_to_layer of a bit-flipped copy into layer 0, get_with_validation, put_with_validation of the flipped copy)",
            || Box::new(caches::big_cases().into_iter()),
            caches::check_big,
        )
        .shards(10),
    );

    ck.run(
        Section::enumerate(
            "ngdp-bytes-shared",
            "one NgdpBytes (1 / 16 / 4096 / 70,000 bytes; intact, one bit flipped at the start / middle / end, last byte dropped, a byte appended) shared by two consumers: the first consumer's validate_with_hooks is parked inside its hooks while the second calls validate_with_hooks / validate_if_needed / is_validated / validation_state".to_string(),
            || Box::new(shared::all_cases().into_iter()),
            shared::check,
        )
        .shards(8),
    );
    ck.run(
        Section::enumerate(
            "ml-put-during-validating-read",
            "MultiLayerCacheImpl (2 / 3 layers, Md5 / Ngdp hooks, slowest layer holding nothing / the good value / a corrupted copy): at the n-th scheduling point (n = 0..10) a validating read passes inside the layers, another thread completes a plain put of bytes that do not hash to the content key; the read's result must still hash to the key",
            || Box::new(caches::race_cases().into_iter()),
            caches::check_race,
        )
        .shards(16),
    );

    drop(quiet);
    let vac = VACUOUS.load(Ordering::Relaxed);
    if vac > 0 {
        ck.infra(format!("{vac} cases were vacuous (un-mutated artifact not accepted or scratch I/O failed)"));
    }
    let _ = pick32;
    let _: fn() -> Verdict = Verdict::pass;
    ck.finish();
}
