//! C07 / ngdp-bytes-shared: one `NgdpBytes` (content fetched by content key) shared by two
//! consumers. The first consumer's validation is in flight — the hooks it runs take time (hashing
//! on a worker, a large buffer): the harness parks it inside `validate_content` — when the second
//! consumer asks about the same buffer through `validate_with_hooks`, `validate_if_needed`,
//! `is_validated` or `validation_state`. Altered content is never reported as good, by no consumer,
//! at no moment; intact content is reported good once a validation has finished.

use async_trait::async_trait;
use bytes::Bytes;
use cascette_cache::error::CacheResult;
use cascette_cache::validation::{Md5ValidationHooks, NgdpBytes, ValidationHooks, ValidationResult};
use cascette_crypto::ContentKey;
use serde::{Deserialize, Serialize};
use std::sync::Arc;
use tokio::sync::Notify;
use vh_engine::Verdict;
use vh_engine::util::Rng;

#[derive(Debug, Clone, Serialize, Deserialize)]
pub struct SharedCase {
    pub len: u32,
    /// 0 intact; 1 one bit flipped; 2 last byte dropped; 3 a byte appended
    pub alter: u8,
    pub at: u32,
    /// what the second consumer calls while the first validation is parked:
    /// 0 validate_with_hooks, 1 validate_if_needed, 2 is_validated, 3 validation_state
    pub second: u8,
    pub seed: u64,
}

pub fn all_cases() -> Vec<SharedCase> {
    let mut v = Vec::new();
    for len in [1u32, 16, 4096, 70_000] {
        for alter in 0..4u8 {
            for second in 0..4u8 {
                for at in [0u32, len / 2, len.saturating_sub(1)] {
                    if (alter != 1 && at != 0) || (alter >= 2 && len == 1) {
                        continue;
                    }
                    v.push(SharedCase { len, alter, at, second, seed: u64::from(len) << 8 | u64::from(alter) << 4 | u64::from(second) });
                }
            }
        }
    }
    v
}

/// MD5 hooks whose `validate_content` reports that it was entered and then waits for the gate
struct Parking {
    inner: Md5ValidationHooks,
    entered: Arc<Notify>,
    gate: Arc<Notify>,
}

#[async_trait]
impl ValidationHooks for Parking {
    async fn validate_content(&self, content_key: &ContentKey, data: &[u8]) -> CacheResult<ValidationResult> {
        self.entered.notify_one();
        self.gate.notified().await;
        self.inner.validate_content(content_key, data).await
    }
}

pub fn check(c: &SharedCase) -> Verdict {
    let Ok(rt) = tokio::runtime::Builder::new_current_thread().enable_all().build() else {
        return Verdict::pass().class("VACUOUS:no-runtime");
    };
    let original = Rng::new(c.seed).bytes(c.len as usize);
    let key = ContentKey::from_data(&original);
    let mut held = original.clone();
    match c.alter {
        1 => {
            let i = (c.at as usize).min(held.len() - 1);
            held[i] ^= 0x10;
        }
        2 => {
            held.pop();
        }
        3 => held.push(0),
        _ => {}
    }
    let altered = c.alter != 0;
    let nb = Arc::new(NgdpBytes::new_with_key(Bytes::from(held), key));
    let (entered, gate) = (Arc::new(Notify::new()), Arc::new(Notify::new()));
    let parking = Arc::new(Parking { inner: Md5ValidationHooks::new(), entered: Arc::clone(&entered), gate: Arc::clone(&gate) });
    let what = format!("{} bytes, {}", c.len, ["intact", "one bit flipped", "last byte dropped", "a byte appended"][usize::from(c.alter.min(3))]);
    let second_name = ["validate_with_hooks", "validate_if_needed", "is_validated", "validation_state"][usize::from(c.second.min(3))];
    let (nb1, p1) = (Arc::clone(&nb), Arc::clone(&parking));
    let res: Result<(bool, bool, bool), String> = rt.block_on(async move {
        let first = tokio::spawn(async move { nb1.validate_with_hooks(&*p1).await.map(|r| r.is_valid).unwrap_or(false) });
        // wait until the first consumer is inside its hooks
        if tokio::time::timeout(std::time::Duration::from_secs(20), entered.notified()).await.is_err() {
            return Err("the first validation never reached validate_content".to_string());
        }
        // the second consumer, while the first validation is in flight
        let second_says_good = match c.second {
            0 => nb.validate_with_hooks(&Md5ValidationHooks::new()).await.map(|r| r.is_valid).unwrap_or(false),
            1 => nb.validate_if_needed().unwrap_or(false),
            2 => nb.is_validated(),
            _ => nb.validation_state() == "valid",
        };
        gate.notify_one();
        let first_says_good = tokio::time::timeout(std::time::Duration::from_secs(20), first).await.map_err(|_| "the first validation did not finish".to_string())?.map_err(|e| e.to_string())?;
        Ok((second_says_good, first_says_good, nb.is_validated()))
    });
    let (second_good, first_good, marked) = match res {
        Ok(x) => x,
        Err(e) => return Verdict::fail("C07:ngdp-bytes-shared:validation-does-not-complete", format!("{what}: {e}")),
    };
    let v = Verdict::pass().nontrivial(altered).class_if(!altered, "intact-content").class(["second:validate_with_hooks", "second:validate_if_needed", "second:is_validated", "second:validation_state"][usize::from(c.second.min(3))]);
    if altered && second_good {
        return v.with_fail(
            "C07:ngdp-bytes-shared:altered-content-reported-good-while-another-validation-is-in-flight",
            format!("{what}: {second_name} of a second consumer answered 'valid' while the first consumer's validate_with_hooks was still inside its hooks"),
        );
    }
    if altered && (first_good || marked) {
        return v.with_fail("C07:ngdp-bytes-shared:altered-content-reported-good", format!("{what}: first consumer says valid = {first_good}, is_validated() afterwards = {marked}"));
    }
    if !altered && (!first_good || !marked) {
        return v.with_fail("C07:ngdp-bytes-shared:intact-content-refused", format!("{what}: first consumer says valid = {first_good}, is_validated() afterwards = {marked}"));
    }
    v
}
