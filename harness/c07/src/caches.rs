//! put / corrupt-the-backing-store / get sequences on the validating caches.
//!
//! Everything is judged by the reference MD5: a key K and bytes D are *valid*
//! iff md5_ref(D) == K. Keys are MD5(value) or that digest with one bit flipped
//! (no content is ever valid for such a key — this is what shows whether the
//! comparison covers the whole digest).

use bytes::Bytes;
use cascette_cache::config::{DiskCacheConfig, MemoryCacheConfig, MultiLayerCacheConfig, PromotionStrategy};
use cascette_cache::disk_cache::DiskCache;
use cascette_cache::error::CacheError;
use cascette_cache::key::{BlteBlockKey, CacheKey};
use cascette_cache::memory_cache::MemoryCache;
use cascette_cache::multi_layer::MultiLayerCacheImpl;
use cascette_cache::ngdp::ContentAddressedCache;
use cascette_cache::traits::{AsyncCache, MultiLayerCache};
use cascette_cache::validation::{Md5ValidationHooks, NgdpBytes, NgdpValidationHooks, ValidationHooks};
use cascette_crypto::ContentKey;
use proptest::prelude::*;
use serde::{Deserialize, Serialize};
use std::collections::HashMap;
use std::path::{Path, PathBuf};
use std::sync::Arc;
use std::time::Duration;
use vh_engine::util::{Rng, hexbytes};
use vh_engine::{Verdict, pick_idx};
use vh_engine::refimpl::md5::md5;

use crate::edit::pick32;

const HOUR: Duration = Duration::from_secs(3600);
const YEAR: Duration = Duration::from_secs(365 * 24 * 3600);

#[derive(Debug, Clone, Serialize, Deserialize)]
pub struct Val {
    pub len: u32,
    pub seed: u64,
}

impl Val {
    fn bytes(&self) -> Vec<u8> {
        Rng::new(self.seed).bytes(self.len as usize)
    }
}

#[derive(Debug, Clone, Serialize, Deserialize)]
pub struct KeySel {
    pub val: u16,
    /// flip this bit (0..128) of MD5(value)
    pub tweak: Option<u8>,
}

/// index into the key pool of the case
pub type KeyIx = u16;

#[derive(Debug, Clone, Serialize, Deserialize)]
pub enum How {
    /// the value itself
    Good,
    FlipBit { sel: u32, bit: u8 },
    Truncate { sel: u32 },
    Append {
        #[serde(with = "hexbytes")]
        bytes: Vec<u8>,
    },
    /// the bytes of another value of the case
    Other { val: u16 },
    Empty,
    /// same length, unrelated content
    Random { seed: u64 },
}

struct World {
    vals: Vec<Vec<u8>>,
    digests: Vec<[u8; 16]>,
}

impl World {
    fn new(vals: &[Val]) -> Self {
        let vals: Vec<Vec<u8>> = vals.iter().map(Val::bytes).collect();
        let digests = vals.iter().map(|v| md5(v)).collect();
        World { vals, digests }
    }
    fn vi(&self, i: u16) -> usize {
        pick_idx(i, self.vals.len())
    }
    fn sel<'a>(&self, pool: &'a [KeySel], i: KeyIx) -> &'a KeySel {
        &pool[pick_idx(i, pool.len())]
    }
    fn key(&self, k: &KeySel) -> [u8; 16] {
        let mut d = self.digests[self.vi(k.val)];
        if let Some(t) = k.tweak {
            let t = t & 127;
            d[(t / 8) as usize] ^= 1 << (t % 8);
        }
        d
    }
    fn data(&self, k: &KeySel, how: &How) -> Vec<u8> {
        let good = &self.vals[self.vi(k.val)];
        match how {
            How::Good => good.clone(),
            How::FlipBit { sel, bit } => {
                let mut d = good.clone();
                if d.is_empty() {
                    d.push(1 << (bit & 7));
                } else {
                    let p = pick32(*sel, d.len());
                    d[p] ^= 1 << (bit & 7);
                }
                d
            }
            How::Truncate { sel } => {
                if good.is_empty() {
                    vec![0]
                } else {
                    good[..pick32(*sel, good.len())].to_vec()
                }
            }
            How::Append { bytes } => {
                let mut d = good.clone();
                d.extend_from_slice(bytes);
                d
            }
            How::Other { val } => self.vals[self.vi(*val)].clone(),
            How::Empty => Vec::new(),
            How::Random { seed } => Rng::new(*seed ^ 0x7777).bytes(good.len()),
        }
    }
}

fn valid(key: &[u8; 16], data: &[u8]) -> bool {
    &md5(data) == key
}

fn rt() -> tokio::runtime::Runtime {
    tokio::runtime::Builder::new_current_thread().enable_all().build().expect("tokio runtime")
}

fn mem_cfg() -> MemoryCacheConfig {
    MemoryCacheConfig { max_entries: 256, max_memory_bytes: None, default_ttl: Some(HOUR), cleanup_interval: YEAR, ..MemoryCacheConfig::default() }
}

fn disk_cfg(dir: &Path) -> DiskCacheConfig {
    DiskCacheConfig { default_ttl: Some(HOUR), use_subdirectories: false, cleanup_interval: YEAR, sync_interval: YEAR, max_disk_bytes: None, ..DiskCacheConfig::new(dir) }
}

// ------------------------------------------------- ContentAddressedCache

#[derive(Debug, Clone, Serialize, Deserialize)]
pub enum CacOp {
    PutValidated { key: KeyIx, how: How },
    /// `inner.put` under the same BlteBlockKey, behind the validating wrapper's back
    InnerPut { key: KeyIx, how: How },
    /// overwrite / create the disk layer's value file (memory backend: same as InnerPut)
    FileWrite { key: KeyIx, how: How },
    /// truncate the disk layer's value file (memory backend: InnerPut of the prefix)
    FileTruncate { key: KeyIx, sel: u32 },
    Get { key: KeyIx },
}

#[derive(Debug, Clone, Serialize, Deserialize)]
pub struct CacCase {
    pub disk: bool,
    pub vals: Vec<Val>,
    pub keys: Vec<KeySel>,
    pub ops: Vec<CacOp>,
}

enum Inner {
    Mem(Arc<MemoryCache<BlteBlockKey>>, ContentAddressedCache<MemoryCache<BlteBlockKey>>),
    Disk(Arc<DiskCache<BlteBlockKey>>, ContentAddressedCache<DiskCache<BlteBlockKey>>, PathBuf),
}

type R<T> = Result<T, String>;

impl Inner {
    async fn get_validated(&self, k: [u8; 16]) -> Result<Option<Bytes>, String> {
        let ck = ContentKey::from_bytes(k);
        match self {
            Inner::Mem(_, c) => c.get_validated(ck).await.map_err(|e| e.to_string()),
            Inner::Disk(_, c, _) => c.get_validated(ck).await.map_err(|e| e.to_string()),
        }
    }
    async fn put_validated(&self, k: [u8; 16], d: &[u8]) -> R<()> {
        let ck = ContentKey::from_bytes(k);
        let b = Bytes::copy_from_slice(d);
        match self {
            Inner::Mem(_, c) => c.put_validated(ck, b).await.map_err(|e| e.to_string()),
            Inner::Disk(_, c, _) => c.put_validated(ck, b).await.map_err(|e| e.to_string()),
        }
    }
    async fn raw_put(&self, k: [u8; 16], d: &[u8]) -> R<()> {
        let bk = BlteBlockKey::new_raw(ContentKey::from_bytes(k), 0);
        let b = Bytes::copy_from_slice(d);
        match self {
            Inner::Mem(i, _) => i.put(bk, b).await.map_err(|e| e.to_string()),
            Inner::Disk(i, _, _) => i.put(bk, b).await.map_err(|e| e.to_string()),
        }
    }
    async fn raw_get(&self, k: [u8; 16]) -> R<Option<Bytes>> {
        let bk = BlteBlockKey::new_raw(ContentKey::from_bytes(k), 0);
        match self {
            Inner::Mem(i, _) => i.get(&bk).await.map_err(|e| e.to_string()),
            Inner::Disk(i, _, _) => i.get(&bk).await.map_err(|e| e.to_string()),
        }
    }
    fn file(&self, k: [u8; 16]) -> Option<PathBuf> {
        match self {
            Inner::Mem(..) => None,
            Inner::Disk(_, _, dir) => Some(dir.join(BlteBlockKey::new_raw(ContentKey::from_bytes(k), 0).as_cache_key())),
        }
    }
}

pub fn check_cac(c: &CacCase) -> Verdict {
    if c.vals.is_empty() || c.keys.is_empty() {
        return Verdict::pass();
    }
    let w = World::new(&c.vals);
    let dir = match crate::scratch_dir() {
        Ok(d) => d,
        Err(_) => return Verdict::pass().class("VACUOUS"),
    };
    let rt = rt();
    let hooks = Arc::new(NgdpValidationHooks::new());
    let sut = {
        let _g = rt.enter();
        if c.disk {
            let i = match DiskCache::<BlteBlockKey>::new(disk_cfg(dir.path())) {
                Ok(i) => Arc::new(i),
                Err(_) => return Verdict::pass().class("VACUOUS"),
            };
            Inner::Disk(i.clone(), ContentAddressedCache::new(i, hooks), dir.path().to_path_buf())
        } else {
            let i = match MemoryCache::<BlteBlockKey>::new(mem_cfg()) {
                Ok(i) => Arc::new(i),
                Err(_) => return Verdict::pass().class("VACUOUS"),
            };
            Inner::Mem(i.clone(), ContentAddressedCache::new(i, hooks))
        }
    };
    // what the backing store was last given for each key
    let mut model: HashMap<[u8; 16], Vec<u8>> = HashMap::new();
    let mut v = Verdict::pass();
    let mut detected = 0u32;
    let mut clean_hits = 0u32;
    for (n, op) in c.ops.iter().enumerate() {
        let key = match op {
            CacOp::PutValidated { key, .. } | CacOp::InnerPut { key, .. } | CacOp::FileWrite { key, .. } | CacOp::FileTruncate { key, .. } | CacOp::Get { key } => w.sel(&c.keys, *key),
        };
        match op {
            CacOp::PutValidated { how, .. } => {
                let (k, d) = (w.key(key), w.data(key, how));
                let ok = valid(&k, &d);
                let r = rt.block_on(sut.put_validated(k, &d));
                match (r, ok) {
                    (Ok(()), true) => {
                        model.insert(k, d);
                    }
                    (Ok(()), false) => {
                        return Verdict::fail(
                            "C07:content-addressed:put_validated-stores-content-not-matching-key",
                            format!("op {n}: put_validated(key {}, {} bytes with MD5 {}) returned Ok", hex::encode(k), d.len(), hex::encode(md5(&d))),
                        );
                    }
                    (Err(_), true) => v = v.class("valid-put-refused"),
                    (Err(_), false) => {
                        v = v.class("invalid-put-refused").class_if(key.tweak.is_some_and(|t| t & 127 >= 32), "key-differs-after-byte-4");
                        // rustdoc / code comment: "Validate before storing"
                        if let Ok(Some(x)) = rt.block_on(sut.raw_get(k)) {
                            if x.as_ref() == d.as_slice() && model.get(&k).map(Vec::as_slice) != Some(d.as_slice()) {
                                return Verdict::fail(
                                    "C07:content-addressed:refused-put-left-its-bytes-in-the-store",
                                    format!("op {n}: put_validated(key {}, mismatching bytes) returned Err, yet the inner cache now holds these bytes", hex::encode(k)),
                                );
                            }
                        }
                    }
                }
            }
            CacOp::InnerPut { how, .. } => {
                let (k, d) = (w.key(key), w.data(key, how));
                if rt.block_on(sut.raw_put(k, &d)).is_ok() {
                    model.insert(k, d);
                }
            }
            CacOp::FileWrite { how, .. } => {
                let (k, d) = (w.key(key), w.data(key, how));
                match sut.file(k) {
                    Some(p) => {
                        if std::fs::write(&p, &d).is_ok() {
                            model.insert(k, d);
                            v = v.class("file-overwritten");
                        }
                    }
                    None => {
                        if rt.block_on(sut.raw_put(k, &d)).is_ok() {
                            model.insert(k, d);
                        }
                    }
                }
            }
            CacOp::FileTruncate { sel, .. } => {
                let k = w.key(key);
                let Some(cur) = model.get(&k).cloned() else { continue };
                if cur.is_empty() {
                    continue;
                }
                let keep = pick32(*sel, cur.len());
                match sut.file(k) {
                    Some(p) => {
                        if p.exists() && std::fs::OpenOptions::new().write(true).open(&p).and_then(|f| f.set_len(keep as u64)).is_ok() {
                            model.insert(k, cur[..keep].to_vec());
                            v = v.class("file-truncated");
                        }
                    }
                    None => {
                        if rt.block_on(sut.raw_put(k, &cur[..keep])).is_ok() {
                            model.insert(k, cur[..keep].to_vec());
                        }
                    }
                }
            }
            CacOp::Get { .. } => {
                let k = w.key(key);
                let stored_bad = model.get(&k).is_some_and(|d| !valid(&k, d));
                match rt.block_on(sut.get_validated(k)) {
                    Ok(Some(x)) => {
                        if !valid(&k, &x) {
                            return Verdict::fail(
                                "C07:content-addressed:get_validated-returns-bytes-not-matching-key",
                                format!(
                                    "op {n}: get_validated({}) returned {} bytes whose MD5 is {}{}",
                                    hex::encode(k),
                                    x.len(),
                                    hex::encode(md5(&x)),
                                    if key.tweak.is_some() { " (requested key = MD5 of the stored bytes with one bit flipped)" } else { "" }
                                ),
                            );
                        }
                        clean_hits += 1;
                        v = v.class_if(stored_bad, "model-mismatch:bad-store-but-valid-hit");
                    }
                    Ok(None) => v = v.class(if stored_bad { "bad-store:none" } else { "miss" }),
                    Err(_) => {
                        if stored_bad {
                            detected += 1;
                            v = v.class_if(key.tweak.is_some_and(|t| t & 127 >= 32), "detected:key-differs-after-byte-4");
                        } else {
                            v = v.class("get-error-without-known-corruption");
                        }
                    }
                }
            }
        }
    }
    drop(sut);
    v.nontrivial(detected > 0).class_if(detected > 0, "corruption-detected").class_if(clean_hits > 0, "valid-hit").class_if(detected > 0 && clean_hits > 0, "valid-hit+detection")
}

// ---------------------------------------------------- MultiLayerCacheImpl

#[derive(Debug, Clone, PartialEq, Eq, Hash)]
pub struct SKey(pub String);

impl CacheKey for SKey {
    fn as_cache_key(&self) -> &str {
        &self.0
    }
}

#[derive(Debug, Clone, Serialize, Deserialize)]
pub enum MlOp {
    PutValidated { key: KeyIx, how: How },
    /// `put_to_layer`: any bytes into any layer under the same cache key
    LayerPut { key: KeyIx, how: How, layer: u8 },
    FileWrite { key: KeyIx, how: How },
    FileTruncate { key: KeyIx, sel: u32 },
    Get { key: KeyIx },
}

#[derive(Debug, Clone, Serialize, Deserialize)]
pub struct MlCase {
    /// [Memory, Memory, Disk] instead of [Memory, Disk]
    pub three: bool,
    /// NgdpValidationHooks instead of Md5ValidationHooks
    pub ngdp_hooks: bool,
    pub vals: Vec<Val>,
    pub keys: Vec<KeySel>,
    pub ops: Vec<MlOp>,
}

pub fn check_ml(c: &MlCase) -> Verdict {
    // guard against the listed C12 promotion-tracker self-deadlock (not reached by the
    // calls used here; a timeout is counted, never judged)
    let c2 = c.clone();
    match vh_engine::util::with_timeout(Duration::from_secs(900), move || vh_engine::util::catch_panic(|| check_ml_inner(&c2))) {
        Some(Ok(v)) => v,
        Some(Err(p)) => Verdict::fail(format!("C07:ml-sequences:panic:{}:{}", p.file, p.norm_msg()), format!("panic at {}:{}: {}", p.file, p.line, p.msg)),
        None => Verdict::pass().class("timeout-skipped"),
    }
}

fn check_ml_inner(c: &MlCase) -> Verdict {
    if c.vals.is_empty() || c.keys.is_empty() {
        return Verdict::pass();
    }
    let w = World::new(&c.vals);
    let Ok(dir) = crate::scratch_dir() else { return Verdict::pass().class("VACUOUS") };
    let rt = rt();
    let layers = if c.three { 3 } else { 2 };
    let mut cfg = MultiLayerCacheConfig::new().with_promotion_strategy(PromotionStrategy::Manual);
    cfg = cfg.add_memory_layer(mem_cfg());
    if c.three {
        cfg = cfg.add_memory_layer(mem_cfg());
    }
    cfg = cfg.add_disk_layer(disk_cfg(dir.path()));
    let cache = {
        let _g = rt.enter();
        let Ok(mut cache) = MultiLayerCacheImpl::<SKey>::new(cfg) else { return Verdict::pass().class("VACUOUS") };
        let hooks: Arc<dyn ValidationHooks> = if c.ngdp_hooks { Arc::new(NgdpValidationHooks::new()) } else { Arc::new(Md5ValidationHooks::new()) };
        cache.set_validation_hooks(Some(hooks));
        cache
    };
    if cache.layer_count() != layers {
        return Verdict::pass().class("VACUOUS");
    }
    let name = |k: &[u8; 16]| SKey(hex::encode(k));
    let mut model: Vec<HashMap<[u8; 16], Vec<u8>>> = vec![HashMap::new(); layers];
    let mut v = Verdict::pass();
    let (mut detected, mut clean_hits, mut detected_lower, mut removed_multi) = (0u32, 0u32, 0u32, 0u32);
    for (n, op) in c.ops.iter().enumerate() {
        let key = match op {
            MlOp::PutValidated { key, .. } | MlOp::LayerPut { key, .. } | MlOp::FileWrite { key, .. } | MlOp::FileTruncate { key, .. } | MlOp::Get { key } => w.sel(&c.keys, *key),
        };
        match op {
            MlOp::PutValidated { how, .. } => {
                let (k, d) = (w.key(key), w.data(key, how));
                let ok = valid(&k, &d);
                let r = rt.block_on(cache.put_with_validation(name(&k), ContentKey::from_bytes(k), Bytes::copy_from_slice(&d)));
                match (r, ok) {
                    (Ok(_), true) => {
                        model[0].insert(k, d);
                    }
                    (Ok(_), false) => {
                        return Verdict::fail(
                            "C07:multi-layer:put_with_validation-stores-content-not-matching-key",
                            format!("op {n}: put_with_validation(content key {}, {} bytes with MD5 {}) returned Ok", hex::encode(k), d.len(), hex::encode(md5(&d))),
                        );
                    }
                    (Err(_), true) => v = v.class("valid-put-refused"),
                    (Err(_), false) => {
                        v = v.class("invalid-put-refused");
                        // rustdoc: "validates content using the configured validation hooks before storing it"
                        if let Ok(Some(x)) = rt.block_on(cache.get_from_layer(&name(&k), 0)) {
                            if x.as_ref() == d.as_slice() && model[0].get(&k).map(Vec::as_slice) != Some(d.as_slice()) {
                                return Verdict::fail(
                                    "C07:multi-layer:refused-put-left-its-bytes-in-layer-0",
                                    format!("op {n}: put_with_validation(content key {}, mismatching bytes) returned Err, yet layer 0 now holds these bytes", hex::encode(k)),
                                );
                            }
                        }
                    }
                }
            }
            MlOp::LayerPut { how, layer, .. } => {
                let (k, d) = (w.key(key), w.data(key, how));
                let l = pick_idx(u16::from(*layer) << 8, layers);
                if rt.block_on(cache.put_to_layer(name(&k), Bytes::copy_from_slice(&d), l)).is_ok() {
                    model[l].insert(k, d);
                }
            }
            MlOp::FileWrite { how, .. } => {
                let (k, d) = (w.key(key), w.data(key, how));
                if std::fs::write(dir.path().join(hex::encode(k)), &d).is_ok() {
                    model[layers - 1].insert(k, d);
                    v = v.class("file-overwritten");
                }
            }
            MlOp::FileTruncate { sel, .. } => {
                let k = w.key(key);
                let Some(cur) = model[layers - 1].get(&k).cloned() else { continue };
                if cur.is_empty() {
                    continue;
                }
                let keep = pick32(*sel, cur.len());
                let p = dir.path().join(hex::encode(k));
                if p.exists() && std::fs::OpenOptions::new().write(true).open(&p).and_then(|f| f.set_len(keep as u64)).is_ok() {
                    model[layers - 1].insert(k, cur[..keep].to_vec());
                    v = v.class("file-truncated");
                }
            }
            MlOp::Get { .. } => {
                let k = w.key(key);
                let first = (0..layers).find(|&l| model[l].contains_key(&k));
                let stored_bad = first.is_some_and(|l| !valid(&k, &model[l][&k]));
                let copies = (0..layers).filter(|&l| model[l].contains_key(&k)).count();
                match rt.block_on(cache.get_with_validation(&name(&k), Some(ContentKey::from_bytes(k)))) {
                    Ok(Some(x)) => {
                        let x = x.into_bytes();
                        if !valid(&k, &x) {
                            return Verdict::fail(
                                "C07:multi-layer:get_with_validation-returns-bytes-not-matching-key",
                                format!(
                                    "op {n}: get_with_validation(content key {}) returned {} bytes whose MD5 is {}{}",
                                    hex::encode(k),
                                    x.len(),
                                    hex::encode(md5(&x)),
                                    if key.tweak.is_some() { " (requested key = MD5 of the stored bytes with one bit flipped)" } else { "" }
                                ),
                            );
                        }
                        clean_hits += 1;
                        v = v.class_if(stored_bad, "model-mismatch:bad-store-but-valid-hit");
                    }
                    Ok(None) => v = v.class(if stored_bad { "bad-store:none" } else { "miss" }),
                    Err(CacheError::Corruption(_)) => {
                        // "Remove corrupted entry from cache": nothing that fails validation may stay
                        // retrievable under this key, in any layer
                        for l in 0..layers {
                            match rt.block_on(cache.get_from_layer(&name(&k), l)) {
                                Ok(Some(x)) if !valid(&k, &x) => {
                                    return Verdict::fail(
                                        "C07:multi-layer:corrupted-entry-still-stored-after-detection",
                                        format!(
                                            "op {n}: get_with_validation(content key {}) reported corruption, but layer {l} of {layers} still holds {} bytes with MD5 {} under the key",
                                            hex::encode(k),
                                            x.len(),
                                            hex::encode(md5(&x))
                                        ),
                                    );
                                }
                                Ok(Some(_)) => v = v.class("valid-copy-survived-removal"),
                                _ => {}
                            }
                        }
                        if dir.path().join(hex::encode(k)).exists() {
                            v = v.class("disk-file-survived-removal");
                        }
                        for m in &mut model {
                            m.remove(&k);
                        }
                        if stored_bad {
                            detected += 1;
                            if first.is_some_and(|l| l > 0) {
                                detected_lower += 1;
                            }
                            if copies > 1 {
                                removed_multi += 1;
                            }
                            v = v.class_if(key.tweak.is_some_and(|t| t & 127 >= 32), "detected:key-differs-after-byte-4");
                        } else {
                            v = v.class("corruption-reported-without-known-corruption");
                        }
                    }
                    Err(_) => v = v.class("get-error-other"),
                }
            }
        }
    }
    drop(cache);
    drop(rt);
    v.nontrivial(detected > 0)
        .class_if(detected > 0, "corruption-detected")
        .class_if(detected_lower > 0, "corruption-detected-in-lower-layer")
        .class_if(removed_multi > 0, "detected-with-copies-in-several-layers")
        .class_if(clean_hits > 0, "valid-hit")
        .class_if(c.three, "three-layers")
}

// ------------------------------------------------ hooks / NgdpBytes direct

#[derive(Debug, Clone, Serialize, Deserialize)]
pub struct HooksCase {
    pub val: Val,
    pub tweak: Option<u8>,
    pub how: How,
}

pub fn check_hooks(c: &HooksCase) -> Verdict {
    let w = World::new(std::slice::from_ref(&c.val));
    let ks = KeySel { val: 0, tweak: c.tweak };
    let (k, d) = (w.key(&ks), w.data(&ks, &c.how));
    let want = valid(&k, &d);
    let ck = ContentKey::from_bytes(k);
    let b = Bytes::copy_from_slice(&d);
    let rt = rt();
    let md5h = Md5ValidationHooks::new();
    let ngdp = NgdpValidationHooks::new();
    let mut got: Vec<(&'static str, bool)> = Vec::new();
    got.push(("Md5ValidationHooks::validate_content", rt.block_on(md5h.validate_content(&ck, &d)).map(|r| r.is_valid).unwrap_or(false)));
    got.push(("Md5ValidationHooks::validate_on_get", rt.block_on(md5h.validate_on_get(&ck, &d)).map(|r| r.is_valid).unwrap_or(false)));
    got.push(("NgdpValidationHooks::validate_content", rt.block_on(ngdp.validate_content(&ck, &d)).map(|r| r.is_valid).unwrap_or(false)));
    got.push(("NgdpBytes::new_validated", NgdpBytes::new_validated(b.clone(), ck).is_ok()));
    let lazy = NgdpBytes::new_with_key(b.clone(), ck);
    got.push(("NgdpBytes::validate_if_needed", lazy.validate_if_needed().unwrap_or(false)));
    got.push(("NgdpBytes::is_validated (after validate_if_needed)", lazy.is_validated()));
    let lazy2 = NgdpBytes::new_with_key(b.clone(), ck);
    got.push(("NgdpBytes::validate_with_hooks(Md5ValidationHooks)", rt.block_on(lazy2.validate_with_hooks(&md5h)).map(|r| r.is_valid).unwrap_or(false)));
    got.push(("NgdpBytes::is_validated (after validate_with_hooks)", lazy2.is_validated()));
    let batch = rt.block_on(ngdp.batch_validate_content(&[(ck, d.as_slice())])).map(|r| r.len() == 1 && r[0].is_valid).unwrap_or(false);
    got.push(("NgdpValidationHooks::batch_validate_content", batch));
    let mut v = Verdict::pass();
    for (api, said) in got {
        if said && !want {
            return Verdict::fail(
                "C07:validation:content-not-matching-key-reported-valid",
                format!("{api}: key {} vs {} bytes with MD5 {} reported valid ({:?}, tweak {:?})", hex::encode(k), d.len(), hex::encode(md5(&d)), c.how, c.tweak),
            );
        }
        if !said && want {
            v = v.class("matching-content-reported-invalid");
        }
    }
    v.nontrivial(!want).class_if(want, "matching").class_if(c.tweak.is_some_and(|t| t & 127 >= 32) && !want, "key-differs-after-byte-4")
}

// -------------------------------------------------------------- strategies

fn val_strategy() -> impl Strategy<Value = Val> {
    (prop_oneof![1 => Just(0u32), 4 => 1u32..64, 4 => 64u32..4096, 2 => 4096u32..70_000, 1 => 70_000u32..=1_048_576], any::<u64>()).prop_map(|(len, seed)| Val { len, seed })
}

fn small_val_strategy() -> impl Strategy<Value = Val> {
    (prop_oneof![1 => Just(0u32), 5 => 1u32..64, 4 => 64u32..4096, 1 => 4096u32..70_000], any::<u64>()).prop_map(|(len, seed)| Val { len, seed })
}

fn key_strategy() -> impl Strategy<Value = KeySel> {
    (any::<u16>(), prop_oneof![4 => Just(None), 1 => (0u8..128).prop_map(Some), 1 => (32u8..128).prop_map(Some)]).prop_map(|(val, tweak)| KeySel { val, tweak })
}

fn key_pool() -> impl Strategy<Value = Vec<KeySel>> {
    proptest::collection::vec(key_strategy(), 1..=4)
}

fn kix() -> impl Strategy<Value = KeyIx> {
    any::<u16>()
}

fn bad_how() -> impl Strategy<Value = How> {
    prop_oneof![
        3 => (any::<u32>(), 0u8..8).prop_map(|(sel, bit)| How::FlipBit { sel, bit }),
        2 => any::<u32>().prop_map(|sel| How::Truncate { sel }),
        2 => proptest::collection::vec(any::<u8>(), 1..=8).prop_map(|bytes| How::Append { bytes }),
        2 => any::<u16>().prop_map(|val| How::Other { val }),
        1 => Just(How::Empty),
        1 => any::<u64>().prop_map(|seed| How::Random { seed }),
    ]
}

fn any_how() -> impl Strategy<Value = How> {
    prop_oneof![3 => Just(How::Good), 2 => bad_how()]
}

pub fn cac_strategy() -> BoxedStrategy<CacCase> {
    let op = prop_oneof![
        4 => (kix(), any_how()).prop_map(|(key, how)| CacOp::PutValidated { key, how }),
        3 => (kix(), prop_oneof![2 => Just(How::Good), 4 => bad_how()]).prop_map(|(key, how)| CacOp::InnerPut { key, how }),
        2 => (kix(), prop_oneof![2 => Just(How::Good), 4 => bad_how()]).prop_map(|(key, how)| CacOp::FileWrite { key, how }),
        1 => (kix(), any::<u32>()).prop_map(|(key, sel)| CacOp::FileTruncate { key, sel }),
        6 => kix().prop_map(|key| CacOp::Get { key }),
    ];
    (any::<bool>(), proptest::collection::vec(small_val_strategy(), 1..=3), key_pool(), proptest::collection::vec(op, 1..24))
        .prop_map(|(disk, vals, keys, ops)| CacCase { disk, vals, keys, ops })
        .boxed()
}

pub fn ml_strategy() -> BoxedStrategy<MlCase> {
    let op = prop_oneof![
        4 => (kix(), any_how()).prop_map(|(key, how)| MlOp::PutValidated { key, how }),
        4 => (kix(), prop_oneof![2 => Just(How::Good), 4 => bad_how()], any::<u8>()).prop_map(|(key, how, layer)| MlOp::LayerPut { key, how, layer }),
        2 => (kix(), prop_oneof![2 => Just(How::Good), 4 => bad_how()]).prop_map(|(key, how)| MlOp::FileWrite { key, how }),
        1 => (kix(), any::<u32>()).prop_map(|(key, sel)| MlOp::FileTruncate { key, sel }),
        6 => kix().prop_map(|key| MlOp::Get { key }),
    ];
    (any::<bool>(), any::<bool>(), proptest::collection::vec(small_val_strategy(), 1..=3), key_pool(), proptest::collection::vec(op, 1..24))
        .prop_map(|(three, ngdp_hooks, vals, keys, ops)| MlCase { three, ngdp_hooks, vals, keys, ops })
        .boxed()
}

pub fn hooks_strategy() -> BoxedStrategy<HooksCase> {
    (val_strategy(), prop_oneof![3 => Just(None), 1 => (0u8..128).prop_map(Some), 1 => (32u8..128).prop_map(Some)], prop_oneof![1 => Just(How::Good), 3 => bad_how()])
        .prop_map(|(val, tweak, how)| HooksCase { val, tweak, how })
        .boxed()
}

// ---------------------------------------------------- values above 100 MiB

/// Md5ValidationHooks carries a size threshold (`should_skip_validation`: above 100 MiB). The
/// statement has no size limit, so both sides of it are exercised: a handful of fixed cases.
#[derive(Debug, Clone, Serialize, Deserialize)]
pub enum BigCase {
    Hooks(HooksCase),
    Cac(CacCase),
    Ml(MlCase),
}

pub const MIB100: u32 = 100 * 1024 * 1024;

pub fn big_cases() -> Vec<BigCase> {
    let mut v = Vec::new();
    for (i, len) in [MIB100, MIB100 + 1].into_iter().enumerate() {
        let val = Val { len, seed: 0xB16 + i as u64 };
        let flip = How::FlipBit { sel: 0x8000_0000, bit: 3 };
        v.push(BigCase::Hooks(HooksCase { val: val.clone(), tweak: None, how: flip.clone() }));
        let keys = vec![KeySel { val: 0, tweak: None }];
        for disk in [false, true] {
            v.push(BigCase::Cac(CacCase {
                disk,
                vals: vec![val.clone()],
                keys: keys.clone(),
                ops: vec![
                    CacOp::PutValidated { key: 0, how: How::Good },
                    CacOp::Get { key: 0 },
                    if disk { CacOp::FileWrite { key: 0, how: flip.clone() } } else { CacOp::InnerPut { key: 0, how: flip.clone() } },
                    CacOp::Get { key: 0 },
                ],
            }));
        }
        for ngdp_hooks in [false, true] {
            v.push(BigCase::Ml(MlCase {
                three: false,
                ngdp_hooks,
                vals: vec![val.clone()],
                keys: keys.clone(),
                ops: vec![
                    MlOp::PutValidated { key: 0, how: How::Good },
                    MlOp::Get { key: 0 },
                    MlOp::LayerPut { key: 0, how: flip.clone(), layer: 0 },
                    MlOp::Get { key: 0 },
                    MlOp::PutValidated { key: 0, how: flip.clone() },
                ],
            }));
        }
    }
    v
}

pub fn check_big(c: &BigCase) -> Verdict {
    let (mut v, len) = match c {
        BigCase::Hooks(h) => (check_hooks(h), h.val.len),
        BigCase::Cac(x) => (check_cac(x), x.vals.iter().map(|v| v.len).max().unwrap_or(0)),
        BigCase::Ml(x) => (check_ml(x), x.vals.iter().map(|v| v.len).max().unwrap_or(0)),
    };
    // own key: what fails only above the threshold has its own root cause
    if len > MIB100 {
        if let Some(f) = v.fail.take() {
            v.fail = Some(vh_engine::Failure { key: format!("{}:value>100MiB", f.key), msg: f.msg });
        }
        v = v.class("value>100MiB");
    } else {
        v = v.class("value==100MiB");
    }
    v.class(match c {
        BigCase::Hooks(_) => "hooks-direct",
        BigCase::Cac(_) => "content-addressed",
        BigCase::Ml(_) => "multi-layer",
    })
}

// ------------------------------------------- a plain put that lands during a validating read

/// The harness owns the schedule: at the `inject_at`-th scheduling point the validating read passes
/// (hook sites between the shared-state accesses of the layers), another thread stores bytes that do
/// NOT hash to the content key under the same cache key with a plain `put`, and runs to completion.
/// Whatever the read returns afterwards has to hash to the key it was asked for.
#[derive(Debug, Clone, Serialize, Deserialize)]
pub struct RaceCase {
    pub three: bool,
    pub ngdp_hooks: bool,
    pub inject_at: u16,
    /// what the slowest layer holds beforehand: 0 nothing, 1 the good value, 2 a corrupted copy
    pub resident: u8,
    pub len: u32,
    pub seed: u64,
}

pub fn race_cases() -> Vec<RaceCase> {
    let mut v = Vec::new();
    for three in [false, true] {
        for ngdp_hooks in [false, true] {
            for resident in 0u8..3 {
                for inject_at in 0u16..10 {
                    v.push(RaceCase { three, ngdp_hooks, inject_at, resident, len: 64 + u32::from(inject_at), seed: 0xace0 + u64::from(inject_at) });
                }
            }
        }
    }
    v
}

pub fn check_race(c: &RaceCase) -> Verdict {
    use std::sync::atomic::{AtomicBool, AtomicUsize, Ordering};
    let Ok(dir) = crate::scratch_dir() else { return Verdict::pass().class("VACUOUS") };
    let rt = rt();
    let layers = if c.three { 3 } else { 2 };
    let mut cfg = MultiLayerCacheConfig::new().with_promotion_strategy(PromotionStrategy::Manual);
    cfg = cfg.add_memory_layer(mem_cfg());
    if c.three {
        cfg = cfg.add_memory_layer(mem_cfg());
    }
    cfg = cfg.add_disk_layer(disk_cfg(dir.path()));
    let cache = {
        let _g = rt.enter();
        let Ok(mut cache) = MultiLayerCacheImpl::<SKey>::new(cfg) else { return Verdict::pass().class("VACUOUS") };
        let hooks: Arc<dyn ValidationHooks> = if c.ngdp_hooks { Arc::new(NgdpValidationHooks::new()) } else { Arc::new(Md5ValidationHooks::new()) };
        cache.set_validation_hooks(Some(hooks));
        Arc::new(cache)
    };
    let good = Rng::new(c.seed).bytes(c.len.max(1) as usize);
    let mut bad = good.clone();
    bad[0] ^= 0x40;
    let ck = md5(&good);
    let name = SKey(hex::encode(ck));
    match c.resident {
        1 => {
            let _ = rt.block_on(cache.put_to_layer(name.clone(), Bytes::copy_from_slice(&good), layers - 1));
        }
        2 => {
            let _ = rt.block_on(cache.put_to_layer(name.clone(), Bytes::copy_from_slice(&bad), layers - 1));
        }
        _ => {}
    }
    let seen = Arc::new(AtomicUsize::new(0));
    let injected = Arc::new(AtomicBool::new(false));
    let (seen2, injected2, cache2, name2, bad2) = (Arc::clone(&seen), Arc::clone(&injected), Arc::clone(&cache), name.clone(), bad.clone());
    let at = usize::from(c.inject_at);
    cascette_cache::verif_hooks::set_sched(Some(Arc::new(move |_site| {
        let n = seen2.fetch_add(1, Ordering::SeqCst);
        if n == at && !injected2.swap(true, Ordering::SeqCst) {
            let (cache3, name3, bad3) = (Arc::clone(&cache2), name2.clone(), bad2.clone());
            // another thread (no scheduling callback of its own) runs the put to completion
            let _ = std::thread::spawn(move || {
                let rt2 = tokio::runtime::Builder::new_current_thread().enable_all().build().expect("runtime");
                let _ = rt2.block_on(cache3.put(name3, Bytes::from(bad3)));
            })
            .join();
        }
    })));
    let got = rt.block_on(cache.get_with_validation(&name, Some(ContentKey::from_bytes(ck))));
    cascette_cache::verif_hooks::set_sched(None);
    let sites = seen.load(Ordering::SeqCst);
    let did = injected.load(Ordering::SeqCst);
    let v = Verdict::pass().nontrivial(did).class_if(did, "put-landed-during-the-validating-read").class_if(!did, "read-passed-fewer-scheduling-points");
    match got {
        Ok(Some(b)) if md5(b.as_ref()) != ck => Verdict::fail(
            "C07:multi-layer:get_with_validation-returns-bytes-not-matching-key:put-during-the-read",
            format!(
                "{layers} layers, slowest layer held {}: a plain put of {} bytes not matching the content key landed at scheduling point #{at} of {sites} the read passed; get_with_validation returned {} bytes whose MD5 is {}, asked for {}",
                ["nothing", "the good value", "a corrupted copy"][usize::from(c.resident % 3)],
                bad.len(),
                b.len(),
                hex::encode(md5(b.as_ref())),
                hex::encode(ck)
            ),
        ),
        _ => v,
    }
}
