//! Oracles for the artifact kinds: apply a fault inside the protected region,
//! hand the result to the real loader, demand rejection.
//!
//! "seen" bytes: what the loader reads at the positions its (unchanged) layout
//! prescribes. A case is non-trivial when at least one protected byte as seen by
//! the loader differs from the accepted original. An acceptance is a violation
//! only when the *reference* hash of the seen bytes disagrees with the seen
//! stored hash (true collisions are counted in class `ref-consistent`).

use crate::art::{self, Art, Ent, ST_DELETE, ent_decode, ent_guard_ok};
use crate::edit::{Edit, Regions};
use cascette_client_storage::index::IndexManager;
use cascette_client_storage::index::update::{UpdateEntry, UpdateSection, UpdateStatus};
use cascette_client_storage::lru::{LruManager, lru_file};
use cascette_client_storage::storage::local_header::LocalHeader;
use serde::{Deserialize, Serialize};
use sha2::{Digest, Sha256};
use std::sync::atomic::{AtomicU64, Ordering};
use vh_engine::Verdict;
use vh_engine::refimpl::{lookup3, md5::md5};
use vh_engine::util::{Rng, hexbytes};

/// cases whose un-mutated artifact was not accepted (must stay 0; reported as
/// infrastructure trouble by main)
pub static VACUOUS: AtomicU64 = AtomicU64::new(0);

fn vacuous(why: &str) -> Verdict {
    if VACUOUS.fetch_add(1, Ordering::Relaxed) == 0 {
        eprintln!("vacuous case: {why}");
    }
    Verdict::pass().class("VACUOUS")
}

fn void() -> Verdict {
    Verdict::pass().class("void-position")
}

fn edit_class(v: Verdict, e: &Edit) -> Verdict {
    v.class(e.kind())
}

// ---------------------------------------------------------------- encoding

#[derive(Debug, Clone, Copy, PartialEq, Eq, Serialize, Deserialize)]
pub enum EncRegion {
    /// bytes of the CKey/EKey pages
    Pages,
    /// the stored 16-byte page checksums in the page index
    Sums,
}

#[derive(Debug, Clone, Serialize, Deserialize)]
pub struct ArtEdit {
    pub art: String,
    pub edit: Edit,
}

#[derive(Debug, Clone, Serialize, Deserialize)]
pub struct EncCase {
    pub art: String,
    pub region: EncRegion,
    pub edit: Edit,
}

pub fn check_enc(c: &EncCase) -> Verdict {
    use cascette_formats::encoding::{EncodingError, EncodingFile};
    let a = match art::get(&c.art) {
        Ok(a) => a,
        Err(e) => return vacuous(&format!("{}: {e}", c.art)),
    };
    let Art::Enc(a) = &*a else { return vacuous("not an encoding artifact") };
    let reg = if c.region == EncRegion::Pages { a.page_regions() } else { a.sum_regions() };
    let Some(m) = c.edit.apply(&a.bytes, &reg) else { return void() };
    let mut changed = false;
    let mut inconsistent = false;
    for (p, s) in a.pages.iter().zip(&a.sums) {
        let sp = m.get(p.clone());
        let ss = m.get(s.clone());
        if sp != Some(&a.bytes[p.clone()]) || ss != Some(&a.bytes[s.clone()]) {
            changed = true;
        }
        match (sp, ss) {
            (Some(sp), Some(ss)) => {
                if md5(sp) != ss {
                    inconsistent = true;
                }
            }
            _ => inconsistent = true,
        }
    }
    if !changed {
        return edit_class(Verdict::pass().class("no-protected-change"), &c.edit);
    }
    // the other entry point: the same altered table inside an intact BLTE container (one 'N' chunk,
    // framed by the harness; the container's own integrity says nothing about the table)
    if inconsistent {
        let mut blte = b"BLTE\0\0\0\0N".to_vec();
        blte.extend_from_slice(&m);
        if EncodingFile::parse_blte(&blte).is_ok() {
            return Verdict::fail(
                if c.region == EncRegion::Pages { "C07:encoding:parse_blte-accepts-altered-page" } else { "C07:encoding:parse_blte-accepts-page-not-matching-altered-stored-checksum" },
                format!("{}: {:?} inside {:?}: EncodingFile::parse_blte returned Ok for the altered table in an intact BLTE container although a page does not hash (MD5) to its stored checksum", c.art, c.edit, c.region),
            );
        }
    }
    match EncodingFile::parse(&m) {
        Err(e) => edit_class(
            Verdict::pass().nontrivial(true).class(if matches!(e, EncodingError::ChecksumMismatch) { "rejected:checksum-mismatch" } else { "rejected:other-error" }),
            &c.edit,
        ),
        Ok(_) if inconsistent => Verdict::fail(
            if c.region == EncRegion::Pages { "C07:encoding:parse-accepts-altered-page" } else { "C07:encoding:parse-accepts-page-not-matching-altered-stored-checksum" },
            format!("{}: {:?} inside {:?}: EncodingFile::parse returned Ok although a page does not hash (MD5) to its stored checksum", c.art, c.edit, c.region),
        ),
        Ok(_) => edit_class(Verdict::pass().class("ref-consistent"), &c.edit),
    }
}

// ----------------------------------------------------------- archive index

#[derive(Debug, Clone, Serialize, Deserialize)]
pub struct AidxCase {
    pub art: String,
    pub edit: Edit,
    /// also go through ChunkedArchiveIndex::open (writes a file)
    pub chunked: bool,
}

pub fn check_aidx(c: &AidxCase) -> Verdict {
    use cascette_formats::archive::{ArchiveIndex, ChunkedArchiveIndex};
    let a = match art::get(&c.art) {
        Ok(a) => a,
        Err(e) => return vacuous(&format!("{}: {e}", c.art)),
    };
    let Art::Aidx(a) = &*a else { return vacuous("not an archive index") };
    let Some(m) = c.edit.apply(&a.bytes, &a.regions()) else { return void() };
    let of = &a.bytes[a.bytes.len() - 28..];
    let seen = if m.len() >= 28 { Some(&m[m.len() - 28..]) } else { None };
    let changed = seen.is_none_or(|s| s[8..28] != of[8..28]);
    if !changed {
        return edit_class(Verdict::pass().class("no-protected-change"), &c.edit);
    }
    let consistent = seen.is_some_and(|s| s[15] == 8 && art::footer_consistent(s));
    // The loaders find the footer through the hash-size byte 13 bytes before the end. When the
    // tail of the stored hash is cut off, that position holds another field; if its value h < 8
    // happens to make "20 + h bytes before the end" the true footer start, the h bytes left of
    // the hash still match. Own root cause, own key.
    let cut_short = m.len() >= 28 && {
        let h = m[m.len() - 13] as usize;
        h < 8 && {
            let f = &m[m.len() - 20 - h..];
            let mut d = [0u8; 20];
            d[..12].copy_from_slice(&f[8..20]);
            f[15] == 8 && f[8..20] == of[8..20] && vh_engine::refimpl::md5::md5(&d)[..h] == f[20..20 + h]
        }
    };
    let mut v = Verdict::pass().nontrivial(true);
    match ArchiveIndex::parse(std::io::Cursor::new(&m)) {
        Err(e) => {
            v = v.class(match e {
                cascette_formats::archive::ArchiveError::ChecksumMismatch { .. } => "rejected:checksum-mismatch",
                _ => "rejected:other-error",
            })
        }
        Ok(_) if !consistent => {
            return Verdict::fail(
                if cut_short { "C07:archive-index:parse-accepts-footer-whose-stored-hash-is-cut-short" } else { "C07:archive-index:parse-accepts-altered-footer" },
                format!("{}: {:?} in footer[8..28): ArchiveIndex::parse returned Ok; last 28 bytes now {}", c.art, c.edit, hex::encode(seen.unwrap_or(&[]))),
            );
        }
        Ok(_) => return edit_class(Verdict::pass().class("ref-consistent"), &c.edit),
    }
    if c.chunked {
        let Ok(dir) = crate::scratch_dir() else { return vacuous("tempdir") };
        let p = dir.path().join("x.index");
        if std::fs::write(&p, &m).is_err() {
            return vacuous("write");
        }
        match ChunkedArchiveIndex::open(&p) {
            Err(_) => v = v.class("chunked-open-rejected"),
            Ok(_) if !consistent => {
                return Verdict::fail(
                    if cut_short { "C07:archive-index:chunked-open-accepts-footer-whose-stored-hash-is-cut-short" } else { "C07:archive-index:chunked-open-accepts-altered-footer" },
                    format!(
                        "{}: {:?} in footer[8..28): ChunkedArchiveIndex::open returned Ok; last 28 bytes were {} and are now {}",
                        c.art,
                        c.edit,
                        hex::encode(of),
                        hex::encode(seen.unwrap_or(&[]))
                    ),
                );
            }
            Ok(_) => {}
        }
    }
    edit_class(v, &c.edit)
}

// ------------------------------------------------- archive index: file length

/// A span removed from / inserted into the part of an archive index *in front of* the footer
/// (data pages and table of contents). The footer itself stays byte-identical and so keeps a
/// valid hash; its checksummed fields (page size, key/size/offset widths, hash width, element
/// count) fix the exact length of the file, which `validate_file_size` compares.
#[derive(Debug, Clone, Serialize, Deserialize)]
pub struct AidxLenCase {
    pub art: String,
    /// byte offset from the start of the file (clamped to the body)
    pub pos: u32,
    /// length of the span
    pub n: u32,
    pub insert: bool,
    /// inserted bytes: a copy of the n bytes that precede `pos` (a forged record that keeps
    /// neighbours plausible) when true, zeros otherwise
    pub copy_neighbour: bool,
}

/// Length of an archive index as determined by its footer (documented layout: full pages of
/// `page_size_kb` KiB, one TOC entry of key + hash per page, 20 + hash bytes of footer).
pub fn aidx_len_by_footer(f: &[u8]) -> Option<u64> {
    let f = &f[f.len().checked_sub(28)?..];
    let (page_kb, off_b, size_b, key_b, hash_b) = (u64::from(f[11]), u64::from(f[12]), u64::from(f[13]), u64::from(f[14]), u64::from(f[15]));
    let count = u64::from(u32::from_le_bytes([f[16], f[17], f[18], f[19]]));
    let rec = key_b + size_b + off_b;
    if rec == 0 || page_kb == 0 {
        return None;
    }
    let per_page = page_kb * 1024 / rec;
    if per_page == 0 {
        return None;
    }
    let pages = count.div_ceil(per_page);
    Some(pages * page_kb * 1024 + pages * (key_b + hash_b) + 20 + hash_b)
}

pub fn check_aidx_len(c: &AidxLenCase) -> Verdict {
    use cascette_formats::archive::{ArchiveIndex, ChunkedArchiveIndex};
    let a = match art::get(&c.art) {
        Ok(a) => a,
        Err(e) => return vacuous(&format!("{}: {e}", c.art)),
    };
    let Art::Aidx(a) = &*a else { return vacuous("not an archive index") };
    let body = a.bytes.len() - 28;
    let Some(expect) = aidx_len_by_footer(&a.bytes) else { return vacuous("footer fields give no length") };
    if expect != a.bytes.len() as u64 {
        return vacuous("the intact artifact's length is not the one its footer determines");
    }
    let n = c.n as usize;
    if n == 0 {
        return void();
    }
    let mut m = a.bytes.clone();
    let kind;
    if c.insert {
        let pos = (c.pos as usize).min(body);
        let ins: Vec<u8> = if c.copy_neighbour && pos >= n { a.bytes[pos - n..pos].to_vec() } else { vec![0u8; n] };
        m.splice(pos..pos, ins);
        kind = "insert";
    } else {
        let pos = (c.pos as usize).min(body.saturating_sub(1));
        let n = n.min(body - pos);
        if n == 0 {
            return void();
        }
        m.drain(pos..pos + n);
        kind = "delete";
    }
    debug_assert_eq!(&m[m.len() - 28..], &a.bytes[a.bytes.len() - 28..]);
    let f = &a.bytes[a.bytes.len() - 28..];
    let rec = usize::from(f[12]) + usize::from(f[13]) + usize::from(f[14]);
    let page = usize::from(f[11]) * 1024;
    let pages = (a.bytes.len() - 28) / (page + usize::from(f[14]) + 8);
    let where_ = if (c.pos as usize) < pages * page {
        if (c.pos as usize) % page % rec == 0 { "data:record-boundary" } else { "data:inside-record" }
    } else {
        "toc"
    };
    let mut v = Verdict::pass().nontrivial(true).class(kind).class(where_).class(if c.n as usize % rec == 0 { "span=whole-records" } else { "span=other" });
    match ArchiveIndex::parse(std::io::Cursor::new(&m)) {
        Err(e) => {
            v = v.class(match e {
                cascette_formats::archive::ArchiveError::FileSizeMismatch { .. } => "rejected:file-size-mismatch",
                _ => "rejected:other-error",
            })
        }
        Ok(ix) => {
            return Verdict::fail(
                "C07:archive-index:parse-accepts-length-that-contradicts-checksummed-footer",
                format!(
                    "{}: {kind} of {} bytes at offset {} (footer untouched, hash valid): the footer's checksummed fields fix the file at {expect} bytes, the file has {}; ArchiveIndex::parse returned Ok with {} entries (element_count {})",
                    c.art,
                    c.n,
                    c.pos,
                    m.len(),
                    ix.entries.len(),
                    ix.footer.element_count
                ),
            );
        }
    }
    // ChunkedArchiveIndex::open reads only footer and TOC and documents no length check; what it
    // does is recorded, not judged
    if c.n % 7 == 0 {
        if let Ok(dir) = crate::scratch_dir() {
            let p = dir.path().join("x.index");
            if std::fs::write(&p, &m).is_ok() {
                v = v.class(if ChunkedArchiveIndex::open(&p).is_ok() { "observed:chunked-open-accepts" } else { "observed:chunked-open-rejects" });
            }
        }
    }
    v
}

// --------------------------------------------------------------------- lru

#[derive(Debug, Clone, Serialize, Deserialize)]
pub enum LruFault {
    Edit(Edit),
    /// drop the last n 20-byte entries (file size stays well-formed)
    DropEntries { n: u8 },
    /// append n 20-byte entries of arbitrary content
    AddEntries { n: u8, seed: u64 },
}

#[derive(Debug, Clone, Serialize, Deserialize)]
pub struct LruCase {
    pub art: String,
    pub fault: LruFault,
    /// also go through LruManager::load_from_disk / run_cycle (writes a file)
    pub disk: bool,
}

pub fn check_lru(c: &LruCase) -> Verdict {
    let a = match art::get(&c.art) {
        Ok(a) => a,
        Err(e) => return vacuous(&format!("{}: {e}", c.art)),
    };
    let Art::Lru(a) = &*a else { return vacuous("not an lru artifact") };
    let (m, kind) = match &c.fault {
        LruFault::Edit(e) => {
            let Some(m) = e.apply(&a.bytes, &Regions(vec![0..a.bytes.len()])) else { return void() };
            (m, e.kind())
        }
        LruFault::DropEntries { n } => {
            let have = (a.bytes.len() - 28) / 20;
            let n = (*n as usize).min(have);
            (a.bytes[..a.bytes.len() - 20 * n].to_vec(), "drop-entries")
        }
        LruFault::AddEntries { n, seed } => {
            let mut m = a.bytes.clone();
            m.extend(Rng::new(*seed).bytes(20 * (*n as usize)));
            (m, "add-entries")
        }
    };
    if m == a.bytes {
        return Verdict::pass().class("no-protected-change").class(kind);
    }
    let consistent = art::lru_consistent(&m) && u16::from_le_bytes([m[0], m[1]]) <= 1;
    if lru_file::deserialize(&m).is_some() {
        if consistent {
            return Verdict::pass().class("ref-consistent");
        }
        return Verdict::fail("C07:lru:deserialize-accepts-altered-file", format!("{}: {:?}: lru_file::deserialize returned Some", c.art, c.fault));
    }
    let mut v = Verdict::pass().nontrivial(true).class(kind);
    if c.disk {
        let Ok(dir) = crate::scratch_dir() else { return vacuous("tempdir") };
        let p = lru_file::lru_file_path(dir.path(), a.generation);
        if std::fs::write(&p, &m).is_err() {
            return vacuous("write");
        }
        let rt = art::rt();
        let mut mgr = LruManager::new(a.cap.max(2), dir.path().to_path_buf());
        let (ka, kb) = ([0xA1u8; 9], [0xB2u8; 9]);
        mgr.touch(&ka);
        mgr.touch(&kb);
        if rt.block_on(mgr.load_from_disk(a.generation)).is_ok() {
            return Verdict::fail("C07:lru:load_from_disk-accepts-altered-file", format!("{}: {:?}: load_from_disk returned Ok", c.art, c.fault));
        }
        let mut seen = Vec::new();
        mgr.for_each_entry(|k| seen.push(*k));
        if mgr.len() != 2 || !mgr.contains(&ka) || !mgr.contains(&kb) || seen != vec![ka, kb] {
            return Verdict::fail(
                "C07:lru:failed-load-altered-manager-state",
                format!("{}: {:?}: load_from_disk failed but the manager now lists {} entries {:?}", c.art, c.fault, mgr.len(), seen.iter().map(hex::encode).collect::<Vec<_>>()),
            );
        }
        let mut mgr2 = LruManager::new(a.cap.max(2), dir.path().to_path_buf());
        if rt.block_on(mgr2.run_cycle(0, 0)).is_ok() {
            return Verdict::fail("C07:lru:run_cycle-accepts-altered-file", format!("{}: {:?}: run_cycle returned Ok", c.art, c.fault));
        }
        v = v.class("disk-load-rejected");
    }
    v
}

// ------------------------------------------------------------ update entry

#[derive(Debug, Clone, Serialize, Deserialize)]
pub struct EntSpec {
    pub key_seed: u64,
    pub id: u16,
    pub off: u32,
    pub size: u32,
    /// 0 Normal, 1 Delete, 2 HeaderNonResident, 3 DataNonResident
    pub status: u8,
}

impl EntSpec {
    fn status(&self) -> UpdateStatus {
        match self.status % 4 {
            0 => UpdateStatus::Normal,
            1 => UpdateStatus::Delete,
            2 => UpdateStatus::HeaderNonResident,
            _ => UpdateStatus::DataNonResident,
        }
    }
    /// 24 entry bytes followed by 8 bytes of whatever comes next in the page
    fn bytes(&self) -> Vec<u8> {
        use cascette_client_storage::index::ArchiveLocation;
        let mut r = Rng::new(self.key_seed);
        let mut k = [0u8; 9];
        k.copy_from_slice(&r.bytes(9));
        let e = UpdateEntry::new(k, ArchiveLocation { archive_id: self.id & 0x3FF, archive_offset: self.off & 0x3FFF_FFFF }, self.size, self.status());
        let mut v = e.to_bytes().to_vec();
        v.extend(r.bytes(8));
        v
    }
}

#[derive(Debug, Clone, Serialize, Deserialize)]
pub struct EntCase {
    pub ent: EntSpec,
    pub edit: Edit,
}

fn status_class(b: u8) -> UpdateStatus {
    UpdateStatus::from_byte(b)
}

pub fn check_upd_entry(c: &EntCase) -> Verdict {
    let orig = c.ent.bytes();
    let mut o24 = [0u8; 24];
    o24.copy_from_slice(&orig[..24]);
    if !ent_guard_ok(&o24) || !UpdateEntry::from_bytes(&o24).validate_hash_guard() {
        return vacuous("fresh update entry does not validate");
    }
    let Some(m) = c.edit.apply(&orig, &Regions(vec![0..23])) else { return void() };
    if m.len() < 24 {
        return void();
    }
    let mut s24 = [0u8; 24];
    s24.copy_from_slice(&m[..24]);
    if s24[..23] == o24[..23] {
        return edit_class(Verdict::pass().class("no-protected-change"), &c.edit);
    }
    let parsed = UpdateEntry::from_bytes(&s24);
    if !parsed.validate_hash_guard() {
        return edit_class(Verdict::pass().nontrivial(true).class("reported-invalid"), &c.edit);
    }
    if ent_guard_ok(&s24) {
        return edit_class(Verdict::pass().class("ref-consistent"), &c.edit);
    }
    // the struct keeps the status as an enum: raw values other than 3/6/7 all read as
    // Normal. Such a change yields an entry *equal* to the accepted original: nothing
    // altered is handed out, so this is counted, not reported.
    let (eo, em) = (ent_decode(&o24), ent_decode(&s24));
    if s24[..4] == o24[..4] && eo.key == em.key && eo.id == em.id && eo.off == em.off && eo.size == em.size && status_class(eo.status) == status_class(em.status) {
        return edit_class(Verdict::pass().class("status-byte-alias-of-same-entry"), &c.edit);
    }
    Verdict::fail(
        "C07:update-entry:validate_hash_guard-true-for-altered-entry",
        format!("entry {} altered to {} ({:?}): validate_hash_guard() is true", hex::encode(o24), hex::encode(s24), c.edit),
    )
}

// ------------------------------------------- update section / .idx loaders

pub const K_UPD_LOADER: &str = "C07:update-section:loader-serves-entry-whose-guard-does-not-validate";

fn same_status(a: u8, b: UpdateStatus) -> bool {
    status_class(a) == b
}

/// Every 24-byte slot position of `section` whose decode equals (key, id, off, size):
/// (count, all of them pass the reference guard)
fn matching_slots(section: &[u8], key: &[u8; 9], id: u16, off: u32, size: u32) -> (usize, bool) {
    let (mut n, mut all_ok) = (0, true);
    let mut page = 0;
    while page + 512 <= section.len() {
        for s in 0..21 {
            let b = &section[page + s * 24..page + s * 24 + 24];
            if b[..4] == [0, 0, 0, 0] {
                continue;
            }
            let e = ent_decode(b);
            if &e.key == key && e.id == id && e.off == off && e.size == size {
                n += 1;
                if !ent_guard_ok(b) {
                    all_ok = false;
                }
            }
        }
        page += 512;
    }
    (n, all_ok)
}

/// keys stored at the (fixed) slot positions of a mutated section
fn slot_keys(section: &[u8], slots_rel: &[usize]) -> Vec<[u8; 9]> {
    slots_rel.iter().filter(|&&s| s + 24 <= section.len()).map(|&s| ent_decode(&section[s..s + 24]).key).collect()
}

pub fn check_upd_section(c: &ArtEdit) -> Verdict {
    let a = match art::get(&c.art) {
        Ok(a) => a,
        Err(e) => return vacuous(&format!("{}: {e}", c.art)),
    };
    let Art::Upd(a) = &*a else { return vacuous("not an update section") };
    let Some(m) = c.edit.apply(&a.bytes, &a.regions()) else { return void() };
    if m == a.bytes {
        return edit_class(Verdict::pass().class("no-protected-change"), &c.edit);
    }
    let sec = UpdateSection::from_bytes(&m);
    let genuine = |e: &UpdateEntry| {
        a.ents.iter().any(|o| o.key == e.ekey && o.id == e.archive_location.archive_id && o.off == e.archive_location.archive_offset && o.size == e.encoded_size && same_status(o.status, e.status))
    };
    let mut keys: Vec<[u8; 9]> = a.ents.iter().map(|e| e.key).collect();
    keys.extend(slot_keys(&m, &a.slots));
    keys.sort();
    keys.dedup();
    let mut served: Vec<&UpdateEntry> = keys.iter().filter_map(|k| sec.search(k)).collect();
    served.extend(sec.all_entries());
    let mut collisions = false;
    for e in served {
        if genuine(e) {
            continue;
        }
        let (n, all_ok) = matching_slots(&m, &e.ekey, e.archive_location.archive_id, e.archive_location.archive_offset, e.encoded_size);
        if n > 0 && all_ok {
            collisions = true;
            continue;
        }
        return Verdict::fail(
            K_UPD_LOADER,
            format!(
                "{}: {:?}: UpdateSection::from_bytes serves key {} -> archive {} offset {} size {} status {:?}, which no entry of the intact section holds; its stored guard does not match hashlittle(bytes[4..23])",
                c.art,
                c.edit,
                hex::encode(e.ekey),
                e.archive_location.archive_id,
                e.archive_location.archive_offset,
                e.encoded_size,
                e.status
            ),
        );
    }
    edit_class(Verdict::pass().nontrivial(true).class_if(collisions, "ref-consistent"), &c.edit)
}

pub fn check_idx(c: &ArtEdit) -> Verdict {
    let a = match art::get(&c.art) {
        Ok(a) => a,
        Err(e) => return vacuous(&format!("{}: {e}", c.art)),
    };
    let Art::Idx(a) = &*a else { return vacuous("not an idx artifact") };
    let Some(m) = c.edit.apply(&a.bytes, &a.regions()) else { return void() };
    if m == a.bytes {
        return edit_class(Verdict::pass().class("no-protected-change"), &c.edit);
    }
    let Ok(dir) = crate::scratch_dir() else { return vacuous("tempdir") };
    let p = dir.path().join(&a.fname);
    if std::fs::write(&p, &m).is_err() {
        return vacuous("write");
    }
    let mut mgr = IndexManager::new(dir.path());
    if mgr.load_index(a.bucket, &p).is_err() {
        return edit_class(Verdict::pass().nontrivial(true).class("load-failed"), &c.edit);
    }
    let upd_start = a.slots[0];
    let section = if upd_start <= m.len() { &m[upd_start..] } else { &m[m.len()..] };
    let rel: Vec<usize> = a.slots.iter().map(|s| s - upd_start).collect();
    let mut keys = a.all_keys();
    keys.extend(slot_keys(section, &rel));
    keys.sort();
    keys.dedup();
    let mut served: Vec<([u8; 9], u16, u32, u32, &'static str)> = Vec::new();
    for k in &keys {
        if let Some(e) = mgr.lookup(&art::ekey_from9(k)) {
            served.push((e.key, e.archive_id(), e.archive_offset(), e.size, "lookup"));
        }
    }
    for (_b, e) in mgr.iter_entries() {
        served.push((e.key, e.archive_id(), e.archive_offset(), e.size, "iter_entries"));
    }
    let mut collisions = false;
    let mut lost = false;
    for (key, id, off, size, via) in served {
        if a.genuine(&key, id, off, size) {
            continue;
        }
        let (n, all_ok) = matching_slots(section, &key, id, off, size);
        if n > 0 && all_ok {
            collisions = true;
            continue;
        }
        return Verdict::fail(
            K_UPD_LOADER,
            format!(
                "{}: {:?}: after IndexManager::load_index, {via} serves key {} -> archive {id} offset {off} size {size}, which no live entry of the intact file holds; the update entry's stored guard does not match hashlittle(bytes[4..23])",
                c.art,
                c.edit,
                hex::encode(key)
            ),
        );
    }
    for k in a.all_keys() {
        if a.expected(&k).is_some() && mgr.lookup(&art::ekey_from9(&k)).is_none() {
            lost = true;
        }
    }
    edit_class(Verdict::pass().nontrivial(true).class_if(collisions, "ref-consistent").class_if(lost, "entry-dropped").class_if(!lost, "all-genuine-served"), &c.edit)
}

/// A fault built to survive a *partial* comparison of the 32-bit guard: the packed offset
/// of one update entry is replaced by the first value (deterministic search over the 30
/// offset bits) whose reference guard agrees with the stored guard on the bits of `mask`
/// but not on all 32.
#[derive(Debug, Clone, Serialize, Deserialize)]
pub struct CollideCase {
    pub art: String,
    pub slot: u16,
    pub mask: u32,
}

fn collide_edit(slot_bytes: &[u8], slot: usize, mask: u32) -> Option<Edit> {
    let stored = u32::from_le_bytes([slot_bytes[0], slot_bytes[1], slot_bytes[2], slot_bytes[3]]);
    let packed = u32::from_be_bytes([slot_bytes[14], slot_bytes[15], slot_bytes[16], slot_bytes[17]]);
    let mut b = [0u8; 24];
    b.copy_from_slice(&slot_bytes[..24]);
    for cand in 1u32..(1 << 30) {
        let p = packed ^ cand;
        b[14..18].copy_from_slice(&p.to_be_bytes());
        let g = lookup3::hashlittle(&b[4..23], 0) | 0x8000_0000;
        if g != stored && (g ^ stored) & mask == 0 {
            return Some(Edit::Subst { pos: (slot * 23 + 14) as u32, bytes: p.to_be_bytes().to_vec() });
        }
    }
    None
}

pub fn check_collide(c: &CollideCase) -> Verdict {
    let a = match art::get(&c.art) {
        Ok(a) => a,
        Err(e) => return vacuous(&format!("{}: {e}", c.art)),
    };
    let (bytes, slots) = match &*a {
        Art::Upd(a) => (&a.bytes, &a.slots),
        Art::Idx(a) => (&a.bytes, &a.slots),
        _ => return vacuous("not an update-section artifact"),
    };
    let Some(&o) = slots.get(c.slot as usize) else { return void() };
    let Some(edit) = collide_edit(&bytes[o..o + 24], c.slot as usize, c.mask) else { return void() };
    let ae = ArtEdit { art: c.art.clone(), edit };
    let v = if matches!(&*a, Art::Upd(_)) { check_upd_section(&ae) } else { check_idx(&ae) };
    v.class("partial-guard-collision")
}

// ------------------------------------------------------------ local header

#[derive(Debug, Clone, Serialize, Deserialize)]
pub struct HdrCase {
    pub key_seed: u64,
    pub blte_size: u32,
    pub base: u32,
    pub edit: Edit,
}

fn hdr_ref_ok(h: &[u8], base: usize) -> bool {
    let a = lookup3::hashlittle(&h[..22], 0x3D6B_E971);
    let mut b = [0u8; 4];
    for i in 0..26 {
        b[(base + i) & 3] ^= h[i];
    }
    a.to_le_bytes() == h[22..26] && b == h[26..30]
}

pub fn check_hdr(c: &HdrCase) -> Verdict {
    let mut r = Rng::new(c.key_seed);
    let mut k = [0u8; 16];
    k.copy_from_slice(&r.bytes(16));
    let base = c.base as usize;
    let size = c.blte_size.min(u32::MAX - 30);
    let h = LocalHeader::new(k, size, base);
    let mut orig = h.to_bytes().to_vec();
    if !h.validate_checksums(base) || !hdr_ref_ok(&orig, base) || !LocalHeader::from_bytes(&orig).is_some_and(|p| p.validate_checksums(base)) {
        return vacuous("fresh local header does not validate");
    }
    orig.extend(r.bytes(8)); // what follows the header in the archive
    let Some(m) = c.edit.apply(&orig, &Regions(vec![0..30])) else { return void() };
    if m.len() < 30 {
        return void();
    }
    let seen = &m[..30];
    if seen == &orig[..30] {
        return edit_class(Verdict::pass().class("no-protected-change"), &c.edit);
    }
    let Some(p) = LocalHeader::from_bytes(seen) else {
        return edit_class(Verdict::pass().nontrivial(true).class("parse-none"), &c.edit);
    };
    if !p.validate_checksums(base) {
        return edit_class(Verdict::pass().nontrivial(true).class("reported-invalid").class_if(c.base % 4 != 0, "base-not-multiple-of-4"), &c.edit);
    }
    if hdr_ref_ok(seen, base) {
        return edit_class(Verdict::pass().class("ref-consistent"), &c.edit);
    }
    Verdict::fail(
        "C07:local-header:validate_checksums-true-for-altered-header",
        format!("header {} altered to {} ({:?}), base offset {base}: validate_checksums is true", hex::encode(&orig[..30]), hex::encode(seen), c.edit),
    )
}

// ---------------------------------------------------------------- V1 MIME

#[derive(Debug, Clone, Copy, PartialEq, Eq, Serialize, Deserialize)]
pub enum V1Region {
    /// every byte before the `Checksum:` line
    Message,
    /// the 64 hex digits of the checksum line (substitution by another hex digit only)
    Digits,
}

#[derive(Debug, Clone, Serialize, Deserialize)]
pub struct V1Case {
    /// response as produced by cascette_ribbit::tcp::v1::handle_v1_command
    #[serde(with = "hexbytes")]
    pub resp: Vec<u8>,
    pub region: V1Region,
    pub edit: Edit,
}

/// offset of the checksum line if `resp` ends with a well-formed one whose SHA-256
/// (independent implementation: sha2) covers exactly the bytes before it
pub fn v1_layout(resp: &[u8]) -> Option<usize> {
    const P: &[u8] = b"Checksum: ";
    let at = resp.windows(P.len()).rposition(|w| w == P)?;
    let rest = &resp[at + P.len()..];
    if rest.len() != 66 || &rest[64..] != b"\r\n" {
        return None;
    }
    let hexsum = hex::encode(Sha256::digest(&resp[..at]));
    (hexsum.as_bytes() == &rest[..64]).then_some(at)
}

pub fn check_v1(c: &V1Case) -> Verdict {
    use cascette_protocol::mime_parser::parse_v1_mime_response;
    let Some(at) = v1_layout(&c.resp) else { return vacuous("server response has no covering checksum line") };
    // the reference layout check above says a covering checksum line is there; whether the parser
    // finds it shows in what it does with the altered message
    if parse_v1_mime_response(&c.resp).is_err() {
        return vacuous("server response rejected by parse_v1_mime_response");
    }
    let reg = match c.region {
        V1Region::Message => Regions(vec![0..at]),
        V1Region::Digits => Regions(vec![at + 10..at + 74]),
    };
    if c.region == V1Region::Digits {
        match &c.edit {
            Edit::Subst { bytes, .. } if bytes.len() == 1 && bytes[0].is_ascii_hexdigit() => {}
            _ => return void(),
        }
    }
    let Some(m) = c.edit.apply(&c.resp, &reg) else { return void() };
    if m == c.resp {
        return edit_class(Verdict::pass().class("no-protected-change"), &c.edit);
    }
    // the trailer is kept by construction
    debug_assert!(m.ends_with(b"\r\n"));
    match parse_v1_mime_response(&m) {
        Err(_) => edit_class(Verdict::pass().nontrivial(true).class("rejected"), &c.edit),
        Ok(r) => {
            // independent recomputation: does the kept checksum line cover the altered message?
            if v1_layout(&m).is_some() {
                return edit_class(Verdict::pass().class("ref-consistent"), &c.edit);
            }
            Verdict::fail(
                if c.region == V1Region::Message { "C07:v1-mime:parse-accepts-altered-message" } else { "C07:v1-mime:parse-accepts-message-with-altered-checksum" },
                format!("{:?} in {:?}: parse_v1_mime_response returned Ok (checksum field {:?}, {} data bytes)", c.edit, c.region, r.checksum, r.data.len()),
            )
        }
    }
}

#[allow(dead_code)]
pub fn ent_is_tombstone(e: &Ent) -> bool {
    e.status == ST_DELETE
}
