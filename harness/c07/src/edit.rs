//! Faults applied inside a protected region of an artifact.
//!
//! Positions are *region-relative*: the protected region of an artifact is a
//! list of byte ranges; offset `p` counts bytes over the concatenation of the
//! ranges. A multi-byte edit never leaves the range it starts in.

use serde::{Deserialize, Serialize};
use std::ops::Range;
use vh_engine::util::hexbytes;

#[derive(Debug, Clone)]
pub struct Regions(pub Vec<Range<usize>>);

impl Regions {
    pub fn total(&self) -> usize {
        self.0.iter().map(|r| r.len()).sum()
    }
    /// absolute offset and end of the containing range
    pub fn abs(&self, mut p: usize) -> Option<(usize, usize)> {
        for r in &self.0 {
            if p < r.len() {
                return Some((r.start + p, r.end));
            }
            p -= r.len();
        }
        None
    }
}

/// A fault with exact region-relative positions.
#[derive(Debug, Clone, Serialize, Deserialize)]
pub enum Edit {
    Flip { pos: u32, bit: u8 },
    Flip2 { pos_a: u32, bit_a: u8, pos_b: u32, bit_b: u8 },
    Subst {
        pos: u32,
        #[serde(with = "hexbytes")]
        bytes: Vec<u8>,
    },
    Delete { pos: u32, n: u8 },
    Insert {
        pos: u32,
        #[serde(with = "hexbytes")]
        bytes: Vec<u8>,
    },
}

impl Edit {
    pub fn kind(&self) -> &'static str {
        match self {
            Edit::Flip { .. } => "flip",
            Edit::Flip2 { .. } => "flip2",
            Edit::Subst { .. } => "subst",
            Edit::Delete { .. } => "delete",
            Edit::Insert { .. } => "insert",
        }
    }

    /// `None`: the position lies outside the region (case is void).
    pub fn apply(&self, orig: &[u8], reg: &Regions) -> Option<Vec<u8>> {
        let mut out = orig.to_vec();
        match self {
            Edit::Flip { pos, bit } => {
                let (a, _) = reg.abs(*pos as usize)?;
                out[a] ^= 1 << (bit & 7);
            }
            Edit::Flip2 { pos_a, bit_a, pos_b, bit_b } => {
                let (a, _) = reg.abs(*pos_a as usize)?;
                let (b, _) = reg.abs(*pos_b as usize)?;
                out[a] ^= 1 << (bit_a & 7);
                out[b] ^= 1 << (bit_b & 7);
            }
            Edit::Subst { pos, bytes } => {
                let (a, end) = reg.abs(*pos as usize)?;
                for (i, b) in bytes.iter().enumerate() {
                    if a + i < end {
                        out[a + i] = *b;
                    }
                }
            }
            Edit::Delete { pos, n } => {
                let (a, end) = reg.abs(*pos as usize)?;
                let n = (*n as usize).min(end - a);
                out.drain(a..a + n);
            }
            Edit::Insert { pos, bytes } => {
                let (a, _) = reg.abs(*pos as usize)?;
                out.splice(a..a, bytes.iter().copied());
            }
        }
        Some(out)
    }
}

/// Monotone map of a 32-bit selector onto `0..len`.
pub fn pick32(sel: u32, len: usize) -> usize {
    ((sel as u64 * len as u64) >> 32) as usize
}

/// A fault whose positions are selectors (scaled by the size of the region at
/// check time) — what the pbt sections generate and shrink.
#[derive(Debug, Clone, Serialize, Deserialize)]
pub enum EditSel {
    Flip { sel: u32, bit: u8 },
    Flip2 { sel_a: u32, bit_a: u8, sel_b: u32, bit_b: u8 },
    Subst {
        sel: u32,
        #[serde(with = "hexbytes")]
        bytes: Vec<u8>,
    },
    Delete { sel: u32, n: u8 },
    Insert {
        sel: u32,
        #[serde(with = "hexbytes")]
        bytes: Vec<u8>,
    },
}

impl EditSel {
    pub fn resolve(&self, total: usize) -> Edit {
        let p = |s: u32| pick32(s, total) as u32;
        match self {
            EditSel::Flip { sel, bit } => Edit::Flip { pos: p(*sel), bit: *bit },
            EditSel::Flip2 { sel_a, bit_a, sel_b, bit_b } => Edit::Flip2 { pos_a: p(*sel_a), bit_a: *bit_a, pos_b: p(*sel_b), bit_b: *bit_b },
            EditSel::Subst { sel, bytes } => Edit::Subst { pos: p(*sel), bytes: bytes.clone() },
            EditSel::Delete { sel, n } => Edit::Delete { pos: p(*sel), n: *n },
            EditSel::Insert { sel, bytes } => Edit::Insert { pos: p(*sel), bytes: bytes.clone() },
        }
    }
}

pub mod strat {
    use super::EditSel;
    use proptest::prelude::*;

    fn small_bytes() -> impl Strategy<Value = Vec<u8>> {
        proptest::collection::vec(prop_oneof![3 => any::<u8>(), 1 => Just(0u8), 1 => Just(0xffu8)], 1..=8)
    }

    /// substitutions, deletions and insertions of 1–8 bytes (+ a few double bit flips)
    pub fn edits(with_indel: bool) -> BoxedStrategy<EditSel> {
        let subst = (any::<u32>(), small_bytes()).prop_map(|(sel, bytes)| EditSel::Subst { sel, bytes });
        let flip2 = (any::<u32>(), 0u8..8, any::<u32>(), 0u8..8).prop_map(|(sel_a, bit_a, sel_b, bit_b)| EditSel::Flip2 { sel_a, bit_a, sel_b, bit_b });
        if with_indel {
            let del = (any::<u32>(), 1u8..=8).prop_map(|(sel, n)| EditSel::Delete { sel, n });
            let ins = (any::<u32>(), small_bytes()).prop_map(|(sel, bytes)| EditSel::Insert { sel, bytes });
            prop_oneof![4 => subst, 3 => del, 3 => ins, 1 => flip2].boxed()
        } else {
            prop_oneof![4 => subst, 1 => flip2].boxed()
        }
    }
}
