//! C07 / v1-over-tcp: the checksum line of a V1 response as it travels. `RibbitClient::query`
//! reads a response from a loopback server that sends it in one piece, or cut right in front of
//! the `Checksum:` line (the line arrives in a later segment), one byte into that line, or in the
//! middle of the message; responses whose protected part is exactly one or two read buffers
//! (8192 / 16384 bytes) long are among them. An altered protected byte makes the query fail,
//! however the bytes arrive; the intact response is read.

use crate::checks::v1_layout;
use cascette_protocol::client::RibbitClient;
use serde::{Deserialize, Serialize};
use std::time::Duration;
use tokio::io::{AsyncReadExt, AsyncWriteExt};
use vh_engine::Verdict;

#[derive(Debug, Clone, Serialize, Deserialize)]
pub struct TcpCase {
    pub name: String,
    #[serde(with = "vh_engine::util::hexbytes")]
    pub resp: Vec<u8>,
    /// alter one hex digit of the protected part
    pub altered: bool,
    /// 0 one piece; 1 cut in front of the checksum line; 2 one byte into it; 3 middle of the message;
    /// 4 in front of the closing delimiter line
    pub split: u8,
}

/// pads the BPSV body with a comment line so that the protected part is exactly `target` bytes
fn padded(resp: &[u8], target: usize) -> Option<Vec<u8>> {
    let at = v1_layout(resp)?;
    let seqn = resp.windows(7).position(|w| w == b"## seqn")?;
    let eol = seqn + resp[seqn..at].iter().position(|&b| b == b'\n')? + 1;
    let need = target.checked_sub(at)?;
    if need < 8 {
        return None;
    }
    let mut r = resp[..eol].to_vec();
    r.extend_from_slice(b"## pad ");
    r.extend(std::iter::repeat_n(b'x', need - 8));
    r.push(b'\n');
    r.extend_from_slice(&resp[eol..at]);
    if r.len() != target {
        return None;
    }
    let sum = hex::encode(<sha2::Sha256 as sha2::Digest>::digest(&r));
    r.extend_from_slice(format!("Checksum: {sum}\r\n").as_bytes());
    (v1_layout(&r).is_some() && cascette_protocol::mime_parser::parse_v1_mime_response(&r).is_ok()).then_some(r)
}

pub fn cases(resps: &[(String, Vec<u8>)]) -> Vec<TcpCase> {
    let mut v = Vec::new();
    let mut all: Vec<(String, Vec<u8>)> = resps.iter().filter(|(n, _)| n.ends_with("/versions") || n.starts_with("official-shape") || n.ends_with("/cdns")).cloned().collect();
    if let Some((n, r)) = resps.iter().find(|(n, _)| n.ends_with("/versions")) {
        for target in [8192usize, 16_384] {
            if let Some(p) = padded(r, target) {
                all.push((format!("{n}+padded-to-{target}-protected-bytes"), p));
            }
        }
    }
    for (name, resp) in all {
        for altered in [false, true] {
            for split in 0..5u8 {
                v.push(TcpCase { name: name.clone(), resp: resp.clone(), altered, split });
            }
        }
    }
    v
}

pub fn check(c: &TcpCase) -> Verdict {
    let Some(at) = v1_layout(&c.resp) else { return Verdict::pass().class("VACUOUS:no-covering-checksum-line") };
    let mut bytes = c.resp.clone();
    if c.altered {
        // a hex digit of a 32-digit field of the data part: the structure of the message stays
        let Some(p) = (0..at.saturating_sub(33)).find(|&i| bytes[i] == b'|' && bytes[i + 1..i + 33].iter().all(u8::is_ascii_hexdigit)) else {
            return Verdict::pass().class("VACUOUS:no-hex-field-to-alter");
        };
        bytes[p + 5] = if bytes[p + 5] == b'0' { b'1' } else { b'0' };
    }
    let closing = bytes[..at.saturating_sub(2)].iter().rposition(|&b| b == b'\n').map_or(0, |p| p + 1);
    let cut: Option<usize> = match c.split {
        1 => Some(at),
        2 => Some(at + 1),
        3 => Some(at / 2),
        4 => Some(closing),
        _ => None,
    };
    let Ok(rt) = tokio::runtime::Builder::new_current_thread().enable_all().build() else { return Verdict::pass().class("VACUOUS:no-runtime") };
    let send = bytes.clone();
    let res: Result<Result<String, String>, String> = rt.block_on(async move {
        let listener = tokio::net::TcpListener::bind("127.0.0.1:0").await.map_err(|e| e.to_string())?;
        let port = listener.local_addr().map_err(|e| e.to_string())?.port();
        let server = tokio::spawn(async move {
            if let Ok((mut s, _)) = listener.accept().await {
                let _ = s.set_nodelay(true);
                let mut buf = [0u8; 1024];
                let _ = s.read(&mut buf).await;
                match cut {
                    Some(k) if k > 0 && k < send.len() => {
                        let _ = s.write_all(&send[..k]).await;
                        let _ = s.flush().await;
                        tokio::time::sleep(Duration::from_millis(60)).await;
                        let _ = s.write_all(&send[k..]).await;
                    }
                    _ => {
                        let _ = s.write_all(&send).await;
                    }
                }
                let _ = s.shutdown().await;
            }
        });
        let client = RibbitClient::new(format!("tcp://127.0.0.1:{port}")).map_err(|e| e.to_string())?;
        let r = tokio::time::timeout(Duration::from_secs(60), client.query("v1/products/wow/versions")).await;
        server.abort();
        match r {
            Err(_) => Err("query did not return within 60 s".to_string()),
            Ok(Ok(doc)) => Ok(Ok(format!("{} rows", doc.rows().len()))),
            Ok(Err(e)) => Ok(Err(e.to_string())),
        }
    });
    let how = ["in one piece", "cut in front of the Checksum line", "cut one byte into the Checksum line", "cut in the middle", "cut in front of the closing delimiter line"][usize::from(c.split.min(4))];
    let v = Verdict::pass().nontrivial(c.altered).class(["split:none", "split:before-checksum-line", "split:inside-checksum-line", "split:middle", "split:before-closing-delimiter"][usize::from(c.split.min(4))]).class_if(at % 8192 == 0, "protected-part-is-a-multiple-of-the-read-buffer");
    match res {
        Err(e) => Verdict::pass().class("VACUOUS:no-loopback").class_if(!e.is_empty(), "infra"),
        Ok(Ok(rows)) if c.altered => v.with_fail(
            "C07:v1-over-tcp:altered-response-read-as-good",
            format!("{}: one hex digit of the protected part altered, sent {how}: RibbitClient::query returned Ok ({rows})", c.name),
        ),
        Ok(Err(e)) if !c.altered => v.with_fail("C07:v1-over-tcp:intact-response-refused", format!("{}: sent {how}: {e}", c.name)),
        Ok(_) => v,
    }
}
