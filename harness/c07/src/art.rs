//! Valid artifacts (builder outputs and repo fixtures), their protected
//! regions, and a self-check of every region against the reference hashes.
//! Everything here is deterministic, so a case only names its artifact.

use crate::edit::Regions;
use cascette_crypto::{ContentKey, EncodingKey};
use std::collections::HashMap;
use std::ops::Range;
use std::sync::{Arc, Mutex, OnceLock};
use vh_engine::refimpl::{lookup3, md5::md5};

const FIX: &str = "/repo/crates/cascette-formats/test_fixtures";

/// Why an artifact is unusable.
#[derive(Debug, Clone)]
pub enum ArtErr {
    /// the repo's own producer wrote a stored hash that the *reference* computation of the
    /// documented hash does not confirm, and the repo's loader accepts the file all the same:
    /// producer and checker agree on something weaker than documented (a finding, not trouble)
    WeakerThanDocumented(String),
    /// anything else (infrastructure trouble)
    Other(String),
}

impl std::fmt::Display for ArtErr {
    fn fmt(&self, f: &mut std::fmt::Formatter<'_>) -> std::fmt::Result {
        match self {
            ArtErr::WeakerThanDocumented(s) | ArtErr::Other(s) => f.write_str(s),
        }
    }
}

impl From<String> for ArtErr {
    fn from(s: String) -> Self {
        ArtErr::Other(s)
    }
}
impl From<&str> for ArtErr {
    fn from(s: &str) -> Self {
        ArtErr::Other(s.to_string())
    }
}

fn judge(consistent: bool, accepted: Result<(), String>, what: &str) -> Result<(), ArtErr> {
    match (consistent, accepted) {
        (true, Ok(())) => Ok(()),
        (true, Err(e)) => Err(ArtErr::Other(format!("unmutated artifact rejected: {e}"))),
        (false, Ok(())) => Err(ArtErr::WeakerThanDocumented(format!("{what}, yet the loader accepts the file"))),
        (false, Err(e)) => Err(ArtErr::Other(format!("{what}; loader: {e}"))),
    }
}

pub fn k16(i: u32) -> [u8; 16] {
    md5(&i.to_le_bytes())
}

pub fn rt() -> tokio::runtime::Runtime {
    tokio::runtime::Builder::new_current_thread().enable_all().build().expect("tokio runtime")
}

// ---------------------------------------------------------------- encoding

pub struct EncArt {
    pub bytes: Vec<u8>,
    /// CKey pages then EKey pages
    pub pages: Vec<Range<usize>>,
    /// the 16-byte stored MD5 of `pages[i]` inside the page index
    pub sums: Vec<Range<usize>>,
}

fn be16(b: &[u8]) -> usize {
    u16::from_be_bytes([b[0], b[1]]) as usize
}
fn be32(b: &[u8]) -> usize {
    u32::from_be_bytes([b[0], b[1], b[2], b[3]]) as usize
}

impl EncArt {
    /// Layout from the 22-byte header (documented in encoding/header.rs), checked
    /// against the reference MD5: every page must hash to its stored checksum.
    pub fn from_bytes(bytes: Vec<u8>) -> Result<Self, ArtErr> {
        if bytes.len() < 22 || &bytes[0..2] != b"EN" {
            return Err("not an encoding file".into());
        }
        let ck_sz = be16(&bytes[5..7]) * 1024;
        let ek_sz = be16(&bytes[7..9]) * 1024;
        let ck_n = be32(&bytes[9..13]);
        let ek_n = be32(&bytes[13..17]);
        let espec = be32(&bytes[18..22]);
        let mut pages = Vec::new();
        let mut sums = Vec::new();
        let mut off = 22 + espec;
        for (n, sz) in [(ck_n, ck_sz), (ek_n, ek_sz)] {
            let idx = off;
            let data = idx + 32 * n;
            for i in 0..n {
                sums.push(idx + 32 * i + 16..idx + 32 * i + 32);
                pages.push(data + i * sz..data + (i + 1) * sz);
            }
            off = data + n * sz;
        }
        if off > bytes.len() {
            return Err(format!("layout ends at {off}, file has {}", bytes.len()).into());
        }
        if pages.is_empty() {
            return Err("no pages".into());
        }
        let consistent = pages.iter().zip(&sums).all(|(p, s)| md5(&bytes[p.clone()]) == bytes[s.clone()]);
        let accepted = cascette_formats::encoding::EncodingFile::parse(&bytes).map(|_| ()).map_err(|e| e.to_string());
        judge(consistent, accepted, "a page does not hash (reference MD5) to the checksum stored in the page index")?;
        Ok(EncArt { bytes, pages, sums })
    }
    pub fn page_regions(&self) -> Regions {
        Regions(self.pages.clone())
    }
    pub fn sum_regions(&self) -> Regions {
        Regions(self.sums.clone())
    }
}

fn encoding_built(n: u32) -> Result<Vec<u8>, String> {
    use cascette_formats::encoding::{CKeyEntryData, EKeyEntryData, EncodingBuilder};
    let mut b = EncodingBuilder::new().with_page_sizes(1, 1);
    for i in 0..n {
        let ek = EncodingKey::from_bytes(k16(1000 + i));
        b.add_ckey_entry(CKeyEntryData { content_key: ContentKey::from_bytes(k16(i)), file_size: 100 + u64::from(i), encoding_keys: vec![ek] });
        b.add_ekey_entry(EKeyEntryData { encoding_key: ek, espec: if i % 2 == 0 { "n".into() } else { "z".into() }, file_size: 50 + u64::from(i) });
    }
    b.build().map_err(|e| e.to_string())?.build().map_err(|e| e.to_string())
}

// ----------------------------------------------------------- archive index

pub struct AidxArt {
    pub bytes: Vec<u8>,
}

impl AidxArt {
    pub fn from_bytes(bytes: Vec<u8>) -> Result<Self, ArtErr> {
        if bytes.len() < 28 {
            return Err("too short".into());
        }
        let f = &bytes[bytes.len() - 28..];
        if f[15] != 8 {
            return Err(format!("footer hash size {} (expected 8)", f[15]).into());
        }
        let accepted = cascette_formats::archive::ArchiveIndex::parse(std::io::Cursor::new(&bytes)).map(|_| ()).map_err(|e| e.to_string());
        judge(footer_consistent(f), accepted, "the stored footer hash is not MD5(version .. element_count, zero-padded to 20)[..8] (reference MD5)")?;
        Ok(AidxArt { bytes })
    }
    /// footer bytes [8..28): version … element_count, stored hash
    pub fn regions(&self) -> Regions {
        Regions(vec![self.bytes.len() - 20..self.bytes.len()])
    }
}

/// `footer` = the last 28 bytes. Documented hash: MD5 over the 12 field bytes
/// [8..20) zero-padded to 20, first 8 bytes stored at [20..28).
pub fn footer_consistent(footer: &[u8]) -> bool {
    let mut d = [0u8; 20];
    d[..12].copy_from_slice(&footer[8..20]);
    md5(&d)[..8] == footer[20..28]
}

fn archive_index_built(key: u8, off: u8, n: u32) -> Result<Vec<u8>, String> {
    use cascette_formats::archive::ArchiveIndexBuilder;
    let mut b = ArchiveIndexBuilder::with_config(key, off, 4);
    for i in 0..n {
        b.add_entry(k16(i)[..key as usize].to_vec(), 10 + i, u64::from(i) * 100);
    }
    let mut out = std::io::Cursor::new(Vec::new());
    b.build(&mut out).map_err(|e| e.to_string())?;
    Ok(out.into_inner())
}

// --------------------------------------------------------------------- lru

pub struct LruArt {
    pub bytes: Vec<u8>,
    pub cap: u32,
    pub generation: u64,
}

/// Documented check: MD5 of the file with bytes [4..20) zeroed equals bytes [4..20).
pub fn lru_consistent(b: &[u8]) -> bool {
    if b.len() < 28 || (b.len() - 28) % 20 != 0 {
        return false;
    }
    let mut z = b.to_vec();
    z[4..20].fill(0);
    md5(&z) == b[4..20]
}

fn lru_built(cap: u32, n: u32) -> Result<LruArt, ArtErr> {
    use cascette_client_storage::lru::LruManager;
    let dir = crate::scratch_dir().map_err(|e| e.to_string())?;
    let mut m = LruManager::new(cap, dir.path().to_path_buf());
    for i in 0..n {
        let mut k = [0u8; 9];
        k.copy_from_slice(&k16(i)[..9]);
        m.touch(&k);
    }
    // re-touch the oldest so the list is not in slot order
    if n > 1 {
        let mut k = [0u8; 9];
        k.copy_from_slice(&k16(0)[..9]);
        m.touch(&k);
    }
    m.bump_generation();
    rt().block_on(m.checkpoint_to_disk()).map_err(|e| e.to_string())?;
    let (generation, p) = LruManager::find_latest_lru_file(dir.path()).ok_or(ArtErr::from("no .lru file written"))?;
    let bytes = std::fs::read(p).map_err(|e| e.to_string())?;
    let accepted = cascette_client_storage::lru::lru_file::deserialize(&bytes).map(|_| ()).ok_or_else(|| "deserialize returned None".to_string());
    judge(lru_consistent(&bytes), accepted, "the stored MD5 is not the MD5 of the file with bytes [4..20) zeroed (reference MD5)")?;
    Ok(LruArt { bytes, cap, generation })
}

// ---------------------------------------------------------- update entries

/// Reference decode of a 24-byte update entry (layout from the rustdoc of UpdateEntry).
#[derive(Debug, Clone, PartialEq, Eq)]
pub struct Ent {
    pub key: [u8; 9],
    pub id: u16,
    pub off: u32,
    pub size: u32,
    pub status: u8,
}

pub fn ent_decode(b: &[u8]) -> Ent {
    let mut key = [0u8; 9];
    key.copy_from_slice(&b[4..13]);
    let packed = u32::from_be_bytes([b[14], b[15], b[16], b[17]]);
    Ent {
        key,
        id: (u16::from(b[13]) << 2) | (packed >> 30) as u16,
        off: packed & 0x3FFF_FFFF,
        size: u32::from_le_bytes([b[18], b[19], b[20], b[21]]),
        status: b[22],
    }
}

/// Guard per the format: hashlittle(bytes[4..23], 0) | 0x80000000, stored LE at [0..4).
pub fn ent_guard_ok(b: &[u8]) -> bool {
    let g = lookup3::hashlittle(&b[4..23], 0) | 0x8000_0000;
    g.to_le_bytes() == b[0..4]
}

pub const ST_DELETE: u8 = 3;

pub struct UpdArt {
    pub bytes: Vec<u8>,
    /// absolute offset of each used 24-byte slot, in append order
    pub slots: Vec<usize>,
    pub ents: Vec<Ent>,
}

impl UpdArt {
    pub fn regions(&self) -> Regions {
        Regions(self.slots.iter().map(|&s| s..s + 23).collect())
    }
}

fn slots_of(section: &[u8]) -> Vec<usize> {
    let mut v = Vec::new();
    let mut page = 0;
    'outer: while page + 512 <= section.len() {
        if section[page..page + 4] == [0, 0, 0, 0] {
            break;
        }
        for s in 0..21 {
            let o = page + s * 24;
            if section[o..o + 4] == [0, 0, 0, 0] {
                break 'outer;
            }
            v.push(o);
        }
        page += 512;
    }
    v
}

fn update_section_built(n: u32) -> Result<UpdArt, String> {
    use cascette_client_storage::index::ArchiveLocation;
    use cascette_client_storage::index::update::{UpdateEntry, UpdateSection, UpdateStatus};
    let mut s = UpdateSection::new();
    for i in 0..n {
        // every 6th entry re-uses the key of entry i-3 (newest wins), every 5th is a tombstone
        let ki = if i % 6 == 5 { i - 3 } else { i };
        let mut k = [0u8; 9];
        k.copy_from_slice(&k16(ki)[..9]);
        let st = match i % 10 {
            4 => UpdateStatus::Delete,
            7 => UpdateStatus::DataNonResident,
            9 => UpdateStatus::HeaderNonResident,
            _ => UpdateStatus::Normal,
        };
        if !s.append(UpdateEntry::new(k, ArchiveLocation { archive_id: ((i * 37) % 1024) as u16, archive_offset: 0x1000 + i * 64 }, 10 + i, st)) {
            return Err("append refused".into());
        }
    }
    let bytes = s.to_bytes();
    let slots = slots_of(&bytes);
    if slots.len() != n as usize {
        return Err(format!("{} slots found for {n} entries", slots.len()));
    }
    let mut ents = Vec::new();
    for &o in &slots {
        if !ent_guard_ok(&bytes[o..o + 24]) {
            return Err("builder entry fails the reference guard".into());
        }
        ents.push(ent_decode(&bytes[o..o + 24]));
    }
    Ok(UpdArt { bytes, slots, ents })
}

// --------------------------------------------------------------- .idx file

pub struct IdxArt {
    pub bytes: Vec<u8>,
    pub fname: String,
    pub bucket: u8,
    /// absolute offsets of the used update-section slots
    pub slots: Vec<usize>,
    /// every entry of the file (sorted section, then update section in append order)
    pub sorted: Vec<Ent>,
    pub updates: Vec<Ent>,
}

impl IdxArt {
    pub fn regions(&self) -> Regions {
        Regions(self.slots.iter().map(|&s| s..s + 23).collect())
    }
    /// what an intact file may serve: (key, archive, offset, size) of every non-tombstone entry
    pub fn genuine(&self, key: &[u8; 9], id: u16, off: u32, size: u32) -> bool {
        self.sorted.iter().chain(&self.updates).any(|e| e.status != ST_DELETE && &e.key == key && e.id == id && e.off == off && e.size == size)
    }
    /// model of an intact file: newest update entry wins, else the sorted entry
    pub fn expected(&self, key: &[u8; 9]) -> Option<&Ent> {
        if let Some(e) = self.updates.iter().rev().find(|e| &e.key == key) {
            return if e.status == ST_DELETE { None } else { Some(e) };
        }
        self.sorted.iter().find(|e| &e.key == key)
    }
    pub fn all_keys(&self) -> Vec<[u8; 9]> {
        let mut v: Vec<[u8; 9]> = self.sorted.iter().chain(&self.updates).map(|e| e.key).collect();
        v.sort();
        v.dedup();
        v
    }
}

pub fn ekey_from9(k: &[u8; 9]) -> EncodingKey {
    let mut b = [0u8; 16];
    b[..9].copy_from_slice(k);
    EncodingKey::from_bytes(b)
}

fn idx_built(n_sorted: u32, n_upd: u32) -> Result<IdxArt, String> {
    use cascette_client_storage::index::IndexManager;
    let dir = crate::scratch_dir().map_err(|e| e.to_string())?;
    let mut m = IndexManager::new(dir.path());
    let bucket = IndexManager::bucket_for_key(&EncodingKey::from_bytes(k16(0)));
    // keys of one bucket
    let mut keys = Vec::new();
    let mut i = 0u32;
    while keys.len() < (n_sorted + n_upd) as usize && i < 1_000_000 {
        let k = EncodingKey::from_bytes(k16(i));
        i += 1;
        if IndexManager::bucket_for_key(&k) == bucket {
            keys.push(k);
        }
    }
    let e = |x: cascette_client_storage::StorageError| x.to_string();
    for (j, k) in keys.iter().take(n_sorted as usize).enumerate() {
        m.add_entry(k, (j % 7) as u16, 0x100 + j as u32 * 1000, 100 + j as u32).map_err(e)?;
    }
    m.flush_all_updates().map_err(e)?;
    // update section: new keys, an override of a sorted key, tombstones for a sorted and for a new key
    for (j, k) in keys.iter().skip(n_sorted as usize).enumerate() {
        m.add_entry(k, 300 + j as u16, 0x20_0000 + j as u32 * 64, 500 + j as u32).map_err(e)?;
    }
    if n_sorted >= 3 {
        m.add_entry(&keys[0], 9, 0x77_0000, 4242).map_err(e)?;
        if !m.remove_entry(&keys[1]) {
            return Err("remove_entry of a sorted key refused".into());
        }
    }
    if n_upd >= 2 && !m.remove_entry(&keys[n_sorted as usize + 1]) {
        return Err("remove_entry of an update key refused".into());
    }
    m.save_all().map_err(e)?;
    let mut found = None;
    for ent in std::fs::read_dir(dir.path()).map_err(|e| e.to_string())?.flatten() {
        let p = ent.path();
        if p.extension().and_then(|x| x.to_str()) == Some("idx") {
            found = Some(p);
        }
    }
    let p = found.ok_or("no .idx written")?;
    let fname = p.file_name().unwrap().to_string_lossy().to_string();
    let bytes = std::fs::read(&p).map_err(|e| e.to_string())?;
    // layout: 8 + 16 + 8 + 8(block header: size LE, hash) + entry data, update section at the next 64 KiB boundary
    if bytes.len() < 0x28 {
        return Err("idx too short".into());
    }
    let data_len = u32::from_le_bytes([bytes[0x20], bytes[0x21], bytes[0x22], bytes[0x23]]) as usize;
    let sorted_end = 0x28 + data_len;
    let upd_start = (sorted_end + 0xFFFF) & !0xFFFF;
    if upd_start >= bytes.len() {
        return Err("idx has no update section".into());
    }
    let mut sorted = Vec::new();
    let mut o = 0x28;
    while o + 18 <= sorted_end {
        let b = &bytes[o..o + 18];
        let mut key = [0u8; 9];
        key.copy_from_slice(&b[..9]);
        let packed = u32::from_be_bytes([b[10], b[11], b[12], b[13]]);
        sorted.push(Ent { key, id: (u16::from(b[9]) << 2) | (packed >> 30) as u16, off: packed & 0x3FFF_FFFF, size: u32::from_le_bytes([b[14], b[15], b[16], b[17]]), status: 0 });
        o += 18;
    }
    let slots: Vec<usize> = slots_of(&bytes[upd_start..]).into_iter().map(|s| s + upd_start).collect();
    let mut updates = Vec::new();
    for &s in &slots {
        if !ent_guard_ok(&bytes[s..s + 24]) {
            return Err("saved update entry fails the reference guard".into());
        }
        updates.push(ent_decode(&bytes[s..s + 24]));
    }
    let art = IdxArt { bytes, fname, bucket, slots, sorted, updates };
    if art.sorted.len() != n_sorted as usize || art.updates.is_empty() {
        return Err(format!("idx holds {} sorted / {} update entries", art.sorted.len(), art.updates.len()));
    }
    // the intact file must be served exactly as the model says
    let d2 = crate::scratch_dir().map_err(|e| e.to_string())?;
    let p2 = d2.path().join(&art.fname);
    std::fs::write(&p2, &art.bytes).map_err(|e| e.to_string())?;
    let mut m2 = IndexManager::new(d2.path());
    m2.load_index(art.bucket, &p2).map_err(e)?;
    for k in art.all_keys() {
        let got = m2.lookup(&ekey_from9(&k)).map(|x| (x.archive_id(), x.archive_offset(), x.size));
        let want = art.expected(&k).map(|x| (x.id, x.off, x.size));
        if got != want {
            return Err(format!("intact idx: lookup({}) = {got:?}, model {want:?}", hex::encode(k)));
        }
    }
    Ok(art)
}

// ---------------------------------------------------------------- registry

pub enum Art {
    Enc(EncArt),
    Aidx(AidxArt),
    Lru(LruArt),
    Upd(UpdArt),
    Idx(IdxArt),
}

fn read_fixture(rel: &str) -> Result<Vec<u8>, String> {
    std::fs::read(format!("{FIX}/{rel}")).map_err(|e| format!("{FIX}/{rel}: {e}"))
}

fn build(name: &str) -> Result<Art, ArtErr> {
    let parts: Vec<&str> = name.split(':').collect();
    match parts.as_slice() {
        ["enc", "built", n] => Ok(Art::Enc(EncArt::from_bytes(encoding_built(n.parse().map_err(|_| "bad n")?)?)?)),
        ["enc", "fixture", f] => Ok(Art::Enc(EncArt::from_bytes(read_fixture(&format!("encoding/{f}"))?)?)),
        ["aidx", "built", k, o, n] => Ok(Art::Aidx(AidxArt::from_bytes(archive_index_built(
            k.parse().map_err(|_| "bad k")?,
            o.parse().map_err(|_| "bad o")?,
            n.parse().map_err(|_| "bad n")?,
        )?)?)),
        ["aidx", "fixture", f] => Ok(Art::Aidx(AidxArt::from_bytes(read_fixture(&format!("archive/{f}"))?)?)),
        ["lru", cap, n] => Ok(Art::Lru(lru_built(cap.parse().map_err(|_| "bad cap")?, n.parse().map_err(|_| "bad n")?)?)),
        ["upd", n] => Ok(Art::Upd(update_section_built(n.parse().map_err(|_| "bad n")?)?)),
        ["idx", a, b] => Ok(Art::Idx(idx_built(a.parse().map_err(|_| "bad n")?, b.parse().map_err(|_| "bad n")?)?)),
        _ => Err(format!("unknown artifact {name}").into()),
    }
}

type Reg = Mutex<HashMap<String, Result<Arc<Art>, ArtErr>>>;
static REG: OnceLock<Reg> = OnceLock::new();

/// Build (once per process) or fetch the named artifact.
pub fn get(name: &str) -> Result<Arc<Art>, ArtErr> {
    let reg = REG.get_or_init(|| Mutex::new(HashMap::new()));
    if let Some(r) = reg.lock().unwrap().get(name) {
        return r.clone();
    }
    let r = build(name).map(Arc::new);
    reg.lock().unwrap().insert(name.to_string(), r.clone());
    r
}

pub const ENC_BUILT: &str = "enc:built:60";
pub const ENC_FIXTURES: [&str; 2] = ["enc:fixture:wow_classic_era_truncated.bin", "enc:fixture:wow_classic_truncated.bin"];
pub const AIDX_BUILT: [&str; 4] = ["aidx:built:16:4:40", "aidx:built:16:4:200", "aidx:built:9:5:30", "aidx:built:16:6:30"];
pub const AIDX_FIXTURES: [&str; 3] = [
    "aidx:fixture:0017a402f556fbece46c38dc431a2c9b.index",
    "aidx:fixture:00b79cc0eebdd26437c7e92e57ac7f5c.index",
    "aidx:fixture:s2_00872b40344ef1a3dac4aff09588603c.index",
];
pub const LRU_ALL: [&str; 4] = ["lru:1:1", "lru:4:3", "lru:16:16", "lru:6:0"];
pub const UPD_ALL: [&str; 4] = ["upd:5", "upd:30", "upd:190", "upd:400"];
pub const IDX_ALL: [&str; 3] = ["idx:6:5", "idx:0:3", "idx:4:185"];

pub fn all_names() -> Vec<&'static str> {
    let mut v = vec![ENC_BUILT];
    v.extend(ENC_FIXTURES);
    v.extend(AIDX_BUILT);
    v.extend(AIDX_FIXTURES);
    v.extend(LRU_ALL);
    v.extend(UPD_ALL);
    v.extend(IDX_ALL);
    v
}
