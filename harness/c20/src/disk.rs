//! DiskCache with a free-string key, with typed keys built from arbitrary
//! field strings, and the injectivity clause for well-formed typed keys.

use crate::common::{J, confined, end_of_case, escape_key, infra, string_classes};
use crate::strs;
use crate::sandbox::{Sandbox, nontrivial};
use bytes::Bytes;
use cascette_cache::config::DiskCacheConfig;
use cascette_cache::disk_cache::DiskCache;
use cascette_cache::key::{
    ArchiveIndexKey, ArchiveRangeKey, BlteBlockKey, BlteKey, CacheKey, ConfigKey, ContentCacheKey, EncodingFileKey, ManifestKey, RibbitKey,
    RootFileKey,
};
use cascette_cache::traits::AsyncCache;
use cascette_crypto::{ContentKey, EncodingKey};
use proptest::prelude::*;
use serde::{Deserialize, Serialize};
use std::path::Path;
use std::sync::Arc;
use vh_engine::util::catch_panic;
use vh_engine::{Known, Verdict};

#[derive(Debug, Clone, Copy, PartialEq, Eq, Serialize, Deserialize)]
pub enum Layout {
    Flat,
    Hashed1,
    Hashed2,
}

impl Layout {
    pub fn levels(self) -> usize {
        match self {
            Layout::Flat => 0,
            Layout::Hashed1 => 1,
            Layout::Hashed2 => 2,
        }
    }
    pub fn label(self) -> &'static str {
        if self == Layout::Flat { "flat" } else { "hashed" }
    }
}

pub fn layout() -> BoxedStrategy<Layout> {
    prop_oneof![2 => Just(Layout::Flat), 1 => Just(Layout::Hashed1), 1 => Just(Layout::Hashed2)].boxed()
}

fn config(dir: &Path, l: Layout) -> DiskCacheConfig {
    DiskCacheConfig { use_subdirectories: l.levels() > 0, subdirectory_levels: l.levels().max(1), ..DiskCacheConfig::new(dir) }
}

/// harness key: any string
#[derive(Debug, Clone, PartialEq, Eq, Hash)]
pub struct StrKey(pub String);
impl CacheKey for StrKey {
    fn as_cache_key(&self) -> &str {
        &self.0
    }
}

/// mirror of DiskCache::get_file_path's sub-directory choice (only used to plant a
/// victim file; a wrong mirror can only lose detections, never raise an alarm)
fn hashed_dirs(key: &str, levels: usize) -> Vec<String> {
    let hash = key.as_bytes().iter().fold(0u64, |acc, &b| acc.wrapping_mul(31).wrapping_add(u64::from(b)));
    (0..levels).map(|l| format!("{:02x}", (hash >> (l * 8)) & 0xFF)).collect()
}

fn rt() -> tokio::runtime::Runtime {
    tokio::runtime::Builder::new_current_thread().enable_all().build().expect("runtime")
}

/// The op sequence shared by the free-string and typed sections.
/// `key_string` is what the cache will join; `mk` builds a fresh key object.
fn exercise<K: CacheKey + 'static>(
    sb: &Sandbox,
    l: Layout,
    api: &str,
    noun: &str,
    key_string: &str,
    mk: &dyn Fn() -> K,
    value_seed: u64,
    j: &mut J,
) {
    // ---- safety gate ----
    let Some(flat_target) = sb.resolve(key_string) else {
        j.class("skipped_unsafe");
        return;
    };
    // exact target (hashed layouts push the key below root/xx[/yy]; an absolute key replaces everything)
    let target = if l.levels() > 0 && !key_string.starts_with('/') {
        let mut base = sb.root_comps().to_vec();
        base.extend(hashed_dirs(key_string, l.levels()));
        match sb.resolve_from(&base, key_string) {
            Some(t) => t,
            None => {
                j.class("skipped_unsafe");
                return;
            }
        }
    } else {
        flat_target
    };
    let target_outside = !sb.is_under_root(&target);
    j.class_if(target_outside, "denotes-path-outside-root");
    j.class_if(target == sb.root_comps(), "denotes-root-itself");
    let mut ekey = escape_key(api, noun, "root", key_string);
    if target == sb.root_comps() && !key_string.split('/').any(|c| c == "..") {
        ekey = format!("C20:{api}:root-denoting-{noun}-leaves-temp-file-beside-root");
    }
    let value = Bytes::from(format!("value-{value_seed:016x}"));
    let rt = rt();
    let mut before = sb.list();
    let panic_key = |op: &str| format!("C20:{api}:panic-in-{op}");

    // ---- instance A: put / get / contains / remove ----
    {
        let cache: DiskCache<K> = match DiskCache::new(config(&sb.root, l)) {
            Ok(c) => c,
            Err(e) => {
                infra(format!("DiskCache::new failed: {e}"));
                return;
            }
        };
        let r = catch_panic(|| rt.block_on(cache.put(mk(), value.clone())));
        match r {
            Err(p) => {
                if j.report(panic_key("put"), format!("put({key_string:?}) panicked at {}:{}: {}", p.file, p.line, p.msg)) {
                    return;
                }
            }
            Ok(res) => j.class_if(res.is_ok(), "put-ok"),
        }
        if confined(sb, &mut before, j, &ekey, "DiskCache::put", key_string) {
            return;
        }
        let k = mk();
        if let Err(p) = catch_panic(|| rt.block_on(cache.get(&k))) {
            if j.report(panic_key("get"), format!("get({key_string:?}) panicked at {}:{}: {}", p.file, p.line, p.msg)) {
                return;
            }
        }
        if confined(sb, &mut before, j, &ekey, "DiskCache::get", key_string) {
            return;
        }
        if let Err(p) = catch_panic(|| rt.block_on(cache.contains(&k))) {
            if j.report(panic_key("contains"), format!("contains({key_string:?}) panicked at {}:{}: {}", p.file, p.line, p.msg)) {
                return;
            }
        }
        if confined(sb, &mut before, j, &ekey, "DiskCache::contains", key_string) {
            return;
        }
        if let Err(p) = catch_panic(|| rt.block_on(cache.remove(&k))) {
            if j.report(panic_key("remove"), format!("remove({key_string:?}) panicked at {}:{}: {}", p.file, p.line, p.msg)) {
                return;
            }
        }
        if confined(sb, &mut before, j, &ekey, "DiskCache::remove", key_string) {
            return;
        }
    }

    // ---- instance B: a file that is not the cache's own sits where the key points ----
    if target_outside {
        let tp = Sandbox::path_of(&target);
        let victim = format!("victim-{value_seed:016x}").into_bytes();
        let planted = if tp.exists() {
            tp.is_file()
        } else {
            tp.parent().map(|d| std::fs::create_dir_all(d).is_ok()).unwrap_or(false) && std::fs::write(&tp, &victim).is_ok()
        };
        if planted {
            j.class("victim-planted");
            let content = std::fs::read(&tp).unwrap_or_default();
            before = sb.list();
            let cache: DiskCache<K> = match DiskCache::new(config(&sb.root, l)) {
                Ok(c) => c,
                Err(_) => return,
            };
            let k = mk();
            match catch_panic(|| rt.block_on(cache.get(&k))) {
                Err(p) => {
                    if j.report(panic_key("get"), format!("get({key_string:?}) panicked at {}:{}: {}", p.file, p.line, p.msg)) {
                        return;
                    }
                }
                Ok(Ok(Some(b))) if b.as_ref() == content.as_slice() => {
                    j.class("read-outside-root");
                    if j.report(
                        ekey.clone(),
                        format!(
                            "DiskCache::get with {:?} on a fresh cache returned the contents of `{}`, a file outside the configured directory",
                            key_string.chars().take(200).collect::<String>(),
                            tp.display()
                        ),
                    ) {
                        return;
                    }
                }
                Ok(_) => {}
            }
            if confined(sb, &mut before, j, &ekey, "DiskCache::get (fresh instance)", key_string) {
                return;
            }
            // a second fresh instance so that `remove` takes its not-indexed branch
            let cache2: DiskCache<K> = match DiskCache::new(config(&sb.root, l)) {
                Ok(c) => c,
                Err(_) => return,
            };
            if let Err(p) = catch_panic(|| rt.block_on(cache2.remove(&k))) {
                if j.report(panic_key("remove"), format!("remove({key_string:?}) panicked at {}:{}: {}", p.file, p.line, p.msg)) {
                    return;
                }
            }
            if confined(sb, &mut before, j, &ekey, "DiskCache::remove (fresh instance)", key_string) {
                return;
            }
        }
    }
}

// ------------------------------------------------------------------ free-string keys

#[derive(Debug, Clone, Serialize, Deserialize)]
pub struct StrKeyCase {
    pub layout: Layout,
    /// may start with the `<PARENT>` token
    pub key: String,
    pub value_seed: u64,
}

pub fn strkey_strategy() -> BoxedStrategy<StrKeyCase> {
    (layout(), strs::free_string(), any::<u64>()).prop_map(|(layout, key, value_seed)| StrKeyCase { layout, key, value_seed }).boxed()
}

pub fn check_strkey(c: &StrKeyCase, known: &Arc<Known>) -> Verdict {
    let sb = match Sandbox::new() {
        Ok(s) => s,
        Err(e) => {
            infra(format!("sandbox: {e}"));
            return Verdict::pass();
        }
    };
    let key = sb.realise(&c.key);
    let mut j = J::new(known);
    string_classes(&mut j, &key);
    j.class(c.layout.label());
    let api = format!("disk-cache:{}", c.layout.label());
    let k2 = key.clone();
    exercise::<StrKey>(&sb, c.layout, &api, "key", &key, &move || StrKey(k2.clone()), c.value_seed, &mut j);
    end_of_case(&sb);
    let skipped = j.classes.contains(&"skipped_unsafe");
    j.finish(!skipped && nontrivial(&key))
}

// ------------------------------------------------------------------ typed keys

#[derive(Debug, Clone, PartialEq, Eq, Serialize, Deserialize)]
pub enum TKey {
    Ribbit { endpoint: String, region: String, product: Option<String> },
    Config { config_type: String, hash: String },
    ArchiveIndex { archive_name: String, index_hash: String },
    Manifest { manifest_type: String, ckey: [u8; 16], version: Option<String> },
    ArchiveRange { archive_id: String, start: u64, len: u32 },
    Blte { ekey: [u8; 16], block: Option<u32> },
    Content { ckey: [u8; 16] },
    RootFile { ckey: [u8; 16], parsed: bool, version: Option<u8> },
    EncodingFile { ekey: [u8; 16], page: Option<u32>, parsed: bool },
    BlteBlock { ckey: [u8; 16], block: u32, decompressed: bool },
}

/// the real key types behind one CacheKey so that one DiskCache can hold any of them
#[derive(Debug, Clone, PartialEq, Eq, Hash)]
pub enum AnyKey {
    Ribbit(RibbitKey),
    Config(ConfigKey),
    ArchiveIndex(ArchiveIndexKey),
    Manifest(ManifestKey),
    ArchiveRange(ArchiveRangeKey),
    Blte(BlteKey),
    Content(ContentCacheKey),
    RootFile(RootFileKey),
    EncodingFile(EncodingFileKey),
    BlteBlock(BlteBlockKey),
}

impl CacheKey for AnyKey {
    fn as_cache_key(&self) -> &str {
        match self {
            AnyKey::Ribbit(k) => k.as_cache_key(),
            AnyKey::Config(k) => k.as_cache_key(),
            AnyKey::ArchiveIndex(k) => k.as_cache_key(),
            AnyKey::Manifest(k) => k.as_cache_key(),
            AnyKey::ArchiveRange(k) => k.as_cache_key(),
            AnyKey::Blte(k) => k.as_cache_key(),
            AnyKey::Content(k) => k.as_cache_key(),
            AnyKey::RootFile(k) => k.as_cache_key(),
            AnyKey::EncodingFile(k) => k.as_cache_key(),
            AnyKey::BlteBlock(k) => k.as_cache_key(),
        }
    }
}

impl TKey {
    pub fn build(&self) -> AnyKey {
        match self {
            TKey::Ribbit { endpoint, region, product } => AnyKey::Ribbit(match product {
                Some(p) => RibbitKey::with_product(endpoint.clone(), region.clone(), p.clone()),
                None => RibbitKey::new(endpoint.clone(), region.clone()),
            }),
            TKey::Config { config_type, hash } => AnyKey::Config(ConfigKey::new(config_type.clone(), hash.clone())),
            TKey::ArchiveIndex { archive_name, index_hash } => AnyKey::ArchiveIndex(ArchiveIndexKey::new(archive_name.clone(), index_hash.clone())),
            TKey::Manifest { manifest_type, ckey, version } => AnyKey::Manifest(match version {
                Some(v) => ManifestKey::with_version(manifest_type.clone(), ContentKey::from_bytes(*ckey), v.clone()),
                None => ManifestKey::new(manifest_type.clone(), ContentKey::from_bytes(*ckey)),
            }),
            TKey::ArchiveRange { archive_id, start, len } => AnyKey::ArchiveRange(ArchiveRangeKey::new(archive_id.clone(), *start, *len)),
            TKey::Blte { ekey, block } => AnyKey::Blte(match block {
                Some(b) => BlteKey::with_block(EncodingKey::from_bytes(*ekey), *b),
                None => BlteKey::new(EncodingKey::from_bytes(*ekey)),
            }),
            TKey::Content { ckey } => AnyKey::Content(ContentCacheKey::new(ContentKey::from_bytes(*ckey))),
            TKey::RootFile { ckey, parsed, version } => AnyKey::RootFile(match version {
                Some(v) => RootFileKey::with_version(ContentKey::from_bytes(*ckey), *parsed, *v),
                None if *parsed => RootFileKey::new_parsed(ContentKey::from_bytes(*ckey)),
                None => RootFileKey::new_raw(ContentKey::from_bytes(*ckey)),
            }),
            TKey::EncodingFile { ekey, page, parsed } => AnyKey::EncodingFile(match page {
                Some(p) => EncodingFileKey::with_page(EncodingKey::from_bytes(*ekey), *p, *parsed),
                None if *parsed => EncodingFileKey::new_parsed(EncodingKey::from_bytes(*ekey)),
                None => EncodingFileKey::new_raw(EncodingKey::from_bytes(*ekey)),
            }),
            TKey::BlteBlock { ckey, block, decompressed } => AnyKey::BlteBlock(if *decompressed {
                BlteBlockKey::new_decompressed(ContentKey::from_bytes(*ckey), *block)
            } else {
                BlteBlockKey::new_raw(ContentKey::from_bytes(*ckey), *block)
            }),
        }
    }
    pub fn type_label(&self) -> &'static str {
        match self {
            TKey::Ribbit { .. } => "RibbitKey",
            TKey::Config { .. } => "ConfigKey",
            TKey::ArchiveIndex { .. } => "ArchiveIndexKey",
            TKey::Manifest { .. } => "ManifestKey",
            TKey::ArchiveRange { .. } => "ArchiveRangeKey",
            TKey::Blte { .. } => "BlteKey",
            TKey::Content { .. } => "ContentCacheKey",
            TKey::RootFile { .. } => "RootFileKey",
            TKey::EncodingFile { .. } => "EncodingFileKey",
            TKey::BlteBlock { .. } => "BlteBlockKey",
        }
    }
    fn string_fields(&self) -> Vec<&str> {
        match self {
            TKey::Ribbit { endpoint, region, product } => {
                let mut v = vec![region.as_str()];
                if let Some(p) = product {
                    v.push(p);
                }
                v.push(endpoint);
                v
            }
            TKey::Config { config_type, hash } => vec![config_type, hash],
            TKey::ArchiveIndex { archive_name, index_hash } => vec![archive_name, index_hash],
            TKey::Manifest { manifest_type, version, .. } => {
                let mut v = vec![manifest_type.as_str()];
                if let Some(x) = version {
                    v.push(x);
                }
                v
            }
            TKey::ArchiveRange { archive_id, .. } => vec![archive_id],
            _ => vec![],
        }
    }
}

fn hostile_tkey() -> BoxedStrategy<TKey> {
    let f = || strs::field_string(4);
    let fixed = prop_oneof![
        (any::<[u8; 16]>(), proptest::option::of(any::<u32>())).prop_map(|(ekey, block)| TKey::Blte { ekey, block }),
        any::<[u8; 16]>().prop_map(|ckey| TKey::Content { ckey }),
        (any::<[u8; 16]>(), any::<bool>(), proptest::option::of(any::<u8>())).prop_map(|(ckey, parsed, version)| TKey::RootFile { ckey, parsed, version }),
        (any::<[u8; 16]>(), proptest::option::of(any::<u32>()), any::<bool>()).prop_map(|(ekey, page, parsed)| TKey::EncodingFile { ekey, page, parsed }),
        (any::<[u8; 16]>(), any::<u32>(), any::<bool>()).prop_map(|(ckey, block, decompressed)| TKey::BlteBlock { ckey, block, decompressed }),
    ];
    prop_oneof![
        4 => (f(), f(), proptest::option::of(f())).prop_map(|(endpoint, region, product)| TKey::Ribbit { endpoint, region, product }),
        3 => (f(), f()).prop_map(|(config_type, hash)| TKey::Config { config_type, hash }),
        3 => (f(), f()).prop_map(|(archive_name, index_hash)| TKey::ArchiveIndex { archive_name, index_hash }),
        3 => (f(), any::<[u8; 16]>(), proptest::option::of(f())).prop_map(|(manifest_type, ckey, version)| TKey::Manifest { manifest_type, ckey, version }),
        3 => (f(), prop_oneof![Just(0u64), any::<u64>()], prop_oneof![Just(0u32), any::<u32>()]).prop_map(|(archive_id, start, len)| TKey::ArchiveRange { archive_id, start, len }),
        1 => fixed,
    ]
    .prop_map(cap_fields)
    .boxed()
}

/// at most 8 `..` components over all string fields of one key (safety by construction)
fn cap_fields(mut k: TKey) -> TKey {
    let mut left = 8usize;
    let mut cap = |s: &mut String| {
        let c = strs::cap_dotdots(s, left);
        left -= crate::sandbox::dotdots(&c).min(left);
        *s = c;
    };
    match &mut k {
        TKey::Ribbit { endpoint, region, product } => {
            cap(region);
            if let Some(p) = product {
                cap(p);
            }
            cap(endpoint);
        }
        TKey::Config { config_type, hash } => {
            cap(config_type);
            cap(hash);
        }
        TKey::ArchiveIndex { archive_name, index_hash } => {
            cap(archive_name);
            cap(index_hash);
        }
        TKey::Manifest { manifest_type, version, .. } => {
            cap(manifest_type);
            if let Some(v) = version {
                cap(v);
            }
        }
        TKey::ArchiveRange { archive_id, .. } => cap(archive_id),
        _ => {}
    }
    k
}

#[derive(Debug, Clone, Serialize, Deserialize)]
pub struct TypedCase {
    pub layout: Layout,
    pub key: TKey,
    pub value_seed: u64,
}

pub fn typed_strategy() -> BoxedStrategy<TypedCase> {
    (layout(), hostile_tkey(), any::<u64>()).prop_map(|(layout, key, value_seed)| TypedCase { layout, key, value_seed }).boxed()
}

pub fn check_typed(c: &TypedCase, known: &Arc<Known>) -> Verdict {
    let sb = match Sandbox::new() {
        Ok(s) => s,
        Err(e) => {
            infra(format!("sandbox: {e}"));
            return Verdict::pass();
        }
    };
    let mut j = J::new(known);
    // building the key and its string must not panic either
    let built = catch_panic(|| {
        let k = c.key.build();
        k.as_cache_key().to_string()
    });
    let key_string = match built {
        Ok(s) => s,
        Err(p) => {
            j.report(format!("C20:typed-key:{}:panic-building-cache-key", c.key.type_label()), format!("{:?}: panic at {}:{}: {}", c.key, p.file, p.line, p.msg));
            return j.finish(true);
        }
    };
    string_classes(&mut j, &key_string);
    j.class(c.layout.label());
    j.class(c.key.type_label());
    let api = format!("disk-cache:typed:{}", c.layout.label());
    let tk = c.key.clone();
    exercise::<AnyKey>(&sb, c.layout, &api, "field", &key_string, &move || tk.build(), c.value_seed, &mut j);
    end_of_case(&sb);
    let skipped = j.classes.contains(&"skipped_unsafe");
    let nt = c.key.string_fields().iter().any(|f| nontrivial(f));
    j.finish(!skipped && nt)
}

// ------------------------------------------------------------------ injectivity of well-formed typed keys

#[derive(Debug, Clone, Serialize, Deserialize)]
pub struct PairCase {
    pub layout: Layout,
    pub a: TKey,
    pub b: TKey,
    pub seed: u64,
}

fn wf_tkey() -> BoxedStrategy<TKey> {
    use crate::strs::{wf_archive_name, wf_hex, wf_name};
    prop_oneof![
        3 => (wf_name(), wf_name(), proptest::option::of(wf_name())).prop_map(|(endpoint, region, product)| TKey::Ribbit { endpoint, region, product }),
        2 => (wf_name(), wf_hex()).prop_map(|(config_type, hash)| TKey::Config { config_type, hash }),
        2 => (wf_archive_name(), wf_hex()).prop_map(|(archive_name, index_hash)| TKey::ArchiveIndex { archive_name, index_hash }),
        2 => (wf_name(), any::<[u8; 16]>(), proptest::option::of(wf_name())).prop_map(|(manifest_type, ckey, version)| TKey::Manifest { manifest_type, ckey, version }),
        2 => (wf_archive_name(), prop_oneof![0u64..100, any::<u64>()], prop_oneof![0u32..100, any::<u32>()]).prop_map(|(archive_id, start, len)| TKey::ArchiveRange { archive_id, start, len }),
        1 => (any::<[u8; 16]>(), proptest::option::of(0u32..20)).prop_map(|(ekey, block)| TKey::Blte { ekey, block }),
        1 => any::<[u8; 16]>().prop_map(|ckey| TKey::Content { ckey }),
        1 => (any::<[u8; 16]>(), any::<bool>(), proptest::option::of(0u8..20)).prop_map(|(ckey, parsed, version)| TKey::RootFile { ckey, parsed, version }),
        1 => (any::<[u8; 16]>(), proptest::option::of(0u32..20), any::<bool>()).prop_map(|(ekey, page, parsed)| TKey::EncodingFile { ekey, page, parsed }),
        1 => (any::<[u8; 16]>(), 0u32..20, any::<bool>()).prop_map(|(ckey, block, decompressed)| TKey::BlteBlock { ckey, block, decompressed }),
    ]
    .boxed()
}

/// split `whole` at byte index i (ASCII by construction)
fn split_at(whole: &str, i: usize) -> (String, String) {
    let i = i.clamp(1, whole.len() - 1);
    (whole[..i].to_string(), whole[i..].to_string())
}

/// pairs that collide exactly when a separator between two adjacent fields is lost
fn boundary_shift_pair() -> BoxedStrategy<(TKey, TKey)> {
    // letters a-f and digits are both name characters and hex digits
    let hexish = proptest::collection::vec(proptest::sample::select(b"abcdef0123456789".to_vec()), 3..14).prop_map(|v| String::from_utf8(v).unwrap());
    let digits = proptest::collection::vec(proptest::sample::select(b"123456789".to_vec()), 2..8).prop_map(|v| String::from_utf8(v).unwrap());
    prop_oneof![
        (hexish.clone(), any::<u16>(), any::<u16>(), 0u8..4).prop_map(|(w, i, k, which)| {
            let n = w.len();
            let i1 = 1 + vh_engine::pick_idx(i, n - 1);
            let mut i2 = 1 + vh_engine::pick_idx(k, n - 1);
            if i2 == i1 {
                i2 = if i1 + 1 < n { i1 + 1 } else { i1 - 1 };
            }
            let (a1, a2) = split_at(&w, i1);
            let (b1, b2) = split_at(&w, i2);
            match which {
                0 => (TKey::Config { config_type: a1, hash: a2 }, TKey::Config { config_type: b1, hash: b2 }),
                1 => (TKey::ArchiveIndex { archive_name: a1, index_hash: a2 }, TKey::ArchiveIndex { archive_name: b1, index_hash: b2 }),
                2 => (
                    TKey::Ribbit { region: a1, endpoint: a2, product: None },
                    TKey::Ribbit { region: b1, endpoint: b2, product: None },
                ),
                _ => (
                    TKey::Ribbit { region: "us".into(), product: Some(a1), endpoint: a2 },
                    TKey::Ribbit { region: "us".into(), product: Some(b1), endpoint: b2 },
                ),
            }
        }),
        // ribbit: product present vs folded into a neighbour
        (strs::wf_name(), strs::wf_name(), strs::wf_name()).prop_map(|(r, p, e)| {
            (TKey::Ribbit { region: r.clone(), product: Some(p.clone()), endpoint: e.clone() }, TKey::Ribbit { region: format!("{r}{p}"), product: None, endpoint: e })
        }),
        // archive range: digits moving between id and start offset, and between start and length
        (digits.clone(), any::<u16>(), any::<u16>(), 1u32..1000).prop_map(|(d, i, k, len)| {
            let n = d.len();
            let i1 = 1 + vh_engine::pick_idx(i, n - 1);
            let mut i2 = 1 + vh_engine::pick_idx(k, n - 1);
            if i2 == i1 {
                i2 = if i1 + 1 < n { i1 + 1 } else { i1 - 1 };
            }
            let (a1, a2) = split_at(&d, i1);
            let (b1, b2) = split_at(&d, i2);
            (
                TKey::ArchiveRange { archive_id: format!("data{a1}"), start: a2.parse().unwrap(), len },
                TKey::ArchiveRange { archive_id: format!("data{b1}"), start: b2.parse().unwrap(), len },
            )
        }),
        (digits, any::<u16>(), any::<u16>()).prop_map(|(d, i, k)| {
            let n = d.len();
            let i1 = 1 + vh_engine::pick_idx(i, n - 1);
            let mut i2 = 1 + vh_engine::pick_idx(k, n - 1);
            if i2 == i1 {
                i2 = if i1 + 1 < n { i1 + 1 } else { i1 - 1 };
            }
            let (a1, a2) = split_at(&d, i1);
            let (b1, b2) = split_at(&d, i2);
            (
                TKey::ArchiveRange { archive_id: "data.001".into(), start: a1.parse().unwrap(), len: a2.parse().unwrap() },
                TKey::ArchiveRange { archive_id: "data.001".into(), start: b1.parse().unwrap(), len: b2.parse().unwrap() },
            )
        }),
        // numeric suffix fields: block / page / version digits moving
        (any::<[u8; 16]>(), 1u32..10, 0u32..10).prop_map(|(k, a, b)| {
            (TKey::Blte { ekey: k, block: Some(a * 10 + b) }, TKey::Blte { ekey: k, block: Some(a) })
        }),
        (any::<[u8; 16]>(), any::<bool>(), 0u32..20).prop_map(|(k, parsed, p)| {
            (TKey::EncodingFile { ekey: k, page: Some(p), parsed }, TKey::EncodingFile { ekey: k, page: None, parsed })
        }),
        (any::<[u8; 16]>(), 0u32..20).prop_map(|(k, b)| { (TKey::Blte { ekey: k, block: Some(b) }, TKey::BlteBlock { ckey: k, block: b, decompressed: false }) }),
        // numbers with many digits that share their low or their high digits: a formatter with a
        // digit buffer one too short, a field printed in a narrower type
        (any::<[u8; 16]>(), 0u32..1_000_000_000, 1u32..=4, 0u32..=3, 0u8..5).prop_map(|(k, low, hi_a, hi_b, which)| {
            let a = hi_a.saturating_mul(1_000_000_000).saturating_add(low % 294_967_296);
            let b = if hi_b == hi_a { low % 294_967_296 } else { hi_b.saturating_mul(1_000_000_000).saturating_add(low % 294_967_296) };
            match which {
                0 => (TKey::Blte { ekey: k, block: Some(a) }, TKey::Blte { ekey: k, block: Some(b) }),
                1 => (TKey::BlteBlock { ckey: k, block: a, decompressed: false }, TKey::BlteBlock { ckey: k, block: b, decompressed: false }),
                2 => (TKey::EncodingFile { ekey: k, page: Some(a), parsed: true }, TKey::EncodingFile { ekey: k, page: Some(b), parsed: true }),
                3 => (
                    TKey::ArchiveRange { archive_id: "data.001".into(), start: u64::from(a) << 32 | 7, len: 9 },
                    TKey::ArchiveRange { archive_id: "data.001".into(), start: u64::from(b) << 32 | 7, len: 9 },
                ),
                _ => (TKey::ArchiveRange { archive_id: "data.001".into(), start: 5, len: a }, TKey::ArchiveRange { archive_id: "data.001".into(), start: 5, len: b }),
            }
        }),
    ]
    .boxed()
}

/// change exactly one field of a well-formed key
fn one_field_changed() -> BoxedStrategy<(TKey, TKey)> {
    (wf_tkey(), wf_tkey(), any::<u8>())
        .prop_map(|(a, donor, sel)| {
            let mut b = a.clone();
            match (&mut b, &donor) {
                (TKey::Ribbit { endpoint, region, product }, TKey::Ribbit { endpoint: e2, region: r2, product: p2 }) => match sel % 3 {
                    0 => *endpoint = e2.clone(),
                    1 => *region = r2.clone(),
                    _ => *product = p2.clone(),
                },
                (TKey::Config { config_type, hash }, TKey::Config { config_type: c2, hash: h2 }) => {
                    if sel % 2 == 0 {
                        *config_type = c2.clone()
                    } else {
                        *hash = h2.clone()
                    }
                }
                (TKey::ArchiveIndex { archive_name, index_hash }, TKey::ArchiveIndex { archive_name: n2, index_hash: h2 }) => {
                    if sel % 2 == 0 {
                        *archive_name = n2.clone()
                    } else {
                        *index_hash = h2.clone()
                    }
                }
                (TKey::Manifest { manifest_type, ckey, version }, TKey::Manifest { manifest_type: m2, ckey: c2, version: v2 }) => match sel % 3 {
                    0 => *manifest_type = m2.clone(),
                    1 => *ckey = *c2,
                    _ => *version = v2.clone(),
                },
                (TKey::ArchiveRange { archive_id, start, len }, TKey::ArchiveRange { archive_id: a2, start: s2, len: l2 }) => match sel % 3 {
                    0 => *archive_id = a2.clone(),
                    1 => *start = *s2,
                    _ => *len = *l2,
                },
                // different type (or a fixed-width type): use the donor as the second key
                _ => b = donor.clone(),
            }
            (a, b)
        })
        .boxed()
}

pub fn pair_strategy() -> BoxedStrategy<PairCase> {
    (layout(), prop_oneof![3 => boundary_shift_pair(), 3 => one_field_changed(), 1 => (wf_tkey(), wf_tkey())], any::<u64>())
        .prop_map(|(layout, (a, b), seed)| PairCase { layout, a, b, seed })
        .boxed()
}

pub fn check_pair(c: &PairCase, known: &Arc<Known>) -> Verdict {
    if c.a == c.b {
        return Verdict::pass().class("identical-pair");
    }
    let sb = match Sandbox::new() {
        Ok(s) => s,
        Err(e) => {
            infra(format!("sandbox: {e}"));
            return Verdict::pass();
        }
    };
    let mut j = J::new(known);
    let ka = c.a.build();
    let kb = c.b.build();
    let (sa, sb_) = (ka.as_cache_key().to_string(), kb.as_cache_key().to_string());
    j.class(c.layout.label());
    j.class_if(c.a.type_label() != c.b.type_label(), "cross-type");
    let joined = |s: &str| s.replace(':', "");
    j.class_if(joined(&sa) == joined(&sb_), "collide-if-a-colon-is-lost");
    // safety gate (well-formed fields cannot contain separators, but check anyway)
    if sb.resolve(&sa).map(|t| sb.is_under_root(&t)) != Some(true) || sb.resolve(&sb_).map(|t| sb.is_under_root(&t)) != Some(true) {
        j.class("skipped_unsafe");
        return j.finish(false);
    }
    if sa == sb_ {
        j.report(
            "C20:typed-key:injectivity:different-keys-same-cache-key-string".into(),
            format!("{:?} and {:?} both format as {sa:?}", c.a, c.b),
        );
        return j.finish(true);
    }
    let rt = rt();
    let va = Bytes::from(format!("A-{:016x}", c.seed));
    let vb = Bytes::from(format!("B-{:016x}", c.seed));
    let mut before = sb.list();
    let label = c.layout.label();
    let share_key = format!("C20:typed-key:injectivity:{label}:two-keys-share-a-file");
    let detail = format!("{:?} [{sa}] / {:?} [{sb_}]", c.a, c.b);
    {
        let cache: DiskCache<AnyKey> = match DiskCache::new(config(&sb.root, c.layout)) {
            Ok(x) => x,
            Err(e) => {
                infra(format!("DiskCache::new failed: {e}"));
                return Verdict::pass();
            }
        };
        let ra = rt.block_on(cache.put(ka.clone(), va.clone()));
        let rb = rt.block_on(cache.put(kb.clone(), vb.clone()));
        if let (Err(e), _) | (_, Err(e)) = (&ra, &rb) {
            // the statement does not promise that a put succeeds; nothing to compare then
            j.class("put-failed");
            let _ = e;
            end_of_case(&sb);
            return j.finish(false);
        }
        if confined(&sb, &mut before, &mut j, &format!("C20:disk-cache:typed:{label}:well-formed-key-escapes-root"), "DiskCache::put", &detail) {
            return j.finish(true);
        }
        let ga = rt.block_on(cache.get(&ka)).ok().flatten();
        let gb = rt.block_on(cache.get(&kb)).ok().flatten();
        if ga.as_ref() != Some(&va) || gb.as_ref() != Some(&vb) {
            j.report(share_key.clone(), format!("after put(a,A), put(b,B): get(a)={:?} get(b)={:?}; {detail}", ga, gb));
            return j.finish(true);
        }
    }
    let files = sb.files_in_root(&before);
    if files < 2 {
        j.report(share_key.clone(), format!("two different keys are stored in {files} file(s); {detail}"));
        return j.finish(true);
    }
    // fresh instance: only the files speak
    {
        let cache: DiskCache<AnyKey> = match DiskCache::new(config(&sb.root, c.layout)) {
            Ok(x) => x,
            Err(_) => return j.finish(true),
        };
        let ga = rt.block_on(cache.get(&ka)).ok().flatten();
        let gb = rt.block_on(cache.get(&kb)).ok().flatten();
        if ga.as_ref() != Some(&va) || gb.as_ref() != Some(&vb) {
            j.report(share_key, format!("fresh instance over the same directory: get(a)={:?} get(b)={:?}; {detail}", ga, gb));
            return j.finish(true);
        }
    }
    end_of_case(&sb);
    j.finish(true)
}


/// Pairs of well-formed Ribbit keys (region `us`, endpoint `v1/products/<name>/versions`, names of
/// `[a-z0-9]`) whose cache key strings have the same 64-bit lookup3 hash — constructed from the
/// hash's 12-byte block structure by a reviewer of this check. lookup3 is not collision resistant;
/// a key type that decides equality, or a cache that names its files, by such a hash treats the two
/// keys of a pair as one. Distinct keys are distinct entries all the same.
pub const LOOKUP3_COLLIDING_ENDPOINTS: [(&str, &str); 3] = [
    ("v1/products/wovzfbd6of12h1h200ac0akaaq/versions", "v1/products/wod2v2yjl81fjnaabu3apya180/versions"),
    ("v1/products/wovzfbd6of12h1000uaaam0sia/versions", "v1/products/wobhb6eah13do0agiat770p0ar/versions"),
    ("v1/products/wozpe0wufvjfttb0rf900paaaa/versions", "v1/products/worfrmyyo4p5s50v00abg0pf8k/versions"),
];

pub fn colliding_pairs() -> Vec<PairCase> {
    let mut v = Vec::new();
    for (i, (a, b)) in LOOKUP3_COLLIDING_ENDPOINTS.iter().enumerate() {
        for layout in [Layout::Flat, Layout::Hashed1, Layout::Hashed2] {
            v.push(PairCase {
                layout,
                a: TKey::Ribbit { endpoint: (*a).to_string(), region: "us".into(), product: None },
                b: TKey::Ribbit { endpoint: (*b).to_string(), region: "us".into(), product: None },
                seed: 0x20C + i as u64,
            });
        }
    }
    v
}
