//! Shared pieces: verdict collector that keeps judging behind listed findings,
//! escape-key naming, per-step confinement check.

use crate::sandbox::{Listing, Sandbox, Shape, shape};
use std::sync::Arc;
use std::sync::Mutex;
use std::sync::atomic::{AtomicU64, Ordering};
use vh_engine::{Known, Verdict};

pub static TIMEOUTS: AtomicU64 = AtomicU64::new(0);
pub static INFRA: Mutex<Vec<String>> = Mutex::new(Vec::new());

pub fn infra(msg: String) {
    let mut g = INFRA.lock().unwrap();
    if g.len() < 20 {
        g.push(msg);
    }
}

pub fn note_timeout() {
    TIMEOUTS.fetch_add(1, Ordering::Relaxed);
}

/// Collects failures of one case. A failure whose key is a listed open finding
/// is recorded as a known hit and judging continues; the first unlisted failure
/// ends the case.
pub struct J {
    known: Arc<Known>,
    hits: Vec<String>,
    fail: Option<(String, String)>,
    pub classes: Vec<&'static str>,
}

impl J {
    pub fn new(known: &Arc<Known>) -> Self {
        J { known: known.clone(), hits: Vec::new(), fail: None, classes: Vec::new() }
    }
    /// true = stop the case
    pub fn report(&mut self, key: String, msg: String) -> bool {
        if self.known.is_open(&key) {
            if !self.hits.contains(&key) {
                self.hits.push(key);
            }
            false
        } else {
            if self.fail.is_none() {
                self.fail = Some((key, msg));
            }
            true
        }
    }
    pub fn class(&mut self, c: &'static str) {
        if !self.classes.contains(&c) {
            self.classes.push(c);
        }
    }
    pub fn class_if(&mut self, b: bool, c: &'static str) {
        if b {
            self.class(c);
        }
    }
    pub fn finish(self, nontrivial: bool) -> Verdict {
        let mut v = match self.fail {
            Some((k, m)) => Verdict::fail(k, m),
            None => Verdict::pass(),
        };
        v.nontrivial = nontrivial;
        v.classes = self.classes;
        v.known_hits = self.hits;
        v
    }
}

/// `C20:<api>:dotdot-<noun>-escapes-<dir>` etc.
pub fn escape_key(api: &str, noun: &str, dir: &str, s: &str) -> String {
    match shape(s) {
        Shape::Absolute => format!("C20:{api}:absolute-{noun}-replaces-{dir}"),
        Shape::DotDot => format!("C20:{api}:dotdot-{noun}-escapes-{dir}"),
        Shape::Plain => format!("C20:{api}:plain-{noun}-escapes-{dir}"),
    }
}

/// Compare the listing with the one before the call; report the first change
/// outside root under `key`. Returns true if the case must stop.
pub fn confined(sb: &Sandbox, before: &mut Listing, j: &mut J, key: &str, call: &str, input: &str) -> bool {
    let after = sb.list();
    let ch = sb.outside_changes(before, &after);
    *before = after;
    if let Some(c) = ch.first() {
        j.class("escaped");
        let shown: String = input.chars().take(200).collect();
        j.report(
            key.to_string(),
            format!("{call} with {shown:?}: {} `{}` outside the configured directory ({} change(s) outside)", c.what, c.path, ch.len()),
        )
    } else {
        false
    }
}

/// classes describing the string
pub fn string_classes(j: &mut J, s: &str) {
    j.class_if(s.contains('/'), "has-separator");
    j.class_if(s.split('/').any(|c| c == ".."), "has-dotdot");
    j.class_if(s.starts_with('/'), "leading-slash");
    j.class_if(s.ends_with('/'), "trailing-slash");
    j.class_if(s.rsplit('/').next().unwrap_or("").contains('.'), "dot-in-last-component");
    j.class_if(s.len() > 255, "len>255");
    j.class_if(s.split('/').any(|c| c.len() > 255), "component>255");
    j.class_if(!s.is_ascii(), "non-ascii");
    j.class_if(s.is_empty(), "empty");
}

pub fn end_of_case(sb: &Sandbox) {
    if let Some(b) = sb.breach() {
        infra(format!("HARNESS SAFETY: {b}"));
    }
}
