//! Per-case sandbox: `td/g1/g2/p` (= `parent`) with canary files and
//! `parent/l1/…/l8/root`; recursive listing; conservative lexical resolver.
//!
//! The sandbox runs as root, so a real traversal would hit the real file
//! system. Every string is resolved lexically *before* the call and the call is
//! skipped unless the path it can denote stays strictly inside `parent`. Two
//! guard directories (`g1/g2`) above `parent` give slack inside the tempdir
//! should the resolver ever be off; `breach()` reports if they were touched.

use std::collections::BTreeMap;
use std::fs;
use std::path::{Path, PathBuf};
use vh_engine::util::fnv64;

pub const DEPTH: usize = 8;
/// token that stands for the sandbox parent directory inside generated strings
pub const PARENT_TOKEN: &str = "<PARENT>";

#[derive(Clone, PartialEq, Eq, Debug)]
pub enum Ent {
    /// modification time for directories outside root (0 inside): an entry that was created and
    /// deleted again between two listings still moves the time of the directory it was in
    Dir(u128),
    File { size: u64, hash: u64, mtime_ns: u128 },
    Other,
}

pub type Listing = BTreeMap<String, Ent>;

pub struct Sandbox {
    td: tempfile::TempDir,
    pub parent: PathBuf,
    pub root: PathBuf,
    root_rel: String,
    parent_comps: Vec<String>,
    root_comps: Vec<String>,
}

#[derive(Debug, Clone)]
pub struct Change {
    pub path: String,
    pub what: &'static str,
}

fn comps_of(p: &Path) -> Vec<String> {
    p.to_str().unwrap_or("").split('/').filter(|c| !c.is_empty()).map(str::to_string).collect()
}

impl Sandbox {
    pub fn new() -> std::io::Result<Self> {
        let base = if Path::new("/dev/shm").is_dir() { "/dev/shm" } else { "/tmp" };
        let td = tempfile::Builder::new().prefix("vh-c20-").tempdir_in(base)?;
        let top = td.path().canonicalize()?;
        let parent = top.join("g1").join("g2").join("p");
        let mut root = parent.clone();
        let mut root_rel = String::new();
        for i in 1..=DEPTH {
            root.push(format!("l{i}"));
            root_rel.push_str(&format!("l{i}/"));
        }
        root.push("root");
        root_rel.push_str("root");
        fs::create_dir_all(&root)?;
        fs::create_dir_all(parent.join("outside"))?;
        // canaries: beside root, half-way up, at the top, in the "outside" tree
        fs::write(parent.join("canary.txt"), b"canary-top")?;
        fs::write(parent.join("outside").join("canary.txt"), b"canary-outside")?;
        fs::write(parent.join("l1").join("canary.txt"), b"canary-l1")?;
        fs::write(root.parent().unwrap().join("canary.txt"), b"canary-beside-root")?;
        let parent_comps = comps_of(&parent);
        let root_comps = comps_of(&root);
        assert!(parent_comps.len() >= 5, "sandbox parent too shallow: {}", parent.display());
        Ok(Sandbox { td, parent, root, root_rel, parent_comps, root_comps })
    }

    /// replace the parent token by the real sandbox path
    pub fn realise(&self, s: &str) -> String {
        if let Some(rest) = s.strip_prefix(PARENT_TOKEN) {
            format!("{}{}", self.parent.display(), rest)
        } else {
            s.to_string()
        }
    }

    /// Lexical resolution of `s` joined to `root` the way `Path::join` does (an
    /// absolute `s` replaces the base). `Some(components)` only if every prefix of
    /// the walk stays under `parent` (an absolute string may descend *towards*
    /// parent first) and the result is strictly inside `parent`.
    pub fn resolve(&self, s: &str) -> Option<Vec<String>> {
        self.resolve_from(&self.root_comps, s)
    }

    pub fn resolve_from(&self, base: &[String], s: &str) -> Option<Vec<String>> {
        if s.contains('\0') {
            return None;
        }
        let pc = &self.parent_comps;
        let mut stack: Vec<String> = if s.starts_with('/') { Vec::new() } else { base.to_vec() };
        let inside = |st: &Vec<String>| st.len() >= pc.len() && st[..pc.len()] == pc[..];
        let mut entered = inside(&stack);
        for piece in s.split('/') {
            match piece {
                "" | "." => {}
                ".." => {
                    if !entered {
                        return None;
                    }
                    stack.pop();
                }
                other => stack.push(other.to_string()),
            }
            if entered {
                if !inside(&stack) {
                    return None;
                }
            } else if inside(&stack) {
                entered = true;
            } else if stack.len() > pc.len() || stack[..] != pc[..stack.len()] {
                return None;
            }
        }
        if entered && stack.len() > pc.len() { Some(stack) } else { None }
    }

    pub fn is_under_root(&self, comps: &[String]) -> bool {
        comps.len() >= self.root_comps.len() && comps[..self.root_comps.len()] == self.root_comps[..]
    }

    pub fn path_of(comps: &[String]) -> PathBuf {
        let mut p = PathBuf::from("/");
        for c in comps {
            p.push(c);
        }
        p
    }

    pub fn root_comps(&self) -> &[String] {
        &self.root_comps
    }

    /// recursive listing of `parent` (relative names). Files inside `root` are
    /// recorded by size only.
    pub fn list(&self) -> Listing {
        let mut out = Listing::new();
        let mut stack = vec![(self.parent.clone(), String::new())];
        while let Some((dir, rel)) = stack.pop() {
            let rd = match fs::read_dir(&dir) {
                Ok(r) => r,
                Err(_) => continue,
            };
            for e in rd.flatten() {
                let name = e.file_name().to_string_lossy().into_owned();
                let r = if rel.is_empty() { name.clone() } else { format!("{rel}/{name}") };
                let p = e.path();
                let Ok(md) = fs::symlink_metadata(&p) else { continue };
                if md.is_dir() {
                    let m = if self.rel_in_root(&r) {
                        0
                    } else {
                        md.modified().ok().and_then(|t| t.duration_since(std::time::UNIX_EPOCH).ok()).map(|d| d.as_nanos()).unwrap_or(0)
                    };
                    out.insert(r.clone(), Ent::Dir(m));
                    stack.push((p, r));
                } else if md.is_file() {
                    let in_root = self.rel_in_root(&r);
                    let (hash, mtime_ns) = if in_root {
                        (0, 0)
                    } else {
                        let h = fs::read(&p).map(|b| fnv64(&b)).unwrap_or(0);
                        let m = md
                            .modified()
                            .ok()
                            .and_then(|t| t.duration_since(std::time::UNIX_EPOCH).ok())
                            .map(|d| d.as_nanos())
                            .unwrap_or(0);
                        (h, m)
                    };
                    out.insert(r, Ent::File { size: md.len(), hash, mtime_ns });
                } else {
                    out.insert(r, Ent::Other);
                }
            }
        }
        out
    }

    fn rel_in_root(&self, rel: &str) -> bool {
        rel == self.root_rel || (rel.starts_with(&self.root_rel) && rel.as_bytes().get(self.root_rel.len()) == Some(&b'/'))
    }

    /// entries outside `root` that were created, changed or removed.
    /// The directories on the way to root (`l1`..`l8`) exist in both listings.
    pub fn outside_changes(&self, before: &Listing, after: &Listing) -> Vec<Change> {
        let mut v = Vec::new();
        for (k, a) in after {
            if self.rel_in_root(k) {
                continue;
            }
            match before.get(k) {
                None => v.push(Change { path: k.clone(), what: "created" }),
                Some(Ent::Dir(_)) if matches!(a, Ent::Dir(_)) && before.get(k) != Some(a) => {
                    v.push(Change { path: k.clone(), what: "directory modified (an entry was created or deleted in it)" })
                }
                Some(b) if b != a => v.push(Change { path: k.clone(), what: "changed" }),
                _ => {}
            }
        }
        for k in before.keys() {
            if self.rel_in_root(k) {
                continue;
            }
            if !after.contains_key(k) {
                v.push(Change { path: k.clone(), what: "removed" });
            }
        }
        v
    }

    /// number of regular files below root whose name does not end in `.tmp`
    pub fn files_in_root(&self, l: &Listing) -> usize {
        l.iter().filter(|(k, e)| self.rel_in_root(k) && matches!(e, Ent::File { .. }) && !k.ends_with(".tmp")).count()
    }

    /// number of regular files below root, whatever their names
    pub fn all_files_in_root(&self, l: &Listing) -> usize {
        l.iter().filter(|(k, e)| self.rel_in_root(k) && matches!(e, Ent::File { .. })).count()
    }

    /// true if something appeared beside `parent` inside the guard directories —
    /// a harness safety failure (the resolver let something through).
    pub fn breach(&self) -> Option<String> {
        let top = self.td.path();
        for (dir, only) in [(top.to_path_buf(), "g1"), (top.join("g1"), "g2"), (top.join("g1").join("g2"), "p")] {
            match fs::read_dir(&dir) {
                Ok(rd) => {
                    for e in rd.flatten() {
                        if e.file_name().to_string_lossy() != only {
                            return Some(format!("{} appeared in guard dir {}", e.file_name().to_string_lossy(), dir.display()));
                        }
                    }
                }
                Err(e) => return Some(format!("guard dir {} unreadable: {e}", dir.display())),
            }
        }
        None
    }
}

/// shape of a string as a path, used to name the escape mechanism
#[derive(Clone, Copy, PartialEq, Eq, Debug)]
pub enum Shape {
    Absolute,
    DotDot,
    Plain,
}

pub fn shape(s: &str) -> Shape {
    if s.starts_with('/') {
        Shape::Absolute
    } else if s.split('/').any(|c| c == "..") {
        Shape::DotDot
    } else {
        Shape::Plain
    }
}

pub fn dotdots(s: &str) -> usize {
    s.split('/').filter(|c| *c == "..").count()
}

/// DESIGN.md §3 C20: separator, `..`, leading '/', '.' suffix or > 255 bytes.
pub fn nontrivial(s: &str) -> bool {
    let last = s.rsplit('/').next().unwrap_or("");
    s.contains('/') || s.starts_with('/') || last.contains('.') || s.len() > 255
}

#[cfg(test)]
mod tests {
    use super::*;
    #[test]
    fn resolver() {
        let sb = Sandbox::new().unwrap();
        assert!(sb.resolve("a/b").is_some());
        // root is l1/../l8/root: nine levels below parent
        assert!(sb.resolve("../../../../../../../../x").is_some());
        assert!(sb.resolve("../../../../../../../../../x").is_some());
        assert!(sb.resolve("../../../../../../../../..").is_none());
        assert!(sb.resolve("../../../../../../../../../../x").is_none());
        assert!(sb.resolve("a/../../../../../../../../../../../x").is_none());
        assert!(sb.resolve("../../../../../../../../../../p/x").is_none());
        assert!(sb.resolve("/etc/passwd").is_none());
        assert!(sb.resolve("/").is_none());
        let p = sb.parent.display().to_string();
        assert!(sb.resolve(&format!("{p}/outside/x")).is_some());
        assert!(sb.resolve(&format!("{p}/outside/../../x")).is_none());
        assert!(sb.resolve(&format!("{p}")).is_none());
        assert!(sb.resolve(&format!("{p}/../{}/x", sb.parent.file_name().unwrap().to_str().unwrap())).is_none());
        assert!(sb.resolve("").is_some());
        assert!(sb.breach().is_none());
    }
}
