//! Hostile string strategies. Safety by construction: at most `max_dd` `..`
//! components (root is 8 levels below the sandbox parent) and absolute strings
//! only as `<PARENT>/outside/...`; never a NUL byte. (The lexical resolver in
//! sandbox.rs is the second, independent guard.)

use crate::sandbox::PARENT_TOKEN;
use proptest::collection::vec;
use proptest::prelude::*;
use proptest::sample::select;

const NAMES_ANY: &[&str] = &[
    "a", "b", "x", "wow", "us", "eu", "summary", "versions", "cdns", "v1", "products", "data", "data.000", "data.001", "x.tmp", "x.cache", "a.b.c",
    "tpr", "config", "api", "ribbit", "cdn", "root", "outside", "canary.txt", "l8", "l1", "...", "..a", "a..", ".a", "a.", "~", " ", "a b", "%2e%2e",
    "%2f", "a\\b", "..\\..", "a:b", "C:", "é", "名", "٣", "ß", "-", "_", "0", "00", "abcdef0123456789abcdef0123456789", "AB", "a\tb", "a\nb", "*",
    "?", "#", "&", "=", "+", "@", "$HOME", "`x`", "'", "\"", "index", "tmp", ".tmp", "root.tmp",
];

const NAMES_ENDPOINT: &[&str] = &[
    "v1", "products", "wow", "wowt", "versions", "cdns", "bgdl", "summary", "certs", "ocsp", "x", "a", "b", "...", "..a", "a..", ".a", "a.", "a.b",
    "x.tmp", "x.cache", "0", "_", "-", "é", "名", "٣", "Ⅷ", "api", "ribbit", "cdn", "root", "canary.txt", "l8", "l1", "outside", "tmp", "root.tmp",
];

const NAMES_BAD_ENDPOINT: &[&str] = &["a b", "a:b", "a\\b", "%2e", "~", "*", "?", "#", "a\nb", "@"];

fn long_names() -> Vec<String> {
    vec!["a".repeat(255), "a".repeat(256), "b".repeat(300), "é".repeat(130), "a".repeat(1001)]
}

pub fn comp_any() -> BoxedStrategy<String> {
    prop_oneof![
        10 => select(NAMES_ANY.to_vec()).prop_map(str::to_string),
        5 => Just("..".to_string()),
        1 => Just(".".to_string()),
        1 => Just(String::new()),
        1 => select(long_names()),
        2 => vec(select(b"abcxyz019._-".to_vec()), 1..10).prop_map(|v| String::from_utf8(v).unwrap()),
    ]
    .boxed()
}

pub fn comp_endpoint() -> BoxedStrategy<String> {
    prop_oneof![
        10 => select(NAMES_ENDPOINT.to_vec()).prop_map(str::to_string),
        6 => Just("..".to_string()),
        1 => Just(".".to_string()),
        1 => Just(String::new()),
        1 => select(long_names()),
        1 => select(NAMES_BAD_ENDPOINT.to_vec()).prop_map(str::to_string),
        2 => vec(select(b"abcxyz019._-".to_vec()), 1..10).prop_map(|v| String::from_utf8(v).unwrap()),
    ]
    .boxed()
}

/// neutralise every `..` component beyond the first `max`
pub fn cap_dotdots(s: &str, max: usize) -> String {
    let mut n = 0;
    s.split('/')
        .map(|c| {
            if c == ".." {
                n += 1;
                if n > max { "dd" } else { c }
            } else {
                c
            }
        })
        .collect::<Vec<_>>()
        .join("/")
}

/// components joined by '/', optional leading/trailing '/', optional '.' suffix
pub fn path_string(comp: BoxedStrategy<String>, max_comps: usize, max_dd: usize, allow_leading: bool) -> BoxedStrategy<String> {
    (
        vec(comp, 0..=max_comps),
        prop::bool::weighted(0.15),
        prop::bool::weighted(0.12),
        prop_oneof![10 => Just(""), 1 => Just("."), 1 => Just(".tmp"), 1 => Just(".cache"), 1 => Just(".index")],
    )
        .prop_map(move |(comps, lead, trail, suf)| {
            let mut s = String::new();
            if lead && allow_leading {
                s.push('/');
            }
            s.push_str(&comps.join("/"));
            s.push_str(suf);
            if trail {
                s.push('/');
            }
            cap_dotdots(&s, max_dd)
        })
        .boxed()
}

/// `down/../../..[/tail]`: more ups than downs somewhere in the middle
pub fn climbing(names: &'static [&'static str], max_dd: usize, allow_leading: bool) -> BoxedStrategy<String> {
    (vec(select(names.to_vec()), 0..3), 1usize..=9, vec(select(names.to_vec()), 0..3), prop::bool::weighted(0.1), prop::bool::weighted(0.1))
        .prop_map(move |(down, ups, tail, lead, trail)| {
            let mut comps: Vec<&str> = down;
            comps.extend(std::iter::repeat("..").take(ups.min(max_dd)));
            comps.extend(tail);
            let mut s = String::new();
            if lead && allow_leading {
                s.push('/');
            }
            s.push_str(&comps.join("/"));
            if trail {
                s.push('/');
            }
            cap_dotdots(&s, max_dd)
        })
        .boxed()
}

const SPECIAL_KEYS: &[&str] = &[
    "",
    ".",
    "./",
    "a/..",
    "a/../",
    "../canary.txt",
    "../root.tmp",
    "../root",
    "../../l8/root/x",
    "x/../../canary.txt",
    "../../../../../../../canary.txt",
    "../../../../../../../../canary.txt",
    "../../../../../../../../outside/canary.txt",
    "a/b/../../../x",
    "....//....//x",
    "..%2f..%2fx",
    "..\\..\\x",
];

/// arbitrary cache key / installation name: relative (≤ 8 `..`), or absolute
/// below `<PARENT>/outside` (≤ 1 `..`)
pub fn free_string() -> BoxedStrategy<String> {
    prop_oneof![
        5 => path_string(comp_any(), 8, 8, false),
        1 => climbing(NAMES_ANY, 8, false),
        2 => path_string(comp_any(), 5, 1, false).prop_map(|s| format!("{PARENT_TOKEN}/outside/{s}")),
        1 => select(SPECIAL_KEYS.to_vec()).prop_map(str::to_string),
    ]
    .boxed()
}

/// a field embedded behind a fixed prefix (typed-key field, CDN path): may start
/// with '/', never absolute as a whole
pub fn field_string(max_dd: usize) -> BoxedStrategy<String> {
    prop_oneof![
        3 => path_string(comp_any(), 5, max_dd, true),
        2 => climbing(NAMES_ANY, max_dd, true),
        1 => select(NAMES_ANY.to_vec()).prop_map(str::to_string),
    ]
    .boxed()
}

/// endpoint shapes: mostly inside validate_endpoint's alphabet
pub fn endpoint_string() -> BoxedStrategy<String> {
    (
        prop_oneof![5 => Just(""), 1 => Just("v1/summary/"), 1 => Just("v1/certs/"), 1 => Just("v1/ocsp/"), 2 => Just("v1/products/"), 1 => Just("v1/summary")],
        prop_oneof![3 => path_string(comp_endpoint(), 8, 8, true), 2 => climbing(NAMES_ENDPOINT, 8, true)],
    )
        .prop_map(|(p, s)| cap_dotdots(&format!("{p}{s}"), 8))
        .boxed()
}

// ---- well-formed fields (injectivity clause) ----

pub fn wf_name() -> BoxedStrategy<String> {
    prop_oneof![
        3 => select(vec!["us", "eu", "cn", "kr", "wow", "wowt", "wow_classic", "d3", "summary", "versions", "cdns", "bgdl", "buildconfig", "cdnconfig", "patchconfig", "root", "encoding", "install", "download", "a", "b", "ab", "a-b", "a_b"]).prop_map(str::to_string),
        2 => vec(select(b"abcdefuswo0123456789_-".to_vec()), 1..10).prop_map(|v| String::from_utf8(v).unwrap()),
    ]
    .boxed()
}

pub fn wf_hex() -> BoxedStrategy<String> {
    prop_oneof![
        3 => any::<[u8; 16]>().prop_map(hex::encode),
        1 => vec(select(b"0123456789abcdef".to_vec()), 1..12).prop_map(|v| String::from_utf8(v).unwrap()),
    ]
    .boxed()
}

pub fn wf_archive_name() -> BoxedStrategy<String> {
    prop_oneof![
        2 => any::<[u8; 16]>().prop_map(hex::encode),
        2 => (select(vec!["data", "archive", "patch"]), 0u16..1000).prop_map(|(n, i)| format!("{n}.{i:03}")),
        1 => wf_name(),
    ]
    .boxed()
}

#[cfg(test)]
mod tests {
    use super::*;
    #[test]
    fn cap() {
        assert_eq!(cap_dotdots("../../x/..", 2), "../../x/dd");
        assert_eq!(cap_dotdots("/..", 0), "/dd");
    }
}
