//! ProtocolCache over a cache directory, RibbitTactClient::query and CdnClient
//! against the loopback mock.

use crate::common::{J, confined, end_of_case, escape_key, infra, note_timeout, string_classes};
use crate::strs;
use crate::mock;
use crate::sandbox::{Sandbox, dotdots, nontrivial};
use cascette_protocol::cache::ProtocolCache;
use cascette_protocol::config::{CacheConfig, CdnConfig, ClientConfig};
use cascette_protocol::{CdnClient, CdnEndpoint, ContentType, RibbitTactClient};
use proptest::prelude::*;
use serde::{Deserialize, Serialize};
use std::sync::Arc;
use std::time::Duration;
use vh_engine::util::{catch_panic, hexbytes, with_timeout};
use vh_engine::{Known, Verdict};

const CASE_LIMIT: Duration = Duration::from_secs(300);

fn cache_config(sb: &Sandbox) -> CacheConfig {
    CacheConfig { cache_dir: Some(sb.root.clone()), ..CacheConfig::default() }
}

fn rt() -> tokio::runtime::Runtime {
    tokio::runtime::Builder::new_current_thread().enable_all().build().expect("runtime")
}

/// plant a file the cache did not write at `target` (must be outside root, inside parent)
fn plant(sb: &Sandbox, target: &[String], content: &[u8]) -> Option<Vec<u8>> {
    if sb.is_under_root(target) {
        return None;
    }
    let tp = Sandbox::path_of(target);
    if tp.exists() {
        if tp.is_file() { std::fs::read(&tp).ok() } else { None }
    } else if tp.parent().map(|d| std::fs::create_dir_all(d).is_ok()).unwrap_or(false) && std::fs::write(&tp, content).is_ok() {
        Some(content.to_vec())
    } else {
        None
    }
}

// ------------------------------------------------------------------ ProtocolCache

#[derive(Debug, Clone, Serialize, Deserialize)]
pub struct ProtoCacheCase {
    /// may start with the `<PARENT>` token
    pub key: String,
    pub value_seed: u64,
    pub explicit_ttl: bool,
}

pub fn protocache_strategy() -> BoxedStrategy<ProtoCacheCase> {
    (strs::free_string(), any::<u64>(), any::<bool>()).prop_map(|(key, value_seed, explicit_ttl)| ProtoCacheCase { key, value_seed, explicit_ttl }).boxed()
}

pub fn check_protocache(c: &ProtoCacheCase, known: &Arc<Known>) -> Verdict {
    let sb = match Sandbox::new() {
        Ok(s) => s,
        Err(e) => {
            infra(format!("sandbox: {e}"));
            return Verdict::pass();
        }
    };
    let key = sb.realise(&c.key);
    let mut j = J::new(known);
    string_classes(&mut j, &key);
    let Some(target) = sb.resolve(&key) else {
        j.class("skipped_unsafe");
        return j.finish(false);
    };
    let outside = !sb.is_under_root(&target);
    j.class_if(outside, "denotes-path-outside-root");
    let mut ekey = escape_key("protocol-cache", "key", "cache-dir", &key);
    if target == sb.root_comps() && dotdots(&key) == 0 {
        ekey = "C20:protocol-cache:root-denoting-key-leaves-temp-file-beside-cache-dir".to_string();
    }
    let value = format!("value-{:016x}", c.value_seed).into_bytes();
    let mut before = sb.list();
    {
        let cache = match ProtocolCache::new(&cache_config(&sb)) {
            Ok(x) => x,
            Err(e) => {
                infra(format!("ProtocolCache::new: {e}"));
                return Verdict::pass();
            }
        };
        let r = catch_panic(|| if c.explicit_ttl { cache.store_with_ttl(&key, &value, Duration::from_secs(3600)) } else { cache.store_bytes(&key, &value) });
        match r {
            Err(p) => {
                if j.report("C20:protocol-cache:panic-in-store".into(), format!("store({key:?}) panicked at {}:{}: {}", p.file, p.line, p.msg)) {
                    return j.finish(true);
                }
            }
            Ok(res) => j.class_if(res.is_ok(), "store-ok"),
        }
        if confined(&sb, &mut before, &mut j, &ekey, "ProtocolCache::store", &key) {
            return j.finish(true);
        }
        if let Err(p) = catch_panic(|| cache.get(&key)) {
            if j.report("C20:protocol-cache:panic-in-get".into(), format!("get({key:?}) panicked at {}:{}: {}", p.file, p.line, p.msg)) {
                return j.finish(true);
            }
        }
        if confined(&sb, &mut before, &mut j, &ekey, "ProtocolCache::get", &key) {
            return j.finish(true);
        }
    }
    if outside {
        // remove what the first instance may have left there, then plant a foreign file
        let tp = Sandbox::path_of(&target);
        if tp.is_file() {
            let _ = std::fs::remove_file(&tp);
        }
        if let Some(content) = plant(&sb, &target, format!("victim-{:016x}", c.value_seed).as_bytes()) {
            j.class("victim-planted");
            before = sb.list();
            if let Ok(cache) = ProtocolCache::new(&cache_config(&sb)) {
                if let Ok(Ok(Some(b))) = catch_panic(|| cache.get(&key)) {
                    if b == content {
                        j.class("read-outside-root");
                        if j.report(
                            ekey.clone(),
                            format!(
                                "ProtocolCache::get with {:?} on a fresh cache returned the contents of `{}`, a file outside the cache directory",
                                key.chars().take(200).collect::<String>(),
                                tp.display()
                            ),
                        ) {
                            return j.finish(true);
                        }
                    }
                }
                if confined(&sb, &mut before, &mut j, &ekey, "ProtocolCache::get (fresh instance)", &key) {
                    return j.finish(true);
                }
            }
        }
    }
    end_of_case(&sb);
    j.finish(nontrivial(&key))
}

// ------------------------------------------------------------------ ProtocolCache: two keys, two files

/// Two different well-formed protocol cache keys ("api/ribbit/<endpoint>" with an endpoint from
/// validate_endpoint's alphabet, "cdn/<path>/<type>/<aa>/<bb>/<hex>") that differ in one place —
/// anywhere in a component, also far behind its 200th byte — by one character, by one appended
/// character or by letter case.
#[derive(Debug, Clone, Serialize, Deserialize)]
pub struct ProtoPairCase {
    pub a: String,
    pub b: String,
    pub seed: u64,
}

pub fn protopair_strategy() -> BoxedStrategy<ProtoPairCase> {
    use proptest::collection::vec;
    use proptest::sample::select;
    let alpha: Vec<u8> = b"abcdefghijklmnopqrstuvwxyzABCDEFXYZ0123456789_-".to_vec();
    let comp_len = prop_oneof![4 => 1usize..=40, 2 => 41usize..=199, 4 => 200usize..=250];
    let comp = comp_len.prop_flat_map(move |n| vec(select(alpha.clone()), n).prop_map(|v| String::from_utf8(v).unwrap()));
    let prefix = prop_oneof![
        4 => Just("api/ribbit/".to_string()),
        2 => Just("api/ribbit/v1/products/".to_string()),
        2 => Just("cdn/tpr/wow/data/ab/cd/".to_string()),
        1 => Just("cdn/".to_string()),
    ];
    let suffix = prop_oneof![5 => Just(String::new()), 2 => Just("/versions".to_string()), 1 => Just(".index".to_string()), 1 => Just("/config/ab/cd/0123456789abcdef".to_string())];
    (prefix, comp, suffix, any::<u16>(), 0u8..8, any::<u8>(), any::<u64>())
        .prop_map(|(prefix, comp, suffix, at, how, ch, seed)| {
            let bytes = comp.as_bytes();
            let n = bytes.len();
            // position of the difference: anywhere, the last character, or behind byte 200
            let pos = match how % 4 {
                0 => pick_idx_local(at, n),
                1 => n - 1,
                2 if n > 200 => 200 + pick_idx_local(at, n - 200),
                _ => pick_idx_local(at, n),
            };
            let other = {
                let pool = b"abcdefghijklmnopqrstuvwxyz0123456789_-";
                let mut c = pool[ch as usize % pool.len()];
                if c == bytes[pos] {
                    c = if c == b'q' { b'r' } else { b'q' };
                }
                c
            };
            let mut b = bytes.to_vec();
            match how {
                // one appended character
                4 => b.push(other),
                // letter case of one character (if it is a letter)
                5 if bytes[pos].is_ascii_alphabetic() => b[pos] ^= 0x20,
                // one character dropped at the end (n >= 2)
                6 if n >= 2 => {
                    b.pop();
                }
                _ => b[pos] = other,
            }
            let b = String::from_utf8(b).unwrap();
            ProtoPairCase { a: format!("{prefix}{comp}{suffix}"), b: format!("{prefix}{b}{suffix}"), seed }
        })
        .boxed()
}

fn pick_idx_local(x: u16, n: usize) -> usize {
    vh_engine::pick_idx(x, n.max(1))
}

pub fn check_protopair(c: &ProtoPairCase, known: &Arc<Known>) -> Verdict {
    if c.a == c.b {
        return Verdict::pass().class("identical-pair");
    }
    let sb = match Sandbox::new() {
        Ok(s) => s,
        Err(e) => {
            infra(format!("sandbox: {e}"));
            return Verdict::pass();
        }
    };
    let mut j = J::new(known);
    if sb.resolve(&c.a).map(|t| sb.is_under_root(&t)) != Some(true) || sb.resolve(&c.b).map(|t| sb.is_under_root(&t)) != Some(true) {
        j.class("skipped_unsafe");
        return j.finish(false);
    }
    let longest = c.a.split('/').map(str::len).max().unwrap_or(0);
    let differ_at = c.a.bytes().zip(c.b.bytes()).position(|(x, y)| x != y).unwrap_or(c.a.len().min(c.b.len()));
    let comp_start = c.a[..differ_at.min(c.a.len())].rfind('/').map_or(0, |p| p + 1);
    j.class_if(longest > 200, "component>200-bytes");
    j.class_if(differ_at - comp_start >= 200, "keys-differ-behind-byte-200-of-a-component");
    j.class_if(c.a.len() != c.b.len(), "one-key-is-longer");
    j.class_if(c.a.eq_ignore_ascii_case(&c.b), "keys-differ-by-letter-case");
    let va = format!("A-{:016x}", c.seed).into_bytes();
    let vb = format!("B-{:016x}", c.seed).into_bytes();
    let key = "C20:protocol-cache:two-keys-share-a-file".to_string();
    let detail = format!("a = {:?} ({} bytes), b differs from byte {differ_at}: {:?}", c.a, c.a.len(), &c.b[differ_at.min(c.b.len())..]);
    let judge = |ga: Option<Vec<u8>>, gb: Option<Vec<u8>>, whom: &str, j: &mut J| -> bool {
        // a store may fail (name too long for the file system): then the key reads as absent
        let bad = ga.as_ref().is_some_and(|x| *x != va) || gb.as_ref().is_some_and(|x| *x != vb);
        bad && j.report(
            key.clone(),
            format!(
                "{whom}: after store(a, A), store(b, B): get(a) = {:?}, get(b) = {:?}; {detail}",
                ga.as_ref().map(|x| String::from_utf8_lossy(x).into_owned()),
                gb.as_ref().map(|x| String::from_utf8_lossy(x).into_owned())
            ),
        )
    };
    let both_stored;
    {
        let cache = match ProtocolCache::new(&cache_config(&sb)) {
            Ok(x) => x,
            Err(e) => {
                infra(format!("ProtocolCache::new: {e}"));
                return Verdict::pass();
            }
        };
        let ra = catch_panic(|| cache.store_bytes(&c.a, &va));
        let rb = catch_panic(|| cache.store_bytes(&c.b, &vb));
        if let (Err(p), _) | (_, Err(p)) = (&ra, &rb) {
            j.report("C20:protocol-cache:panic-in-store".into(), format!("store panicked at {}:{}: {}; {detail}", p.file, p.line, p.msg));
            return j.finish(true);
        }
        both_stored = matches!((&ra, &rb), (Ok(Ok(())), Ok(Ok(()))));
        j.class_if(both_stored, "both-stored");
        let ga = catch_panic(|| cache.get(&c.a)).ok().and_then(Result::ok).flatten();
        let gb = catch_panic(|| cache.get(&c.b)).ok().and_then(Result::ok).flatten();
        if both_stored && (ga.is_none() || gb.is_none()) {
            // both stores reported success a moment ago: one value has taken the other's place
            if j.report(key.clone(), format!("same instance: both stores succeeded, get(a) present = {}, get(b) present = {}; {detail}", ga.is_some(), gb.is_some())) {
                return j.finish(true);
            }
        }
        if judge(ga, gb, "same instance", &mut j) {
            return j.finish(true);
        }
    }
    if let Ok(cache) = ProtocolCache::new(&cache_config(&sb)) {
        let ga = catch_panic(|| cache.get(&c.a)).ok().and_then(Result::ok).flatten();
        let gb = catch_panic(|| cache.get(&c.b)).ok().and_then(Result::ok).flatten();
        if judge(ga, gb, "fresh instance over the same directory", &mut j) {
            return j.finish(true);
        }
    }
    end_of_case(&sb);
    j.finish(both_stored)
}

// ------------------------------------------------------------------ RibbitTactClient::query

#[derive(Debug, Clone, Serialize, Deserialize)]
pub struct QueryCase {
    pub endpoint: String,
    /// also configure the TACT HTTP client (pointing at the mock)
    pub via_http: bool,
    /// a second endpoint, spelled like the first up to a late difference (another suffix behind
    /// the last '.', one more character, letter case): queried by the same client after the first;
    /// both answers must end up in files of their own
    #[serde(default)]
    pub sibling: Option<String>,
}

pub fn query_strategy() -> BoxedStrategy<QueryCase> {
    (strs::endpoint_string(), prop::bool::weighted(0.8), proptest::option::weighted(0.3, 0u8..6))
        .prop_map(|(endpoint, via_http, sib)| {
            let sibling = sib.map(|how| {
                let (dir, last) = match endpoint.rfind('/') {
                    Some(p) => (&endpoint[..=p], &endpoint[p + 1..]),
                    None => ("", endpoint.as_str()),
                };
                let stem = last.rfind('.').map_or(last, |p| &last[..p]);
                match how {
                    0 => format!("{endpoint}.next"),
                    1 => format!("{dir}{stem}.prev"),
                    2 => format!("{dir}{stem}.bpsv"),
                    3 => format!("{endpoint}x"),
                    4 => format!("{endpoint}.tmp"),
                    _ => format!("{dir}{}", if last.chars().any(|c| c.is_ascii_lowercase()) { last.to_ascii_uppercase() } else { format!("{last}_") }),
                }
            });
            QueryCase { endpoint, via_http, sibling }
        })
        .boxed()
}

/// what validate_endpoint documents and does: non-empty, ≤ 1000 bytes, alphanumerics and `/ _ - .`
fn admitted(e: &str) -> bool {
    !e.is_empty() && e.len() <= 1000 && e.chars().all(|c| c.is_alphanumeric() || matches!(c, '/' | '_' | '-' | '.'))
}

pub fn check_query(c: &QueryCase, known: &Arc<Known>) -> Verdict {
    let c2 = c.clone();
    let known = known.clone();
    match with_timeout(CASE_LIMIT, move || check_query_inner(&c2, &known)) {
        Some(v) => v,
        None => {
            note_timeout();
            Verdict::pass().class("timeout-infra")
        }
    }
}

fn client_config(sb: &Sandbox, port: u16, via_http: bool) -> ClientConfig {
    ClientConfig {
        tact_https_url: String::new(),
        tact_http_url: if via_http { format!("http://127.0.0.1:{port}") } else { String::new() },
        ribbit_url: format!("tcp://127.0.0.1:{port}"),
        cache_config: cache_config(sb),
        ..ClientConfig::default()
    }
}

fn check_query_inner(c: &QueryCase, known: &Arc<Known>) -> Verdict {
    let sb = match Sandbox::new() {
        Ok(s) => s,
        Err(e) => {
            infra(format!("sandbox: {e}"));
            return Verdict::pass();
        }
    };
    let e = &c.endpoint;
    let mut j = J::new(known);
    string_classes(&mut j, e);
    let ok_shape = admitted(e);
    j.class_if(ok_shape, "admitted-shape");
    j.class_if(!ok_shape, "outside-whitelist");
    j.class_if(c.via_http, "tact-http");
    j.class_if(e.starts_with("v1/summary") || e.starts_with("v1/certs/") || e.starts_with("v1/ocsp/"), "tcp-only-endpoint");
    // safety gate: the cache key is "api/ribbit/<endpoint>" below root; also require the raw
    // endpoint joined to root directly (shallower, hence more conservative) to stay inside parent
    let mirrored = format!("api/ribbit/{e}");
    let (Some(target), Some(_)) = (sb.resolve(&mirrored), sb.resolve(&format!("x/{e}"))) else {
        j.class("skipped_unsafe");
        return j.finish(false);
    };
    if dotdots(e) > 8 {
        j.class("skipped_unsafe");
        return j.finish(false);
    }
    let outside = !sb.is_under_root(&target);
    j.class_if(outside, "denotes-path-outside-root");
    let ekey = if ok_shape {
        escape_key("ribbit-query", "endpoint", "cache-dir", &mirrored)
    } else {
        "C20:ribbit-query:endpoint-outside-whitelist-touches-files-outside-cache-dir".to_string()
    };
    let rt = rt();
    let port = match mock::ribbit_port() {
        Ok(p) => p,
        Err(e) => {
            infra(format!("mock: {e}"));
            return Verdict::pass();
        }
    };
    let mut before = sb.list();
    {
        let client = match RibbitTactClient::new(client_config(&sb, port, c.via_http)) {
            Ok(x) => x,
            Err(e) => {
                infra(format!("RibbitTactClient::new: {e}"));
                return Verdict::pass();
            }
        };
        // client construction creates the cache directory only
        if confined(&sb, &mut before, &mut j, "C20:ribbit-query:client-construction-touches-files-outside-cache-dir", "RibbitTactClient::new", e) {
            return j.finish(true);
        }
        match catch_panic(|| rt.block_on(client.query(e))) {
            Err(p) => {
                if j.report("C20:ribbit-query:panic".into(), format!("query({e:?}) panicked at {}:{}: {}", p.file, p.line, p.msg)) {
                    return j.finish(true);
                }
            }
            Ok(Ok(_)) => j.class("query-ok"),
            Ok(Err(err)) => {
                j.class("query-err");
                if std::env::var_os("VH_C20_DEBUG").is_some() {
                    eprintln!("DBG query-err {:?} -> {}", e.chars().take(60).collect::<String>(), err.to_string().chars().take(160).collect::<String>());
                }
                j.class_if(matches!(err, cascette_protocol::ProtocolError::InvalidEndpoint(_)), "rejected-by-validation");
            }
        }
        if confined(&sb, &mut before, &mut j, &ekey, "RibbitTactClient::query", e) {
            return j.finish(true);
        }
        // two endpoints, two files
        if let Some(s2) = c.sibling.as_ref().filter(|s2| *s2 != e && ok_shape && admitted(s2) && !outside) {
            let plain = |x: &str| x.split('/').all(|c| !c.is_empty() && c != "." && c != "..");
            let nested = s2.starts_with(&format!("{e}/")) || e.starts_with(&format!("{s2}/"));
            let first_ok = j.classes.contains(&"query-ok");
            if plain(e) && plain(s2) && !nested && first_ok && sb.resolve(&format!("api/ribbit/{s2}")).is_some_and(|t| sb.is_under_root(&t)) {
                let files_before = sb.all_files_in_root(&before);
                if let Ok(Ok(_)) = catch_panic(|| rt.block_on(client.query(s2))) {
                    let after = sb.list();
                    let files_after = sb.all_files_in_root(&after);
                    j.class("sibling-endpoint-queried");
                    if files_before >= 1 && files_after <= files_before {
                        j.report(
                            "C20:ribbit-query:two-endpoints-share-a-cache-file".into(),
                            format!("query({e:?}) then query({s2:?}) by one client: {files_before} cache file(s) before the second query, {files_after} after it"),
                        );
                        return j.finish(true);
                    }
                }
            }
        }
    }
    if outside {
        let tp = Sandbox::path_of(&target);
        if tp.is_file() {
            let _ = std::fs::remove_file(&tp);
        }
        if plant(&sb, &target, mock::BPSV_VICTIM.as_bytes()).is_some() {
            j.class("victim-planted");
            before = sb.list();
            if let Ok(client) = RibbitTactClient::new(client_config(&sb, port, c.via_http)) {
                if let Ok(Ok(doc)) = catch_panic(|| rt.block_on(client.query(e))) {
                    if format!("{doc:?}").contains("victimregion") {
                        j.class("read-outside-root");
                        if j.report(
                            ekey.clone(),
                            format!(
                                "RibbitTactClient::query({:?}) answered from `{}`, a file outside the cache directory, instead of the server",
                                e.chars().take(200).collect::<String>(),
                                tp.display()
                            ),
                        ) {
                            return j.finish(true);
                        }
                    }
                }
                if confined(&sb, &mut before, &mut j, &ekey, "RibbitTactClient::query (fresh client)", e) {
                    return j.finish(true);
                }
            }
        }
    }
    end_of_case(&sb);
    j.finish(ok_shape && nontrivial(e))
}

// ------------------------------------------------------------------ CdnClient

#[derive(Debug, Clone, Copy, PartialEq, Eq, Serialize, Deserialize)]
pub enum Ct {
    Config,
    Data,
    Patch,
}

impl Ct {
    fn real(self) -> ContentType {
        match self {
            Ct::Config => ContentType::Config,
            Ct::Data => ContentType::Data,
            Ct::Patch => ContentType::Patch,
        }
    }
    fn name(self) -> &'static str {
        match self {
            Ct::Config => "config",
            Ct::Data => "data",
            Ct::Patch => "patch",
        }
    }
}

#[derive(Debug, Clone, Serialize, Deserialize)]
pub enum CdnOp {
    Download {
        ct: Ct,
        #[serde(with = "hexbytes")]
        key: Vec<u8>,
    },
    ArchiveIndex {
        archive_key: String,
    },
    Range {
        ct: Ct,
        #[serde(with = "hexbytes")]
        key: Vec<u8>,
        offset: u64,
        length: u64,
    },
}

#[derive(Debug, Clone, Serialize, Deserialize)]
pub struct CdnCase {
    pub op: CdnOp,
    /// CDN `Path` field (remote data)
    pub path: String,
    /// put before / after `127.0.0.1:<port>` in the host field
    pub host_prefix: String,
    pub host_tail: String,
}

fn ct() -> BoxedStrategy<Ct> {
    prop_oneof![Just(Ct::Config), Just(Ct::Data), Just(Ct::Patch)].boxed()
}

fn cdn_key() -> BoxedStrategy<Vec<u8>> {
    prop_oneof![
        3 => proptest::collection::vec(any::<u8>(), 0..=3),
        3 => proptest::collection::vec(any::<u8>(), 16),
        2 => proptest::collection::vec(any::<u8>(), 0..=32),
        // bytes whose hex is harmless but whose raw value is '.', '/'
        1 => proptest::collection::vec(prop_oneof![Just(0x2eu8), Just(0x2fu8), Just(0u8)], 0..=32),
    ]
    .boxed()
}

fn archive_key() -> BoxedStrategy<String> {
    prop_oneof![
        3 => any::<[u8; 16]>().prop_map(hex::encode),
        3 => proptest::collection::vec(proptest::sample::select(b"0123456789abcdef./".to_vec()), 0..6).prop_map(|v| String::from_utf8(v).unwrap()),
        2 => proptest::sample::select(vec!["", "a", "ab", "abc", "abcd", "é", "aé", "abé", "名", "a名b", "....", "..", "../x", "../../../../x", "....x", "ab/../../../../../x", "..../../../../x", "ab..", "/abc", "abcd/../../../../../../../../canary.txt"]).prop_map(str::to_string),
        3 => strs::field_string(4),
    ]
    .boxed()
}

pub fn cdn_strategy() -> BoxedStrategy<CdnCase> {
    let off = prop_oneof![3 => Just(0u64), 2 => 0u64..5000, 1 => Just(u64::MAX), 1 => Just(u64::MAX - 1), 1 => any::<u64>()];
    let len = prop_oneof![3 => Just(0u64), 2 => 1u64..5000, 1 => Just(u64::MAX), 1 => Just(1u64), 1 => any::<u64>()];
    let op = prop_oneof![
        3 => (ct(), cdn_key()).prop_map(|(ct, key)| CdnOp::Download { ct, key }),
        3 => archive_key().prop_map(|archive_key| CdnOp::ArchiveIndex { archive_key }),
        3 => (ct(), cdn_key(), off, len).prop_map(|(ct, key, offset, length)| CdnOp::Range { ct, key, offset, length }),
    ];
    let path = prop_oneof![2 => Just("tpr/wow".to_string()), 5 => strs::field_string(4)];
    let prefix = prop_oneof![6 => Just(""), 1 => Just("user@"), 1 => Just("user:pw@")].prop_map(str::to_string);
    let tail = prop_oneof![6 => Just(""), 1 => Just("/"), 1 => Just("/.."), 1 => Just("/../.."), 1 => Just("/x/../.."), 1 => Just("?q="), 1 => Just("#f"), 1 => Just("/%2e%2e")]
        .prop_map(str::to_string);
    (op, path, prefix, tail).prop_map(|(op, path, host_prefix, host_tail)| CdnCase { op, path, host_prefix, host_tail }).boxed()
}

pub fn check_cdn(c: &CdnCase, known: &Arc<Known>) -> Verdict {
    let c2 = c.clone();
    let known = known.clone();
    match with_timeout(CASE_LIMIT, move || check_cdn_inner(&c2, &known)) {
        Some(v) => v,
        None => {
            note_timeout();
            Verdict::pass().class("timeout-infra")
        }
    }
}

/// str[a..b] the way the library slices, or None where that would panic
fn slice(s: &str, a: usize, b: usize) -> Option<&str> {
    s.get(a..b)
}

fn check_cdn_inner(c: &CdnCase, known: &Arc<Known>) -> Verdict {
    let sb = match Sandbox::new() {
        Ok(s) => s,
        Err(e) => {
            infra(format!("sandbox: {e}"));
            return Verdict::pass();
        }
    };
    let mut j = J::new(known);
    let path = &c.path;
    j.class_if(path.contains('/'), "path-has-separator");
    j.class_if(dotdots(path) > 0, "path-has-dotdot");
    j.class_if(path.starts_with('/'), "path-leading-slash");
    j.class_if(path.len() > 255, "path-len>255");
    j.class_if(!c.host_tail.is_empty() || !c.host_prefix.is_empty(), "hostile-host");
    let trimmed = path.trim_end_matches('/');

    // ---- safety gate: mirror of the cache key + conservative variants ----
    let dd_key = |api: &str, noun: &str, has_dd: bool| {
        if has_dd { format!("C20:{api}:dotdot-{noun}-escapes-cache-dir") } else { format!("C20:{api}:plain-{noun}-escapes-cache-dir") }
    };
    let (mirrored, ekey, hostile): (Option<String>, String, String) = match &c.op {
        CdnOp::Download { ct, key } => {
            j.class("download");
            j.class_if(key.len() < 2, "key<2-bytes");
            let h = hex::encode(key);
            let m = match (slice(&h, 0, 2), slice(&h, 2, 4)) {
                (Some(a), Some(b)) => Some(format!("cdn/{trimmed}/{}/{a}/{b}/{h}", ct.name())),
                _ => None,
            };
            (m, dd_key("cdn:download", "path", dotdots(path) > 0), path.clone())
        }
        CdnOp::Range { key, offset, length, .. } => {
            j.class("range");
            j.class_if(key.len() < 2, "key<2-bytes");
            j.class_if(*length == 0, "length-0");
            j.class_if(*offset == 0, "offset-0");
            j.class_if(offset.checked_add(*length).is_none(), "offset+length>u64");
            (None, dd_key("cdn:range", "path", dotdots(path) > 0), path.clone())
        }
        CdnOp::ArchiveIndex { archive_key } => {
            j.class("archive-index");
            j.class_if(archive_key.len() < 4, "archive-key<4-bytes");
            j.class_if(!archive_key.is_ascii(), "archive-key-non-ascii");
            let ak_dd = dotdots(archive_key) > 0 || slice(archive_key, 0, 2) == Some("..") || slice(archive_key, 2, 4) == Some("..");
            j.class_if(ak_dd, "archive-key-has-dotdot");
            j.class_if(archive_key.contains('/'), "archive-key-has-separator");
            let m = match (slice(archive_key, 0, 2), slice(archive_key, 2, 4)) {
                (Some(a), Some(b)) => Some(format!("cdn/{trimmed}/data/{a}/{b}/{archive_key}.index")),
                _ => None,
            };
            // name the mechanism after the archive key when it alone carries `..`
            let k = if dotdots(path) > 0 {
                dd_key("cdn:archive-index", "path", true)
            } else {
                dd_key("cdn:archive-index", "archive-key", ak_dd)
            };
            (m, k, format!("path={path} archive_key={archive_key}"))
        }
    };
    // conservative: everything the library could join, concatenated below root directly
    let all = match &c.op {
        CdnOp::ArchiveIndex { archive_key } => {
            let a = slice(archive_key, 0, 2).unwrap_or("");
            let b = slice(archive_key, 2, 4).unwrap_or("");
            format!("x/{path}/{a}/{b}/{archive_key}.index")
        }
        _ => format!("x/{path}/y"),
    };
    let mut safe = sb.resolve(&all).is_some() && dotdots(&all) <= 8;
    let target = match &mirrored {
        Some(m) => match sb.resolve(m) {
            Some(t) => Some(t),
            None => {
                safe = false;
                None
            }
        },
        None => None,
    };
    if !safe {
        j.class("skipped_unsafe");
        return j.finish(false);
    }
    let outside = target.as_ref().map(|t| !sb.is_under_root(t)).unwrap_or(false);
    j.class_if(outside, "denotes-path-outside-root");
    let rt = rt();
    let port = match mock::cdn_port() {
        Ok(p) => p,
        Err(e) => {
            infra(format!("mock: {e}"));
            return Verdict::pass();
        }
    };
    let endpoint = CdnEndpoint {
        host: format!("{}127.0.0.1:{port}{}", c.host_prefix, c.host_tail),
        path: path.clone(),
        product_path: None,
        scheme: Some("http".to_string()),
        is_fallback: false,
        strict: false,
        max_hosts: None,
    };
    let mut before = sb.list();
    let mk_client = || -> Option<CdnClient> {
        let cache = ProtocolCache::new(&cache_config(&sb)).ok()?;
        CdnClient::new(Arc::new(cache), CdnConfig::default()).ok()
    };
    let Some(client) = mk_client() else {
        infra("CdnClient::new failed".into());
        return Verdict::pass();
    };
    let call = |client: &CdnClient| -> Result<Result<Vec<u8>, cascette_protocol::ProtocolError>, vh_engine::util::PanicInfo> {
        catch_panic(|| match &c.op {
            CdnOp::Download { ct, key } => rt.block_on(client.download(&endpoint, ct.real(), key)),
            CdnOp::ArchiveIndex { archive_key } => rt.block_on(client.download_archive_index(&endpoint, archive_key)),
            CdnOp::Range { ct, key, offset, length } => rt.block_on(client.download_range(&endpoint, ct.real(), key, *offset, *length)),
        })
    };
    let nontriv = match &c.op {
        CdnOp::Download { key, .. } => key.len() < 2 || nontrivial(path),
        CdnOp::Range { key, offset, length, .. } => key.len() < 2 || *length == 0 || offset.checked_add(*length).is_none() || nontrivial(path),
        CdnOp::ArchiveIndex { archive_key } => archive_key.len() < 4 || !archive_key.is_ascii() || nontrivial(archive_key) || nontrivial(path),
    };
    match call(&client) {
        Err(p) => {
            j.class("panicked");
            let key = panic_key(&c.op, &p.msg);
            let stop = j.report(key, format!("{:?} path={:?}: panic at {}:{}: {}", c.op, path, p.file, p.line, p.msg));
            // a panic ends the call; nothing further to observe for this case
            let _ = confined(&sb, &mut before, &mut j, &ekey, "CdnClient (panicked call)", &hostile);
            let _ = stop;
            end_of_case(&sb);
            return j.finish(nontriv);
        }
        Ok(Ok(_)) => j.class("call-ok"),
        Ok(Err(err)) => {
            j.class("call-err");
            if std::env::var_os("VH_C20_DEBUG").is_some() {
                eprintln!("DBG cdn-err {:?} path={:?} host={}..{} -> {}", c.op, path.chars().take(60).collect::<String>(), c.host_prefix, c.host_tail, err.to_string().chars().take(160).collect::<String>());
            }
        }
    }
    if confined(&sb, &mut before, &mut j, &ekey, "CdnClient call", &hostile) {
        return j.finish(true);
    }
    // cache poisoning read: a foreign file where the cache key points
    if let (true, Some(t)) = (outside, &target) {
        let tp = Sandbox::path_of(t);
        if tp.is_file() {
            let _ = std::fs::remove_file(&tp);
        }
        if let Some(content) = plant(&sb, t, b"victim-cdn-content") {
            j.class("victim-planted");
            before = sb.list();
            if let Some(client2) = mk_client() {
                if let Ok(Ok(data)) = call(&client2) {
                    if data == content {
                        j.class("read-outside-root");
                        if j.report(
                            ekey.clone(),
                            format!("CdnClient answered {:?} (path {:?}) from `{}`, a file outside the cache directory", c.op, path, tp.display()),
                        ) {
                            return j.finish(true);
                        }
                    }
                }
                if confined(&sb, &mut before, &mut j, &ekey, "CdnClient call (fresh client)", &hostile) {
                    return j.finish(true);
                }
            }
        }
    }
    end_of_case(&sb);
    j.finish(nontriv)
}

/// narrow key for a panic in a CDN call: API + condition
fn panic_key(op: &CdnOp, msg: &str) -> String {
    match op {
        CdnOp::Download { key, .. } if key.len() < 2 => "C20:cdn:panic-key-shorter-than-2-bytes".into(),
        CdnOp::Range { key, .. } if key.len() < 2 => "C20:cdn:panic-key-shorter-than-2-bytes".into(),
        CdnOp::Range { offset, length, .. } if msg.contains("subtract with overflow") && *offset == 0 && *length == 0 => "C20:cdn:range-length-0-underflow".into(),
        CdnOp::Range { offset, length, .. } if msg.contains("add with overflow") && offset.checked_add(*length).is_none() => {
            "C20:cdn:range-offset-plus-length-overflow".into()
        }
        CdnOp::ArchiveIndex { archive_key } if archive_key.len() < 4 => "C20:cdn:archive-index:panic-archive-key-shorter-than-4-bytes".into(),
        CdnOp::ArchiveIndex { archive_key } if !archive_key.is_char_boundary(2) || !archive_key.is_char_boundary(4) => {
            "C20:cdn:archive-index:panic-archive-key-sliced-inside-a-character".into()
        }
        CdnOp::Download { .. } => format!("C20:cdn:download:panic:{}", vh_engine::util::normalise(msg)),
        CdnOp::Range { .. } => format!("C20:cdn:range:panic:{}", vh_engine::util::normalise(msg)),
        CdnOp::ArchiveIndex { .. } => format!("C20:cdn:archive-index:panic:{}", vh_engine::util::normalise(msg)),
    }
}
