//! Loopback mock that answers everything: HTTP/1.1 requests get `200 OK` with
//! `http_body`; anything else is treated as a Ribbit TCP command and answered
//! with `ribbit_body`. One connection = one exchange (`Connection: close`).
//!
//! The mocks are stateless, so one listener per kind lives for the whole
//! process on its own runtime thread (a listener per case exhausted the
//! ephemeral port range of the shared machine through TIME_WAIT sockets).

use tokio::io::{AsyncReadExt, AsyncWriteExt};
use tokio::net::TcpListener;

pub const BPSV: &str = "##seqn!DEC:4|region!STRING:0|buildconfig!HEX:16|cdnconfig!HEX:16|keyring!HEX:16|buildid!DEC:4|versionsname!STRING:0|productconfig!HEX:16\n1|us|abcd1234abcd1234|cdef5678cdef5678|def90123def90123|12345|1.0.0|fedcba09fedcba09\n";
pub const BPSV_VICTIM: &str = "##seqn!DEC:4|region!STRING:0|buildconfig!HEX:16|cdnconfig!HEX:16|keyring!HEX:16|buildid!DEC:4|versionsname!STRING:0|productconfig!HEX:16\n7|victimregion|abcd1234abcd1234|cdef5678cdef5678|def90123def90123|777|9.9.9|fedcba09fedcba09\n";

fn find(h: &[u8], n: &[u8]) -> bool {
    h.windows(n.len()).any(|w| w == n)
}

/// Binds 127.0.0.1:0, spawns the accept loop on the current runtime, returns the port.
pub async fn start(http_body: Vec<u8>, ribbit_body: Vec<u8>) -> std::io::Result<u16> {
    let listener = TcpListener::bind("127.0.0.1:0").await?;
    let port = listener.local_addr()?.port();
    tokio::spawn(async move {
        loop {
            let Ok((mut s, _)) = listener.accept().await else { break };
            let http_body = http_body.clone();
            let ribbit_body = ribbit_body.clone();
            tokio::spawn(async move {
                let mut buf: Vec<u8> = Vec::new();
                let mut tmp = [0u8; 4096];
                let is_http = |b: &[u8]| b.starts_with(b"GET ") || b.starts_with(b"HEAD ") || b.starts_with(b"POST ");
                loop {
                    match s.read(&mut tmp).await {
                        Ok(0) => break,
                        Ok(n) => {
                            buf.extend_from_slice(&tmp[..n]);
                            if is_http(&buf) {
                                if find(&buf, b"\r\n\r\n") {
                                    break;
                                }
                            } else if buf.len() >= 5 && buf.contains(&b'\n') {
                                break;
                            }
                            if buf.len() > 1 << 20 {
                                break;
                            }
                        }
                        Err(_) => return,
                    }
                }
                if is_http(&buf) {
                    let head = format!(
                        "HTTP/1.1 200 OK\r\nContent-Type: application/octet-stream\r\nContent-Length: {}\r\nConnection: close\r\n\r\n",
                        http_body.len()
                    );
                    let _ = s.write_all(head.as_bytes()).await;
                    if !buf.starts_with(b"HEAD ") {
                        let _ = s.write_all(&http_body).await;
                    }
                } else {
                    let _ = s.write_all(&ribbit_body).await;
                }
                let _ = s.shutdown().await;
            });
        }
    });
    Ok(port)
}

fn spawn_global(http_body: Vec<u8>, ribbit_body: Vec<u8>) -> Result<u16, String> {
    let (tx, rx) = std::sync::mpsc::channel();
    std::thread::Builder::new()
        .name("c20-mock".into())
        .spawn(move || {
            let rt = match tokio::runtime::Builder::new_multi_thread().worker_threads(2).enable_all().build() {
                Ok(r) => r,
                Err(e) => {
                    let _ = tx.send(Err(e.to_string()));
                    return;
                }
            };
            rt.block_on(async move {
                match start(http_body, ribbit_body).await {
                    Ok(p) => {
                        let _ = tx.send(Ok(p));
                        std::future::pending::<()>().await;
                    }
                    Err(e) => {
                        let _ = tx.send(Err(e.to_string()));
                    }
                }
            });
        })
        .map_err(|e| e.to_string())?;
    rx.recv().map_err(|e| e.to_string())?
}

/// port of the process-wide Ribbit/TACT mock (BPSV answers)
pub fn ribbit_port() -> Result<u16, String> {
    static P: std::sync::OnceLock<Result<u16, String>> = std::sync::OnceLock::new();
    P.get_or_init(|| spawn_global(BPSV.as_bytes().to_vec(), format!("{BPSV}\n").into_bytes())).clone()
}

pub const CDN_BODY: &[u8] = b"MOCK-CDN-BODY";

/// port of the process-wide CDN mock
pub fn cdn_port() -> Result<u16, String> {
    static P: std::sync::OnceLock<Result<u16, String>> = std::sync::OnceLock::new();
    P.get_or_init(|| spawn_global(CDN_BODY.to_vec(), CDN_BODY.to_vec())).clone()
}
