//! C20 — no key or endpoint string makes the library touch files outside its
//! directories. Hostile strings for every public API that turns a string into a
//! file-system path or URL; oracle = recursive before/after listing of a sandbox
//! parent directory, injectivity of well-formed typed keys, no panic.
//!
//! SAFETY: the sandbox runs as root. See sandbox.rs (lexical resolver, guard
//! directories) and strs.rs (bounded `..`, absolute strings only below the sandbox).

mod common;
mod disk;
mod strs;
mod mock;
mod proto;
mod sandbox;
mod storage;

use std::sync::Arc;
use std::sync::atomic::Ordering;
use vh_engine::{Check, Section};

fn main() {
    let mut ck = Check::from_args("C20", "exploration");
    let tier = ck.tier;
    ck.extra(
        "rule",
        "hostile strings built from path components (`..`, `.`, empty, names with dots/colons/backslashes/unicode, > 255-byte names), optional \
         leading/trailing '/', '.'-suffixes; absolute strings only as <sandbox>/outside/...; each API configured with <sandbox>/l1/../l8/root; \
         non-trivial = string (or a typed-key field / CDN path / archive key) containing a separator, a `..`, a leading '/', a '.' in its last \
         component or > 255 bytes (CDN: also key < 2 bytes, length 0, offset+length > u64; fixed-width builders: a '.', '/', '\\' or NUL byte in \
         the binary key; injectivity section: every pair of different well-formed keys); distinct by case hash"
            .into(),
    );
    ck.assume("the recursive listing (names, kinds, sizes; content hash and mtime outside root) observes every create/change/remove outside the configured directory; reads outside are observed only through a planted file whose contents come back from get/query/download");
    ck.assume("calls whose string could lexically leave the per-case sandbox parent (more than 8 net `..`, absolute path elsewhere) are not executed (class skipped_unsafe): the sandbox runs as root");
    ck.assume("no symlinks exist in the sandbox, so lexical and physical `..` resolution agree");
    ck.assume("CDN host strings are restricted to spellings that still connect to the loopback mock (userinfo prefix, path/query/fragment tail); other host names would need DNS");
    let known = Arc::new(ck.known().clone());

    let k = known.clone();
    ck.run(Section::pbt("disk-cache-free-string-key", tier.pick(4000, 400_000), disk::strkey_strategy, move |c| disk::check_strkey(c, &k)).shards(12));
    let k = known.clone();
    ck.run(Section::pbt("disk-cache-typed-key-hostile-fields", tier.pick(4000, 400_000), disk::typed_strategy, move |c| disk::check_typed(c, &k)).shards(12));
    let k = known.clone();
    ck.run(Section::pbt("typed-key-injectivity", tier.pick(4000, 400_000), disk::pair_strategy, move |c| disk::check_pair(c, &k)).shards(12));
    let k = known.clone();
    ck.run(
        Section::enumerate(
            "typed-key-pairs-with-equal-lookup3-hash",
            "three pairs of well-formed Ribbit keys whose cache key strings collide under the 64-bit lookup3 hash (constructed), flat and hashed layouts: put(a, A), put(b, B), get(a) = A, get(b) = B, two files, also for a fresh instance",
            || Box::new(disk::colliding_pairs().into_iter()),
            move |c| disk::check_pair(c, &k),
        )
        .shards(9),
    );
    let k = known.clone();
    ck.run(Section::pbt("protocol-cache", tier.pick(3000, 300_000), proto::protocache_strategy, move |c| proto::check_protocache(c, &k)).shards(8));
    let k = known.clone();
    ck.run(Section::pbt("protocol-cache-key-pairs", tier.pick(3000, 300_000), proto::protopair_strategy, move |c| proto::check_protopair(c, &k)).shards(8));
    let k = known.clone();
    ck.run(Section::pbt("ribbit-query", tier.pick(2000, 100_000), proto::query_strategy, move |c| proto::check_query(c, &k)).shards(12));
    let k = known.clone();
    ck.run(Section::pbt("cdn-client", tier.pick(3000, 150_000), proto::cdn_strategy, move |c| proto::check_cdn(c, &k)).shards(12));
    let k = known.clone();
    ck.run(Section::pbt("open-installation", tier.pick(3000, 300_000), storage::install_strategy, move |c| storage::check_install(c, &k)).shards(8));
    let k = known.clone();
    ck.run(Section::pbt("fixed-width-path-builders", tier.pick(3000, 300_000), storage::fixed_strategy, move |c| storage::check_fixed(c, &k)).shards(8));

    let k = known.clone();
    ck.run(Section::pbt("hardlink-container-ops", tier.pick(3000, 200_000), storage::hardlink_strategy, move |c| storage::check_hardlink(c, &k)).shards(8));

    let t = common::TIMEOUTS.load(Ordering::Relaxed);
    if t > 0 {
        ck.infra(format!("{t} networked case(s) did not finish within the watchdog limit (not a verdict)"));
    }
    let msgs: Vec<String> = common::INFRA.lock().unwrap().clone();
    for m in msgs {
        ck.infra(m);
    }
    ck.finish();
}
