//! Storage::open_installation(name) and the fixed-width path builders.

use crate::common::{J, confined, end_of_case, escape_key, infra, string_classes};
use crate::strs;
use crate::sandbox::{Sandbox, nontrivial};
use cascette_client_storage::container::hardlink::format_content_key_path;
use cascette_client_storage::index::IndexManager;
use cascette_client_storage::lru::lru_file::{filename_to_generation, generation_to_filename, lru_file_path};
use cascette_client_storage::{Storage, StorageConfig};
use cascette_crypto::EncodingKey;
use proptest::prelude::*;
use serde::{Deserialize, Serialize};
use std::path::{Component, Path};
use std::sync::Arc;
use vh_engine::util::catch_panic;
use vh_engine::{Known, Verdict};

#[derive(Debug, Clone, Serialize, Deserialize)]
pub struct InstallCase {
    /// may start with the `<PARENT>` token
    pub name: String,
    pub open_twice: bool,
}

pub fn install_strategy() -> BoxedStrategy<InstallCase> {
    (strs::free_string(), any::<bool>()).prop_map(|(name, open_twice)| InstallCase { name, open_twice }).boxed()
}

pub fn check_install(c: &InstallCase, known: &Arc<Known>) -> Verdict {
    let sb = match Sandbox::new() {
        Ok(s) => s,
        Err(e) => {
            infra(format!("sandbox: {e}"));
            return Verdict::pass();
        }
    };
    let name = sb.realise(&c.name);
    let mut j = J::new(known);
    string_classes(&mut j, &name);
    // the installation directory gets `data` and `indices` children: a target strictly
    // inside parent keeps them inside parent too
    let Some(target) = sb.resolve(&name) else {
        j.class("skipped_unsafe");
        return j.finish(false);
    };
    j.class_if(!sb.is_under_root(&target), "denotes-path-outside-root");
    let ekey = escape_key("storage:open-installation", "name", "base-path", &name);
    let mut before = sb.list();
    let storage = match catch_panic(|| Storage::new(StorageConfig::new(&sb.root))) {
        Ok(Ok(s)) => s,
        Ok(Err(e)) => {
            infra(format!("Storage::new: {e}"));
            return Verdict::pass();
        }
        Err(p) => {
            j.report("C20:storage:new:panic".into(), format!("panic at {}:{}: {}", p.file, p.line, p.msg));
            return j.finish(true);
        }
    };
    if confined(&sb, &mut before, &mut j, "C20:storage:new-touches-files-outside-base-path", "Storage::new", "") {
        return j.finish(true);
    }
    for round in 0..(1 + c.open_twice as usize) {
        match catch_panic(|| storage.open_installation(&name).map(|_| ())) {
            Err(p) => {
                if j.report("C20:storage:open-installation:panic".into(), format!("open_installation({name:?}) panicked at {}:{}: {}", p.file, p.line, p.msg)) {
                    return j.finish(true);
                }
            }
            Ok(r) => {
                if round == 0 {
                    j.class_if(r.is_ok(), "open-ok");
                    j.class_if(r.is_err(), "open-err");
                }
            }
        }
        if confined(&sb, &mut before, &mut j, &ekey, "Storage::open_installation", &name) {
            return j.finish(true);
        }
    }
    end_of_case(&sb);
    j.finish(nontrivial(&name))
}

// ------------------------------------------------------------------ fixed-width builders

#[derive(Debug, Clone, Serialize, Deserialize)]
pub struct FixedCase {
    pub ekey_a: [u8; 9],
    pub ekey_b: [u8; 9],
    pub gen_a: u64,
    pub gen_b: u64,
    /// keys added to an IndexManager before `save_all` (file names on disk)
    pub idx_keys: Vec<[u8; 16]>,
}

fn hostile_bytes9() -> BoxedStrategy<[u8; 9]> {
    prop_oneof![
        2 => any::<[u8; 9]>(),
        2 => proptest::collection::vec(prop_oneof![Just(0x2eu8), Just(0x2fu8), Just(0u8), Just(0x5cu8), Just(0xffu8), any::<u8>()], 9).prop_map(|v| {
            let mut a = [0u8; 9];
            a.copy_from_slice(&v);
            a
        }),
    ]
    .boxed()
}

pub fn fixed_strategy() -> BoxedStrategy<FixedCase> {
    let g = || prop_oneof![Just(0u64), Just(u64::MAX), Just(0x2e2e_2f2e_2e2f_2e2eu64), any::<u64>(), 0u64..1000];
    (hostile_bytes9(), hostile_bytes9(), g(), g(), proptest::collection::vec(any::<[u8; 16]>(), 0..3))
        .prop_map(|(ekey_a, ekey_b, gen_a, gen_b, idx_keys)| FixedCase { ekey_a, ekey_b, gen_a, gen_b, idx_keys })
        .boxed()
}

fn lower_hex(s: &str) -> bool {
    !s.is_empty() && s.bytes().all(|b| b.is_ascii_digit() || (b'a'..=b'f').contains(&b))
}

/// every component below `base` is a plain name
fn below(base: &Path, p: &Path) -> Option<Vec<String>> {
    let rest = p.strip_prefix(base).ok()?;
    let mut v = Vec::new();
    for c in rest.components() {
        match c {
            Component::Normal(n) => v.push(n.to_str()?.to_string()),
            _ => return None,
        }
    }
    Some(v)
}

pub fn check_fixed(c: &FixedCase, known: &Arc<Known>) -> Verdict {
    let mut j = J::new(known);
    let base = Path::new("/sandbox/base");
    // hard-link container: XX/YY/14 hex characters
    let pa = format_content_key_path(base, &c.ekey_a);
    let pb = format_content_key_path(base, &c.ekey_b);
    for (k, p) in [(&c.ekey_a, &pa), (&c.ekey_b, &pb)] {
        let ok = below(base, p).map(|v| v.len() == 3 && v[0].len() == 2 && v[1].len() == 2 && v[2].len() == 14 && v.iter().all(|x| lower_hex(x)) && v.concat() == hex::encode(k));
        if ok != Some(true) {
            j.report("C20:hardlink:content-key-path-not-three-hex-components-below-base".into(), format!("ekey={} path={}", hex::encode(k), p.display()));
            return j.finish(true);
        }
    }
    if (c.ekey_a != c.ekey_b) != (pa != pb) {
        j.report("C20:hardlink:content-key-path-not-injective".into(), format!("{} / {} -> {} / {}", hex::encode(c.ekey_a), hex::encode(c.ekey_b), pa.display(), pb.display()));
        return j.finish(true);
    }
    // lru files: 16 hex characters + ".lru", directly below dir
    for g in [c.gen_a, c.gen_b] {
        let name = generation_to_filename(g);
        let p = lru_file_path(base, g);
        let ok = name.len() == 20 && name.ends_with(".lru") && lower_hex(&name[..16]) && below(base, &p) == Some(vec![name.clone()]) && filename_to_generation(&name) == Some(g);
        if !ok {
            j.report("C20:lru:file-name-not-16-hex-dot-lru-below-dir".into(), format!("generation={g:#x} name={name:?} path={}", p.display()));
            return j.finish(true);
        }
    }
    if (c.gen_a != c.gen_b) != (generation_to_filename(c.gen_a) != generation_to_filename(c.gen_b)) {
        j.report("C20:lru:file-name-not-injective".into(), format!("{:#x} / {:#x}", c.gen_a, c.gen_b));
        return j.finish(true);
    }
    // index files as written to disk
    if !c.idx_keys.is_empty() {
        let sb = match Sandbox::new() {
            Ok(s) => s,
            Err(e) => {
                infra(format!("sandbox: {e}"));
                return Verdict::pass();
            }
        };
        let mut before = sb.list();
        let mut mgr = IndexManager::new(&sb.root);
        for (i, k) in c.idx_keys.iter().enumerate() {
            let _ = mgr.add_entry(&EncodingKey::from_bytes(*k), 1, (i as u32) * 64, 32);
        }
        match catch_panic(|| mgr.save_all()) {
            Err(p) => {
                j.report("C20:index:save-all-panic".into(), format!("panic at {}:{}: {}", p.file, p.line, p.msg));
                return j.finish(true);
            }
            Ok(r) => j.class_if(r.is_ok(), "index-saved"),
        }
        if confined(&sb, &mut before, &mut j, "C20:index:save-all-touches-files-outside-its-directory", "IndexManager::save_all", "") {
            return j.finish(true);
        }
        if let Ok(rd) = std::fs::read_dir(&sb.root) {
            for e in rd.flatten() {
                let n = e.file_name().to_string_lossy().into_owned();
                if !n.ends_with(".idx") {
                    continue;
                }
                let ok = n.len() == 14 && lower_hex(&n[..10]) && e.path().is_file();
                if !ok {
                    j.report("C20:index:file-name-not-10-hex-dot-idx".into(), format!("unexpected entry {n:?} in the index directory"));
                    return j.finish(true);
                }
            }
        }
        end_of_case(&sb);
    }
    let special = |k: &[u8]| k.iter().any(|b| matches!(b, 0x2e | 0x2f | 0 | 0x5c));
    let nt = special(&c.ekey_a) || special(&c.ekey_b) || special(&c.gen_a.to_be_bytes());
    j.class_if(nt, "dot-slash-nul-byte-in-key");
    j.class_if(!c.idx_keys.is_empty(), "index-files-on-disk");
    j.finish(nt)
}

// ------------------------------------------------------------------ hard link container: what its operations remove

/// A `HardLinkContainer` over the configured directory, initialised or not (a container opened
/// on an existing directory has no `.trie_directory` token), holding a few key files that share
/// trie levels; then deletions in batches, single removals, clean and compact. Whatever empties
/// the trie, nothing outside the directory may change and the directory itself stays.
#[derive(Debug, Clone, Serialize, Deserialize)]
pub enum HOp {
    /// `delete_keys` with the pool keys selected by the bit mask
    DeleteKeys(u8),
    /// `remove_file(key, path_for_key)` of pool key #i
    RemoveFile(u8),
    /// `Container::remove` of pool key #i (needs `test_support` to have succeeded)
    Remove(u8),
    Clean,
    Compact,
    /// the harness files pool key #i again (as `create_link` would)
    Place(u8),
}

#[derive(Debug, Clone, Serialize, Deserialize)]
pub struct HardLinkCase {
    pub initialize: bool,
    pub test_support: bool,
    /// pool keys filed at the start (bit mask)
    pub placed: u8,
    pub ops: Vec<HOp>,
}

const HPOOL: [[u8; 3]; 6] = [[0x01, 0xaa, 0x10], [0x01, 0xaa, 0x20], [0x01, 0xbb, 0x30], [0x02, 0xcc, 0x40], [0x2e, 0x2e, 0x50], [0xff, 0x00, 0x60]];

fn hkey(i: usize) -> [u8; 16] {
    let mut k = [0x5au8; 16];
    k[..3].copy_from_slice(&HPOOL[i % HPOOL.len()]);
    k
}

pub fn hardlink_strategy() -> BoxedStrategy<HardLinkCase> {
    let op = prop_oneof![
        6 => any::<u8>().prop_map(HOp::DeleteKeys),
        2 => (0u8..6).prop_map(HOp::RemoveFile),
        2 => (0u8..6).prop_map(HOp::Remove),
        1 => Just(HOp::Clean),
        1 => Just(HOp::Compact),
        2 => (0u8..6).prop_map(HOp::Place),
    ];
    (prop::bool::weighted(0.5), any::<bool>(), prop_oneof![2 => 1u8..64, 1 => Just(63u8), 1 => Just(1u8)], proptest::collection::vec(op, 1..8))
        .prop_map(|(initialize, test_support, placed, ops)| HardLinkCase { initialize, test_support, placed, ops })
        .boxed()
}

pub fn check_hardlink(c: &HardLinkCase, known: &Arc<Known>) -> Verdict {
    use cascette_client_storage::container::{AccessMode, Container, HardLinkContainer};
    let sb = match Sandbox::new() {
        Ok(s) => s,
        Err(e) => {
            infra(format!("sandbox: {e}"));
            return Verdict::pass();
        }
    };
    let mut j = J::new(known);
    let rt = tokio::runtime::Builder::new_current_thread().enable_all().build().expect("runtime");
    let mut cont = HardLinkContainer::new(AccessMode::ReadWrite, sb.root.clone());
    let mut before = sb.list();
    if c.initialize {
        if let Err(e) = rt.block_on(cont.initialize()) {
            infra(format!("HardLinkContainer::initialize: {e}"));
            return Verdict::pass();
        }
    }
    if c.test_support {
        // both test directories inside the configured directory
        let (s, t) = (sb.root.join("ts-src"), sb.root.join("ts-dst"));
        let _ = std::fs::create_dir_all(&s);
        let _ = std::fs::create_dir_all(&t);
        let _ = cont.test_support(&s, &t);
        let _ = std::fs::remove_dir(&s);
        let _ = std::fs::remove_dir(&t);
    }
    if confined(&sb, &mut before, &mut j, "C20:hardlink-container:setup-touches-files-outside", "HardLinkContainer::initialize/test_support", "") {
        return j.finish(true);
    }
    let place = |i: usize| {
        let k = hkey(i);
        let mut e = [0u8; 9];
        e.copy_from_slice(&k[..9]);
        let p = format_content_key_path(&sb.root, &e);
        if let Some(d) = p.parent() {
            let _ = std::fs::create_dir_all(d);
        }
        let _ = std::fs::write(&p, b"content");
        p
    };
    let path_of = |i: usize| {
        let k = hkey(i);
        let mut e = [0u8; 9];
        e.copy_from_slice(&k[..9]);
        format_content_key_path(&sb.root, &e)
    };
    for i in 0..HPOOL.len() {
        if c.placed >> i & 1 == 1 {
            place(i);
        }
    }
    before = sb.list();
    let key_files = |l: &crate::sandbox::Listing| sb.files_in_root(l);
    let mut emptied = false;
    for (n, op) in c.ops.iter().enumerate() {
        let call: String;
        let r = catch_panic(|| match op {
            HOp::DeleteKeys(mask) => {
                let keys: Vec<[u8; 16]> = (0..HPOOL.len()).filter(|i| mask >> i & 1 == 1).map(hkey).collect();
                cont.delete_keys(&keys).map(|_| ())
            }
            HOp::RemoveFile(i) => cont.remove_file(&hkey(*i as usize), &path_of(*i as usize)),
            HOp::Remove(i) => rt.block_on(cont.remove(&hkey(*i as usize))),
            HOp::Clean => cont.clean_directory().map(|_| ()),
            HOp::Compact => cont.compact_directory().map(|_| ()),
            HOp::Place(i) => {
                place(*i as usize);
                Ok(())
            }
        });
        call = format!("op #{n} {op:?} (initialised: {}, keys filed at the start: {:#08b})", c.initialize, c.placed);
        if let Err(p) = r {
            if j.report("C20:hardlink-container:panic".into(), format!("{call} panicked at {}:{}: {}", p.file, p.line, p.msg)) {
                return j.finish(true);
            }
        }
        if !sb.root.is_dir() {
            j.class("escaped");
            j.report("C20:hardlink-container:removes-its-own-directory-and-empty-ancestors".into(), format!("{call}: the configured directory {} is gone", sb.root.display()));
            return j.finish(true);
        }
        if confined(&sb, &mut before, &mut j, "C20:hardlink-container:operation-changes-files-outside", "HardLinkContainer", &call) {
            return j.finish(true);
        }
        if key_files(&before) == usize::from(c.initialize) && !matches!(op, HOp::Place(_)) {
            emptied = true;
        }
    }
    end_of_case(&sb);
    j.class_if(emptied, "trie-emptied");
    j.class_if(emptied && !c.initialize, "trie-emptied-without-token-file");
    j.class_if(c.initialize, "initialised");
    j.finish(emptied)
}
