#![no_main]
//! Coverage-guided campaign for C02: byte 0 selects the parser target, the rest is its input.
//! Oracle: no panic (libFuzzer reports it as a crash), no single allocation above the
//! -malloc_limit_mb given on the command line, no input slower than -timeout.
use libfuzzer_sys::fuzz_target;
use vh_c02::targets::TARGETS;

fuzz_target!(|data: &[u8]| {
    if data.is_empty() {
        return;
    }
    let t = &TARGETS[data[0] as usize % TARGETS.len()];
    // file-system backed targets are slow under the fuzzer and covered by the iso engine
    if matches!(t.name, "idx-names") {
        return;
    }
    let _ = (t.run)(&data[1..]);
});
