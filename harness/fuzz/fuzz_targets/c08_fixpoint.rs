#![no_main]
//! Coverage-guided campaign for C08 part A: byte 0 selects the CascFormat target; the in-target
//! oracle is the parse->build->parse->build fixed point with logical projections. A failure whose
//! key is an open known finding (keys passed in VH_FUZZ_KNOWN, '\n'-separated) is tolerated so the
//! campaign keeps searching behind it.
use libfuzzer_sys::fuzz_target;
use std::sync::OnceLock;
use vh_c02::targets::{CASC_TARGETS, FIXPOINT, TARGETS, target_index};

static KNOWN: OnceLock<Vec<String>> = OnceLock::new();

fuzz_target!(|data: &[u8]| {
    if data.is_empty() {
        return;
    }
    FIXPOINT.store(true, std::sync::atomic::Ordering::Relaxed);
    let name = CASC_TARGETS[data[0] as usize % CASC_TARGETS.len()];
    let Some(ti) = target_index(name) else { return };
    let out = (TARGETS[ti].run)(&data[1..]);
    if let Some((key, msg)) = out.fail {
        let known = KNOWN.get_or_init(|| std::env::var("VH_FUZZ_KNOWN").unwrap_or_default().lines().map(str::to_string).collect());
        let full = format!("C08:{key}");
        if !known.iter().any(|k| k == &full) {
            panic!("C08 fixed-point oracle failed: key={full} msg={msg}");
        }
    }
});
