#![no_main]
//! Coverage-guided campaign for C01: the input bytes are decoded (arbitrary::Unstructured) into a
//! BLTE *builder program*; the in-target oracle is C01's own: round trip through the library and
//! through the independent decoder + chunk table audit (harness/c01/src/{program,oracle,decoder}.rs,
//! included by path). With VH_FUZZ_DUMP_REPLAY=<file> the decoded program is written as a C01 replay
//! file instead of being judged (used to turn a crash artifact into a replay).
#![allow(dead_code)]
use arbitrary::Unstructured;
use cascette_formats::CascFormat;
use libfuzzer_sys::fuzz_target;

#[path = "../../c01/src/decoder.rs"]
mod decoder;
#[path = "../../c01/src/oracle.rs"]
mod oracle;
#[path = "../../c01/src/program.rs"]
mod program;

use program::{Built, Cipher, KeyEntry, Len, M, Op, PClass, Payload, Program, Spec};

fn payload(u: &mut Unstructured) -> arbitrary::Result<Payload> {
    let len = match u.int_in_range(0..=5u8)? {
        0 => Len::Abs(0),
        1 => Len::Abs(1),
        2 => Len::Abs(u.int_in_range(2..=63usize)?),
        3 => Len::Abs(u.int_in_range(64..=2047usize)?),
        4 => Len::Abs(u.int_in_range(2048..=16384usize)?),
        _ => Len::Chunk { k: u.int_in_range(0..=4u8)?, delta: u.int_in_range(-1..=1i8)? },
    };
    let class = match u.int_in_range(0..=5u8)? {
        0 => PClass::Random,
        1 => PClass::Run,
        2 => PClass::Pattern,
        3 => PClass::FirstByte(*u.choose(b"NZ4EF")?),
        4 => PClass::NestedBlte,
        _ => PClass::LooksEncrypted,
    };
    Ok(Payload { len, class, content_seed: u.arbitrary()? })
}

fn spec(u: &mut Unstructured) -> arbitrary::Result<Spec> {
    Ok(Spec { cipher: match u.int_in_range(0..=15u8)? {
            0..=9 => Cipher::Salsa20,
            10..=14 => Cipher::Arc4,
            _ => Cipher::Other(u.arbitrary()?),
        }, key_ix: u.int_in_range(0..=3u16)?, iv: u.arbitrary()? })
}

fn mode(u: &mut Unstructured) -> arbitrary::Result<M> {
    Ok(match u.int_in_range(0..=9u8)? {
        0..=2 => M::N,
        3..=5 => M::Z,
        6..=8 => M::L4,
        _ => {
            if u.arbitrary()? {
                M::E
            } else {
                M::F
            }
        }
    })
}

fn decode(data: &[u8]) -> arbitrary::Result<Program> {
    let mut u = Unstructured::new(data);
    let nk = u.int_in_range(1..=3usize)?;
    let mut keys = Vec::new();
    for _ in 0..nk {
        keys.push(KeyEntry { name: *u.choose(&[0u64, u64::MAX, 0x1122_3344_5566_7788, 0xFA50_5078_126A_CB3E])?, key: u.arbitrary()? });
    }
    let mut ops = Vec::new();
    let n = u.int_in_range(1..=14usize)?;
    for _ in 0..n {
        ops.push(match u.int_in_range(0..=10u8)? {
            0 => Op::Compression(mode(&mut u)?),
            1 => Op::ChunkSize(*u.choose(&[0usize, 1, 1024, 4096, 65536, 1 << 30])?),
            2 => Op::ChunkSizeUnchecked(*u.choose(&[1usize, 2, 3, 5, 16, 64, 255, 256, 1024, 4096])?),
            3 => Op::Encryption(spec(&mut u)?),
            4 => Op::NoEncryption,
            5 | 6 => Op::AddData(payload(&mut u)?),
            7 => Op::AddMixed(payload(&mut u)?, if u.arbitrary()? { Some(spec(&mut u)?) } else { None }),
            8 => Op::AddEncrypted(payload(&mut u)?, spec(&mut u)?),
            _ => Op::AddChunk(payload(&mut u)?, mode(&mut u)?),
        });
    }
    Ok(Program { keys, builtin_store: u.arbitrary()?, cap: 16 * 1024, ops })
}

fuzz_target!(|data: &[u8]| {
    let Ok(p) = decode(data) else { return };
    if let Ok(path) = std::env::var("VH_FUZZ_DUMP_REPLAY") {
        let rf = serde_json::json!({"property": "C01", "section": "builder-programs", "key": "libfuzzer-artifact", "msg": "", "case": p});
        let _ = std::fs::write(path, serde_json::to_string_pretty(&rf).unwrap());
        return;
    }
    let keys = program::resolve_keys(&p);
    let (built, m) = program::interpret(&p, &keys.map);
    let Built::Ok(file) = built else { return };
    let Ok(bytes) = CascFormat::build(&file) else { return };
    let j = oracle::judge(&bytes, &m, &keys.map, &keys.store);
    if let Some(f) = j.findings.first() {
        let known = std::env::var("VH_FUZZ_KNOWN").unwrap_or_default();
        if !known.lines().any(|k| k == f.key) {
            panic!("C01 oracle failed: key={} msg={}", f.key, f.msg);
        }
    }
});
