//! History interpreter and the per-key, per-layer model of DESIGN.md §3 C12.
//!
//! Model. For every key: `latest` = the most recent successful put of the key
//! (to any layer, by any put operation) since the last remove / clear /
//! validation drop, and per layer a *slot* = the only content that layer may
//! hold for the key (the last write into that layer), with
//!   certain  the layer holds it for sure (memory layers: no eviction can have
//!            happened since; the disk layer and the 8-entry middle layer never
//!            evict within a case because the key pool has at most 6 keys; a newer
//!            put of the key into another layer ends the certainty, because a
//!            cache may invalidate the older copies on a write),
//!   zero     written with `Duration::ZERO` (already expired, must not be served),
//!   tainted  the disk file was overwritten / truncated by a fault (content known),
//!   deleted  the disk file was deleted by a fault.
//!
//! Hard clauses (statement of C12):
//!   H1  a returned value is content some consulted layer may hold: it was put for
//!       that key and not followed by remove / clear / validation drop (or it is
//!       the content a fault planted in the disk file, for an unvalidated read);
//!   H2  after remove / clear every layer misses (`get`, `get_from_layer`, `contains`);
//!   H3  a miss is a violation while some layer certainly holds a live entry
//!       ("an entry present only in a slower layer is still found");
//!   H4  faster layers first: a value served by layer s while a faster layer
//!       certainly holds a live entry is a violation; a `get` preceded by a
//!       layer-by-layer probe returns exactly the first layer hit of the probe;
//!   H5  hooks + content key: `Ok(Some(b))` only if MD5(b) == key; `Err` only if
//!       some layer may hold content that does not hash to the key, and after it
//!       every layer misses (the entry was dropped everywhere);
//!   H6  batch_get = element-wise single get; batch_put = sequence of puts;
//!   H7  every call returns (watchdog in main.rs; the op in flight is in `Progress`).
//! Latest-value clause:
//!   L1  a hit of the multi-layer lookup that is content of an *older* put than
//!       `latest` is a stale value (two root causes, two keys).

use crate::sut::{HOUR, Hooks, Layout, MID_CAP, Pol, Strat, Sut};
use serde::{Deserialize, Serialize};
use std::collections::BTreeSet;
use std::path::Path;
use std::sync::atomic::{AtomicBool, Ordering};
use std::sync::{Arc, Mutex};
use std::time::Duration;
use vh_engine::util::Rng;
use vh_engine::{Known, Verdict};

pub const K_HANG: &str = "C12:multi:get-never-returns:lower-layer-hit-of-tracked-key";
pub const K_STALE_LOWER: &str = "C12:multi:get-serves-stale-value:older-value-left-in-slower-layer";
pub const K_STALE_LOWER_LAYER_API: &str = "C12:multi:get-serves-stale-value:put_to_layer-leaves-older-value-in-slower-layer";
pub const K_STALE_UPPER: &str = "C12:multi:get-serves-stale-value:put_to_layer-leaves-older-value-in-faster-layer";

/// Set once a real execution has hung twice on the predicted self-deadlock in
/// this process: later cases whose tracker model predicts the same hang (while
/// proptest shrinks) fail at once instead of waiting for the watchdog again.
/// Never set in `--replay` mode before the single replayed case runs.
pub static HANG_CONFIRMED: AtomicBool = AtomicBool::new(false);

#[derive(Debug, Clone, Copy, PartialEq, Eq, Serialize, Deserialize)]
pub enum Expect {
    /// `get_with_validation(key, None)`
    NoKey,
    /// content key of the latest put of the key (what a caller that knows the content asks for)
    Latest,
    /// content key of an older value of the key
    Older { which: u16 },
    /// content key of bytes that were never stored
    Garbage,
}

#[derive(Debug, Clone, Copy, PartialEq, Eq, Serialize, Deserialize)]
pub enum FaultKind {
    Overwrite { len: usize },
    /// keep `pick_idx(keep, current_len)` bytes (strictly fewer than now)
    Truncate { keep: u16 },
    Delete,
}

#[derive(Debug, Clone, Serialize, Deserialize)]
pub enum Op {
    Put { k: usize, len: usize },
    PutTtl { k: usize, len: usize, zero: bool },
    PutToLayer { k: usize, len: usize, layer: u8 },
    /// `probe`: look the key up layer by layer first (H4 differential)
    Get { k: usize, probe: bool },
    GetFromLayer { k: usize, layer: u8 },
    Promote { k: usize, from: u8, to: u8 },
    Remove { k: usize },
    Clear,
    Contains { k: usize },
    BatchGet { ks: Vec<usize> },
    BatchPut { items: Vec<(usize, usize)> },
    /// `wrong`: the supplied content key belongs to other bytes
    PutValidated { k: usize, len: usize, wrong: bool },
    /// `damaged: Some(sel)`: when some keys have a damaged (overwritten / truncated / deleted)
    /// disk file, look up the `sel`-th of them instead of `k`
    GetValidated { k: usize, expect: Expect, damaged: Option<u16> },
    /// fault on the value file of the `sel`-th key that has an intact-looking file in the
    /// disk layer (no-op when the disk layer has no file)
    Fault { sel: u16, kind: FaultKind },
}

#[derive(Debug, Clone, Serialize, Deserialize)]
pub struct Case {
    pub layout: Layout,
    pub policy: Pol,
    pub strat: Strat,
    pub hooks: Hooks,
    pub key_style: u8,
    /// number of keys, 1..=6
    pub pool: usize,
    pub content_seed: u64,
    pub ops: Vec<Op>,
    /// byte budget of the first layer (`max_memory_bytes`); None = unlimited, eviction by count only
    #[serde(default)]
    pub l0_bytes: Option<u32>,
}

/// Pool key `i` under naming scheme `style`: safe single-component file names,
/// unique per index, never ending in ".tmp", and no two of them share a stem
/// (the disk cache's temporary file is `<stem>.tmp`).
/// Spellings a file-name sanitiser would fold together; neighbours 2j / 2j+1 of the pool are a pair.
const CONFUSABLE: [(&str, &str); 6] = [("ribbit:us_wow:versions", "ribbit:us:wow:versions"), ("a:b", "a_b"), ("p|q", "p_q"), ("s*t", "s_t"), ("q?r", "q_r"), ("Key", "key")];

pub fn key_name(style: u8, i: usize) -> String {
    if style >= 240 {
        let (a, b) = CONFUSABLE[(i / 2 + usize::from(style - 240)) % CONFUSABLE.len()];
        return (if i % 2 == 0 { a } else { b }).to_string();
    }
    match style % 6 {
        0 => format!("k{i}"),
        1 => format!("ribbit:us:ep{i}"),
        2 => format!("cfg-v{i}.dat"),
        3 => format!("{i}"),
        4 => format!("K_{i}-x"),
        _ => format!("{}{i}", "a".repeat(120)),
    }
}

pub fn md5(b: &[u8]) -> [u8; 16] {
    vh_engine::refimpl::md5::md5(b)
}

#[derive(Debug, Clone)]
struct Slot {
    bytes: Vec<u8>,
    /// serial of the put that produced the content (copies made by promote keep it)
    serial: u64,
    zero: bool,
    certain: bool,
    tainted: bool,
    deleted: bool,
}

impl Slot {
    fn live(&self) -> bool {
        !self.zero && !self.deleted
    }
}

#[derive(Debug, Clone)]
struct Latest {
    serial: u64,
    bytes: Vec<u8>,
    layer: usize,
    /// written through `put_to_layer` (which addresses one layer and touches no other) rather than
    /// through put / put_with_ttl / put_with_validation
    via_layer_api: bool,
}

#[derive(Debug, Clone, Copy, PartialEq)]
enum DeadHow {
    Removed,
    Cleared,
    Dropped,
}

#[derive(Debug, Clone, Default)]
struct KState {
    latest: Option<Latest>,
    slots: Vec<Option<Slot>>,
    /// every value ever stored for the key (classification + Expect::Older)
    history: Vec<Vec<u8>>,
    dead: Vec<(Vec<u8>, DeadHow)>,
    /// values of put_with_validation calls that returned Err
    rejected: Vec<Vec<u8>>,
}

#[derive(Default)]
pub struct Flags {
    pub hit_layer0: bool,
    pub hit_lower: bool,
    pub miss: bool,
    pub must_hit: bool,
    pub lower_only_found: bool,
    pub stale: bool,
    pub hang_predicted: bool,
    pub tainted_served: bool,
    pub validated_ok: bool,
    pub validated_reject: bool,
    pub validated_after_fault: bool,
    pub fault_overwrite: bool,
    pub fault_truncate: bool,
    pub fault_delete: bool,
    pub fault_noop: bool,
    pub eviction_possible: bool,
    pub bytes_pressure: bool,
    pub evicted_observed: bool,
    pub promote_true: bool,
    pub remove_live: bool,
    pub clear_live: bool,
    pub batch_get: bool,
    pub batch_put: bool,
    pub probe_diff: bool,
    pub zero_ttl_put: bool,
    pub put_rejected: bool,
    pub put_validated_with_ttl: bool,
    pub abandoned: bool,
    pub layer_error_tolerated: bool,
}

/// What the case thread is doing right now (read by the watchdog after a timeout).
#[derive(Debug, Clone, Default)]
pub struct Progress {
    pub started: bool,
    /// kernel thread id of the case thread (0 = unknown)
    pub tid: i32,
    pub step: usize,
    pub what: &'static str,
    pub detail: String,
    /// the tracker model says this call re-enters the promotion-tracker lock
    pub predicted_hang: bool,
}

pub type Shared = Arc<Mutex<Progress>>;

struct Fail {
    key: String,
    msg: String,
}

type R<T = ()> = Result<T, Fail>;

#[derive(Clone, Copy, PartialEq)]
enum Via {
    /// lookup through all layers (get / batch_get element / get_with_validation)
    Multi,
    Layer(usize),
}

pub struct Interp<'a> {
    case: &'a Case,
    known: &'a Known,
    sut: Sut,
    layers: usize,
    keys: Vec<String>,
    st: Vec<KState>,
    tracked: BTreeSet<usize>,
    serial: u64,
    step: usize,
    progress: Shared,
    pub flags: Flags,
    pub known_hits: Vec<String>,
}

impl<'a> Interp<'a> {
    pub fn new(case: &'a Case, known: &'a Known, dir: &Path, progress: Shared) -> Result<Self, String> {
        let sut = Sut::new(case.layout, case.policy, case.strat, case.hooks, case.l0_bytes, dir)?;
        let pool = case.pool.clamp(1, 6);
        let layers = case.layout.layers();
        let keys: Vec<String> = (0..pool).map(|i| key_name(case.key_style, i)).collect();
        let st = (0..pool).map(|_| KState { slots: vec![None; layers], ..KState::default() }).collect();
        Ok(Interp {
            case,
            known,
            sut,
            layers,
            keys,
            st,
            tracked: BTreeSet::new(),
            serial: 0,
            step: 0,
            progress,
            flags: Flags::default(),
            known_hits: Vec::new(),
        })
    }

    // ---- helpers ------------------------------------------------------------

    fn idx(&self, k: usize) -> usize {
        k.min(self.keys.len() - 1)
    }

    fn layer(&self, l: u8) -> usize {
        (l as usize).min(self.layers - 1)
    }

    fn disk(&self) -> usize {
        self.layers - 1
    }

    fn cap(&self, layer: usize) -> Option<usize> {
        if layer == self.disk() {
            None
        } else if layer == 0 {
            Some(self.case.layout.l0_max())
        } else {
            Some(MID_CAP)
        }
    }

    fn fail(&self, what: &str, msg: String) -> Fail {
        Fail { key: format!("C12:multi:{what}"), msg: format!("op#{} [{} layers]: {}", self.step, self.layers, msg) }
    }

    /// A failure that may be a listed finding: tolerated (the history goes on)
    /// only while the key is open in known_findings.
    fn finding(&mut self, key: &str, msg: String) -> R {
        if self.known.is_open(key) {
            if !self.known_hits.iter().any(|k| k == key) {
                self.known_hits.push(key.to_string());
            }
            Ok(())
        } else {
            Err(Fail { key: key.to_string(), msg: format!("op#{} [{} layers]: {}", self.step, self.layers, msg) })
        }
    }

    fn abandon(&mut self, why: String) -> Fail {
        self.flags.abandoned = true;
        Fail { key: "ABANDON".into(), msg: why }
    }

    fn note(&self, what: &'static str, detail: String, predicted_hang: bool) {
        if let Ok(mut p) = self.progress.lock() {
            p.step = self.step;
            p.what = what;
            p.detail = detail;
            p.predicted_hang = predicted_hang;
        }
    }

    /// fresh bytes, unique within the case (4-byte serial prefix, length >= 4)
    fn fresh(&mut self, len: usize) -> (u64, Vec<u8>) {
        self.serial += 1;
        let len = len.clamp(4, 80 << 20);
        let mut v = Rng::new(self.case.content_seed ^ self.serial.wrapping_mul(0x9E37_79B9_7F4A_7C15)).bytes(len);
        v[..4].copy_from_slice(&(self.serial as u32).to_le_bytes());
        (self.serial, v)
    }

    fn short(b: &[u8]) -> String {
        let n = b.len().min(6);
        format!("{}B:{}", b.len(), b[..n].iter().map(|x| format!("{x:02x}")).collect::<String>())
    }

    // ---- model updates --------------------------------------------------------

    /// A write into memory layer `layer` is about to happen: if the layer may be
    /// full, anything in it may be evicted.
    fn before_memory_write(&mut self, layer: usize, ki: usize, incoming: usize) {
        let Some(cap) = self.cap(layer) else { return };
        let count = self.st.iter().filter(|s| s.slots[layer].is_some()).count();
        // first layer with a byte budget: the entries of the other keys plus the incoming value
        // may not fit, and then any of them may be evicted
        let over_bytes = layer == 0
            && self.case.l0_bytes.is_some_and(|b| {
                let others: usize = self.st.iter().enumerate().filter(|(i, _)| *i != ki).filter_map(|(_, s)| s.slots[0].as_ref()).map(|sl| sl.bytes.len()).sum();
                others + incoming > b as usize
            });
        if over_bytes {
            self.flags.bytes_pressure = true;
        }
        if count >= cap || over_bytes {
            if layer == 0 {
                self.flags.eviction_possible = true;
            }
            for s in &mut self.st {
                if let Some(sl) = &mut s.slots[layer] {
                    sl.certain = false;
                }
            }
        }
    }

    fn model_put(&mut self, ki: usize, layer: usize, serial: u64, bytes: Vec<u8>, zero: bool, tracks: bool) {
        self.before_memory_write(layer, ki, bytes.len());
        // a value above the first layer's byte budget can never be held there: whether the layer
        // has it is then not demanded (it has not; the statement only speaks of values a layer holds)
        let not_admitted = layer == 0 && self.case.l0_bytes.is_some_and(|b| bytes.len() > b as usize);
        let s = &mut self.st[ki];
        s.history.push(bytes.clone());
        if s.history.len() > 40 {
            s.history.remove(0);
        }
        s.latest = Some(Latest { serial, bytes: bytes.clone(), layer, via_layer_api: !tracks });
        // Whether a write invalidates the older copies in the other layers is the
        // implementation's choice: they are either still there (and must then not be
        // served: L1) or gone, so nothing may be demanded from them any more.
        for (l, sl) in s.slots.iter_mut().enumerate() {
            if l != layer {
                if let Some(x) = sl {
                    x.certain = false;
                }
            }
        }
        s.slots[layer] = Some(Slot { bytes, serial, zero, certain: !not_admitted, tainted: false, deleted: false });
        if tracks {
            self.tracked.insert(ki);
        }
        if zero {
            self.flags.zero_ttl_put = true;
        }
    }

    fn model_drop_key(&mut self, ki: usize, how: DeadHow) -> bool {
        let s = &mut self.st[ki];
        let mut had_live = false;
        for sl in s.slots.iter_mut() {
            if let Some(x) = sl.take() {
                had_live |= x.live();
                s.dead.push((x.bytes, how));
            }
        }
        if let Some(l) = s.latest.take() {
            s.dead.push((l.bytes, how));
        }
        if s.dead.len() > 60 {
            let n = s.dead.len() - 60;
            s.dead.drain(..n);
        }
        self.tracked.remove(&ki);
        had_live
    }

    // ---- judging --------------------------------------------------------------

    /// H1/H2 classification of bytes that no consulted layer may hold.
    fn unholdable(&self, op: &str, ki: usize, b: &[u8], via: Via) -> Fail {
        let key = &self.keys[ki];
        let s = &self.st[ki];
        let layers: Vec<usize> = match via {
            Via::Multi => (0..self.layers).collect(),
            Via::Layer(l) => vec![l],
        };
        let wh = match via {
            Via::Multi => String::new(),
            Via::Layer(l) => format!(" from layer {l}"),
        };
        if layers.iter().any(|&l| s.slots[l].as_ref().is_some_and(|x| x.bytes == b && x.zero)) {
            return self.fail(&format!("{op}-serves-zero-ttl-value"), format!("{op}({key:?}){wh} served {} that was stored with a ZERO TTL", Self::short(b)));
        }
        if let Some((_, how)) = s.dead.iter().rev().find(|(d, _)| d == b) {
            let (w, t) = match how {
                DeadHow::Removed => ("value-served-after-remove", "was removed"),
                DeadHow::Cleared => ("value-served-after-clear", "was there before clear()"),
                DeadHow::Dropped => ("value-served-after-validation-failure", "was dropped when get_with_validation reported it as corrupted"),
            };
            return self.fail(&format!("{op}:{w}"), format!("{op}({key:?}){wh} served {} that {t}", Self::short(b)));
        }
        if s.rejected.iter().any(|d| d == b) {
            return self.fail(&format!("{op}-serves-rejected-put"), format!("{op}({key:?}){wh} served {} whose put_with_validation returned Err", Self::short(b)));
        }
        if s.history.iter().any(|d| d == b) {
            let held: Vec<String> = (0..self.layers)
                .map(|l| match &s.slots[l] {
                    None => format!("L{l}:-"),
                    Some(x) => format!("L{l}:{}", Self::short(&x.bytes)),
                })
                .collect();
            return self.fail(
                &format!("{op}-serves-value-no-consulted-layer-can-hold"),
                format!("{op}({key:?}){wh} served {}, a value of the key that was overwritten in / never written to the consulted layer(s) (model {held:?})", Self::short(b)),
            );
        }
        for (j, o) in self.st.iter().enumerate() {
            if j != ki && (o.history.iter().any(|d| d == b) || o.slots.iter().flatten().any(|x| x.bytes == b)) {
                return self.fail(&format!("{op}-serves-other-keys-value"), format!("{op}({key:?}){wh} served {} which belongs to {:?}", Self::short(b), self.keys[j]));
            }
        }
        self.fail(&format!("{op}-serves-unknown-value"), format!("{op}({key:?}){wh} served {} that was never stored", Self::short(b)))
    }

    /// Judge a hit. `Via::Multi`: H1, H4 (certain faster layer), L1; refines the model.
    fn judge_hit(&mut self, op: &str, ki: usize, b: &[u8], via: Via) -> R {
        let key = self.keys[ki].clone();
        match via {
            Via::Layer(l) => {
                let ok = self.st[ki].slots[l].as_ref().is_some_and(|x| x.bytes == b && x.live());
                if !ok {
                    return Err(self.unholdable(op, ki, b, via));
                }
                let sl = self.st[ki].slots[l].as_mut().unwrap();
                sl.certain = true;
                if sl.tainted {
                    self.flags.tainted_served = true;
                }
                Ok(())
            }
            Via::Multi => {
                let cand: Vec<usize> = (0..self.layers).filter(|&l| self.st[ki].slots[l].as_ref().is_some_and(|x| x.bytes == b && x.live())).collect();
                let Some(&s_min) = cand.first() else {
                    return Err(self.unholdable(op, ki, b, via));
                };
                // H4: a faster layer that certainly holds a live entry would have answered
                for l in 0..s_min {
                    if let Some(x) = &self.st[ki].slots[l] {
                        if x.certain && x.live() {
                            return Err(self.fail(
                                &format!("{op}-skips-faster-layer-holding-entry"),
                                format!(
                                    "{op}({key:?}) served {} which only layer(s) {cand:?} can hold, but layer {l} certainly holds {} for the key",
                                    Self::short(b),
                                    Self::short(&x.bytes)
                                ),
                            ));
                        }
                    }
                }
                let slot = self.st[ki].slots[s_min].clone().unwrap();
                let latest = self.st[ki].latest.clone();
                // classify
                let mut stale: Option<(&'static str, String)> = None;
                if slot.tainted {
                    self.flags.tainted_served = true;
                } else if let Some(lt) = &latest {
                    if slot.serial != lt.serial {
                        let (k, why) = if s_min < lt.layer {
                            (K_STALE_UPPER, format!("the latest put went to slower layer {} and left the older value in faster layer {s_min}", lt.layer))
                        } else if lt.via_layer_api {
                            (K_STALE_LOWER_LAYER_API, format!("the latest put was put_to_layer(.., {}) and the older value stayed in slower layer {s_min}", lt.layer))
                        } else {
                            (K_STALE_LOWER, format!("the latest put went to layer {} and the older value stayed in slower layer {s_min}", lt.layer))
                        };
                        stale = Some((
                            k,
                            format!(
                                "{op}({key:?}) served {} (put #{}) but the latest put of the key is {} (put #{}): {why}",
                                Self::short(b),
                                slot.serial,
                                Self::short(&lt.bytes),
                                lt.serial
                            ),
                        ));
                    }
                }
                // refine: every faster layer was consulted and missed
                for l in 0..s_min {
                    if self.st[ki].slots[l].take().is_some() && l == 0 {
                        self.flags.evicted_observed = true;
                    }
                }
                if cand.len() == 1 {
                    self.st[ki].slots[s_min].as_mut().unwrap().certain = true;
                }
                if s_min > 0 {
                    self.flags.hit_lower = true;
                } else {
                    self.flags.hit_layer0 = true;
                }
                if let Some((k, m)) = stale {
                    self.flags.stale = true;
                    self.finding(k, m)?;
                }
                Ok(())
            }
        }
    }

    /// Judge a miss (H3) and refine the model.
    fn judge_miss(&mut self, op: &str, ki: usize, via: Via) -> R {
        let key = self.keys[ki].clone();
        let layers: Vec<usize> = match via {
            Via::Multi => (0..self.layers).collect(),
            Via::Layer(l) => vec![l],
        };
        for &l in &layers {
            if let Some(x) = &self.st[ki].slots[l] {
                if x.certain && x.live() {
                    self.flags.must_hit = true;
                    let what = match via {
                        Via::Layer(_) => format!("{op}-misses-entry-the-layer-holds"),
                        Via::Multi if l == 0 => format!("{op}-misses-entry-held-by-first-layer"),
                        Via::Multi => format!("{op}-misses-entry-held-by-slower-layer"),
                    };
                    return Err(self.fail(
                        &what,
                        format!("{op}({key:?}) -> None, but layer {l} holds {} (1 h TTL, written by put #{}, never removed, no eviction possible since)", Self::short(&x.bytes), x.serial),
                    ));
                }
            }
        }
        for &l in &layers {
            if self.st[ki].slots[l].take().is_some_and(|x| x.live()) && l == 0 {
                self.flags.evicted_observed = true;
            }
        }
        self.flags.miss = true;
        Ok(())
    }

    fn note_must_hit(&mut self, ki: usize) {
        let s = &self.st[ki];
        if s.slots.iter().flatten().any(|x| x.certain && x.live()) {
            self.flags.must_hit = true;
            let first = (0..self.layers).find(|&l| s.slots[l].is_some());
            if first.is_some_and(|l| l > 0) {
                self.flags.lower_only_found = true;
            }
        }
    }

    // ---- operations -----------------------------------------------------------

    fn layer_get(&mut self, ki: usize, l: usize) -> R<Option<Vec<u8>>> {
        self.note("get_from_layer", format!("key {} layer {l}", self.keys[ki]), false);
        match self.sut.get_from_layer(&self.keys[ki], l) {
            Ok(Some(b)) => {
                self.judge_hit("get_from_layer", ki, &b, Via::Layer(l))?;
                Ok(Some(b))
            }
            Ok(None) => {
                self.judge_miss("get_from_layer", ki, Via::Layer(l))?;
                Ok(None)
            }
            Err(e) => {
                // the disk layer reports a read error once after its file was deleted
                let deleted = self.st[ki].slots[l].as_ref().is_some_and(|x| x.deleted);
                if deleted {
                    self.st[ki].slots[l] = None;
                    self.flags.layer_error_tolerated = true;
                    Ok(None)
                } else {
                    Err(self.fail("get_from_layer-returned-error", format!("get_from_layer({:?}, {l}) -> Err({e}) without a deleted file", self.keys[ki])))
                }
            }
        }
    }

    /// The single `get`, with the H4 probe and the self-deadlock prediction.
    fn multi_get(&mut self, ki: usize, probe: bool) -> R<Option<Vec<u8>>> {
        let key = self.keys[ki].clone();
        let tracked = self.tracked.contains(&ki);
        let mut expected: Option<Option<(usize, Vec<u8>)>> = None;
        if tracked || probe {
            let mut first = None;
            for l in 0..self.layers {
                if let Some(b) = self.layer_get(ki, l)? {
                    first = Some((l, b));
                    break;
                }
            }
            expected = Some(first);
        }
        let predicted = tracked && matches!(&expected, Some(Some((l, _))) if *l > 0);
        let got = if predicted {
            self.flags.hang_predicted = true;
            let msg = format!(
                "get({key:?}) is answered by layer {} while the promotion tracker already has the key: get() holds the tracker's write guard and should_promote() takes its read lock on the same thread",
                expected.as_ref().unwrap().as_ref().unwrap().0
            );
            if self.known.is_open(K_HANG) {
                self.finding(K_HANG, msg)?;
                // same lookup without the promotion check, so that the history goes on
                self.note("get_with_validation", format!("key {key} (substitute for get)"), false);
                self.sut.get_with_validation(&key, None)
            } else if HANG_CONFIRMED.load(Ordering::SeqCst) {
                return Err(Fail { key: K_HANG.into(), msg: format!("op#{} [{} layers]: {msg} (hang observed twice by the watchdog on an earlier case of this run; predicted here by the tracker model)", self.step, self.layers) });
            } else {
                self.note("get", format!("key {key}: {msg}"), true);
                self.sut.get(&key)
            }
        } else {
            self.note("get", format!("key {key}"), false);
            self.sut.get(&key)
        };
        self.note("judging", String::new(), false);
        let got = match got {
            Ok(g) => g,
            Err(e) => {
                if self.tolerate_error_after_delete(ki) {
                    return Ok(None);
                }
                return Err(self.fail("get-returned-error", format!("get({key:?}) -> Err({e}) although no file of the key was deleted")));
            }
        };
        if let Some(exp) = &expected {
            self.flags.probe_diff = true;
            let exp_b = exp.as_ref().map(|(_, b)| b.as_slice());
            if got.as_deref() != exp_b {
                return Err(self.fail(
                    "get-differs-from-layer-by-layer-lookup",
                    format!(
                        "get({key:?}) -> {} but get_from_layer over layers 0.. just before gave {} (first hit in layer {:?})",
                        got.as_deref().map_or("None".to_string(), Self::short),
                        exp_b.map_or("None".to_string(), Self::short),
                        exp.as_ref().map(|(l, _)| *l)
                    ),
                ));
            }
        }
        self.after_multi("get", ki, got.as_deref())?;
        Ok(got)
    }

    /// The implementation lets layer errors fall through to the next layer, so a
    /// lookup never fails. The statement does not demand that: an `Err` is accepted
    /// (and nothing concluded from it) when the key's disk file was deleted by a fault.
    fn tolerate_error_after_delete(&mut self, ki: usize) -> bool {
        let d = self.disk();
        if self.st[ki].slots[d].as_ref().is_some_and(|x| x.deleted) {
            self.st[ki].slots[d] = None;
            self.flags.layer_error_tolerated = true;
            true
        } else {
            false
        }
    }

    fn after_multi(&mut self, op: &str, ki: usize, got: Option<&[u8]>) -> R {
        self.note_must_hit(ki);
        match got {
            Some(b) => {
                self.judge_hit(op, ki, b, Via::Multi)?;
                self.tracked.insert(ki);
            }
            None => self.judge_miss(op, ki, Via::Multi)?,
        }
        Ok(())
    }

    fn do_put_kind(&mut self, ki: usize, len: usize, kind: PutKind) -> R {
        let (serial, v) = self.fresh(len);
        let key = self.keys[ki].clone();
        let (res, layer, zero, tracks) = match kind {
            PutKind::Plain => {
                self.note("put", format!("key {key}"), false);
                (self.sut.put(&key, &v), 0, false, true)
            }
            PutKind::Ttl { zero } => {
                self.note("put_with_ttl", format!("key {key}"), false);
                (self.sut.put_with_ttl(&key, &v, if zero { Duration::ZERO } else { HOUR }), 0, zero, true)
            }
            PutKind::Layer(l) => {
                self.note("put_to_layer", format!("key {key} layer {l}"), false);
                (self.sut.put_to_layer(&key, &v, l), l, false, false)
            }
        };
        self.note("judging", String::new(), false);
        if let Err(e) = res {
            return Err(self.abandon(format!("put error: {e}")));
        }
        self.model_put(ki, layer, serial, v, zero, tracks);
        Ok(())
    }

    fn do_promote(&mut self, ki: usize, from: usize, to: usize) -> R {
        let key = self.keys[ki].clone();
        self.note("promote", format!("key {key} {from}->{to}"), false);
        let res = self.sut.promote(&key, from, to);
        self.note("judging", String::new(), false);
        if from <= to {
            // documented as "invalid promotion direction": nothing moves
            return match res {
                Ok(false) => Ok(()),
                Ok(true) => Err(self.fail("promote-moves-entry-in-invalid-direction", format!("promote({key:?}, {from}, {to}) -> true"))),
                Err(e) => Err(self.abandon(format!("promote error: {e}"))),
            };
        }
        match res {
            Ok(true) => {
                let Some(src) = self.st[ki].slots[from].clone().filter(Slot::live) else {
                    return Err(self.fail(
                        "promote-copies-entry-the-layer-cannot-hold",
                        format!("promote({key:?}, {from}, {to}) -> true, but layer {from} cannot hold a live entry for the key (removed / cleared / never written / ZERO TTL)"),
                    ));
                };
                self.st[ki].slots[from].as_mut().unwrap().certain = true;
                self.before_memory_write(to, ki, src.bytes.len());
                let admitted = !(to == 0 && self.case.l0_bytes.is_some_and(|b| src.bytes.len() > b as usize));
                self.st[ki].slots[to] = Some(Slot { bytes: src.bytes, serial: src.serial, zero: false, certain: admitted, tainted: src.tainted, deleted: false });
                self.flags.promote_true = true;
                Ok(())
            }
            Ok(false) => {
                if let Some(x) = &self.st[ki].slots[from] {
                    if x.certain && x.live() {
                        return Err(self.fail(
                            "promote-misses-entry-the-layer-holds",
                            format!("promote({key:?}, {from}, {to}) -> false, but layer {from} holds {} for the key", Self::short(&x.bytes)),
                        ));
                    }
                }
                self.st[ki].slots[from] = None;
                Ok(())
            }
            Err(e) => {
                let deleted = self.st[ki].slots[from].as_ref().is_some_and(|x| x.deleted);
                if deleted {
                    self.st[ki].slots[from] = None;
                    self.flags.layer_error_tolerated = true;
                    Ok(())
                } else {
                    Err(self.abandon(format!("promote error: {e}")))
                }
            }
        }
    }

    fn do_contains(&mut self, ki: usize) -> R {
        let key = self.keys[ki].clone();
        self.note("contains", format!("key {key}"), false);
        let res = self.sut.contains(&key);
        self.note("judging", String::new(), false);
        match res {
            Err(e) => Err(self.fail("contains-returned-error", format!("contains({key:?}) -> Err({e})"))),
            Ok(false) => Ok(()),
            Ok(true) => {
                // a layer may report a file whose content was damaged: still an entry
                if self.st[ki].slots.iter().flatten().any(|x| !x.zero && !x.deleted) {
                    return Ok(());
                }
                let s = &self.st[ki];
                let why = if s.slots.iter().flatten().any(|x| x.zero) {
                    "contains-true-for-zero-ttl-entry"
                } else {
                    match s.dead.last() {
                        Some((_, DeadHow::Removed)) if s.latest.is_none() => "contains-true-after-remove",
                        Some((_, DeadHow::Cleared)) if s.latest.is_none() => "contains-true-after-clear",
                        Some((_, DeadHow::Dropped)) if s.latest.is_none() => "contains-true-after-validation-failure",
                        _ => "contains-true-but-no-layer-can-hold-key",
                    }
                };
                Err(self.fail(why, format!("contains({key:?}) -> true, but no layer can hold a live entry for the key")))
            }
        }
    }

    fn do_remove(&mut self, ki: usize) -> R {
        let key = self.keys[ki].clone();
        self.note("remove", format!("key {key}"), false);
        let res = self.sut.remove(&key);
        self.note("judging", String::new(), false);
        if let Err(e) = res {
            return Err(self.abandon(format!("remove error: {e}")));
        }
        if self.model_drop_key(ki, DeadHow::Removed) {
            self.flags.remove_live = true;
        }
        Ok(())
    }

    fn do_clear(&mut self) -> R {
        self.note("clear", String::new(), false);
        let res = self.sut.clear();
        self.note("judging", String::new(), false);
        if let Err(e) = res {
            return Err(self.abandon(format!("clear error: {e}")));
        }
        for ki in 0..self.keys.len() {
            if self.model_drop_key(ki, DeadHow::Cleared) {
                self.flags.clear_live = true;
            }
        }
        Ok(())
    }

    fn do_batch_get(&mut self, ks: &[usize]) -> R {
        let kis: Vec<usize> = ks.iter().take(8).map(|&k| self.idx(k)).collect();
        let names: Vec<String> = kis.iter().map(|&i| self.keys[i].clone()).collect();
        self.note("batch_get", format!("keys {names:?}"), false);
        let res = self.sut.batch_get(&names);
        self.note("judging", String::new(), false);
        let got = match res {
            Ok(g) => g,
            Err(e) => {
                let mut tolerated = false;
                for &ki in &kis {
                    tolerated |= self.tolerate_error_after_delete(ki);
                }
                if tolerated {
                    return Ok(());
                }
                return Err(self.fail("batch_get-returned-error", format!("batch_get({names:?}) -> Err({e}) although no file of these keys was deleted")));
            }
        };
        if got.len() != kis.len() {
            return Err(self.fail("batch_get-wrong-length", format!("batch_get of {} keys returned {} results", kis.len(), got.len())));
        }
        self.flags.batch_get = true;
        for (i, &ki) in kis.iter().enumerate() {
            self.after_multi("batch_get", ki, got[i].as_deref())?;
        }
        // H6: element-wise the single get (nothing was written in between)
        for (i, &ki) in kis.iter().enumerate() {
            let single = self.multi_get(ki, false)?;
            if single != got[i] {
                return Err(self.fail(
                    "batch_get-differs-from-single-get",
                    format!(
                        "batch_get({names:?})[{i}] = {} but get({:?}) right after = {}",
                        got[i].as_deref().map_or("None".to_string(), Self::short),
                        names[i],
                        single.as_deref().map_or("None".to_string(), Self::short)
                    ),
                ));
            }
        }
        Ok(())
    }

    fn do_batch_put(&mut self, items: &[(usize, usize)]) -> R {
        let mut vals = Vec::new();
        for &(k, len) in items.iter().take(8) {
            let ki = self.idx(k);
            let (serial, v) = self.fresh(len);
            vals.push((ki, serial, v));
        }
        let arg: Vec<(String, Vec<u8>)> = vals.iter().map(|(ki, _, v)| (self.keys[*ki].clone(), v.clone())).collect();
        self.note("batch_put", format!("{} items", arg.len()), false);
        let res = self.sut.batch_put(&arg);
        self.note("judging", String::new(), false);
        if let Err(e) = res {
            return Err(self.abandon(format!("batch_put error: {e}")));
        }
        self.flags.batch_put = true;
        for (ki, serial, v) in vals {
            self.model_put(ki, 0, serial, v, false, true);
        }
        Ok(())
    }

    fn do_put_validated(&mut self, ki: usize, len: usize, wrong: bool) -> R {
        let key = self.keys[ki].clone();
        let (serial, v) = self.fresh(len);
        let ck = if wrong {
            let (_, other) = self.fresh(16);
            md5(&other)
        } else {
            md5(&v)
        };
        // values of odd length go through the TTL variant (same contract, its own code path)
        let with_ttl = v.len() % 2 == 1;
        self.note(if with_ttl { "put_with_validation_and_ttl" } else { "put_with_validation" }, format!("key {key}"), false);
        let res = if with_ttl { self.sut.put_with_validation_and_ttl(&key, ck, &v) } else { self.sut.put_with_validation(&key, ck, &v) };
        if with_ttl {
            self.flags.put_validated_with_ttl = true;
        }
        self.note("judging", String::new(), false);
        match res {
            Ok(()) => {
                // without hooks nothing is verified: a plain put into the first layer
                self.model_put(ki, 0, serial, v, false, true);
                Ok(())
            }
            Err(e) => {
                if wrong && self.case.hooks != Hooks::None {
                    self.flags.put_rejected = true;
                    self.st[ki].rejected.push(v);
                    Ok(())
                } else {
                    Err(self.abandon(format!("put_with_validation error: {e}")))
                }
            }
        }
    }

    fn do_get_validated(&mut self, ki: usize, expect: Expect) -> R {
        let key = self.keys[ki].clone();
        let ck: Option<[u8; 16]> = match expect {
            Expect::NoKey => None,
            Expect::Latest => match &self.st[ki].latest {
                Some(l) => Some(md5(&l.bytes)),
                None => Some(md5(&self.fresh(16).1)),
            },
            Expect::Older { which } => {
                let s = &self.st[ki];
                let n = s.history.len();
                if n >= 2 {
                    Some(md5(&s.history[vh_engine::pick_idx(which, n - 1)]))
                } else if let Some(l) = &s.latest {
                    Some(md5(&l.bytes))
                } else {
                    Some(md5(&self.fresh(16).1))
                }
            }
            Expect::Garbage => Some(md5(&self.fresh(16).1)),
        };
        let validating = self.case.hooks != Hooks::None && ck.is_some();
        let after_fault = self.st[ki].slots.iter().flatten().any(|x| x.tainted || x.deleted);
        if validating && after_fault {
            self.flags.validated_after_fault = true;
        }
        self.note("get_with_validation", format!("key {key}"), false);
        let res = self.sut.get_with_validation(&key, ck);
        self.note("judging", String::new(), false);
        match res {
            Ok(Some(b)) => {
                if validating && md5(&b) != ck.unwrap() {
                    return Err(self.fail(
                        "get_with_validation-returns-bytes-not-hashing-to-key",
                        format!("get_with_validation({key:?}, Some(ck)) with hooks returned {} whose MD5 is not the supplied content key", Self::short(&b)),
                    ));
                }
                if validating {
                    self.flags.validated_ok = true;
                }
                self.after_multi("get_with_validation", ki, Some(&b))
            }
            Ok(None) => self.after_multi("get_with_validation", ki, None),
            Err(e) => {
                if !validating {
                    if self.tolerate_error_after_delete(ki) {
                        return Ok(());
                    }
                    return Err(self.fail("get_with_validation-returned-error", format!("get_with_validation({key:?}) without hooks+key -> Err({e}) although no file of the key was deleted")));
                }
                let ckv = ck.unwrap();
                let mismatch_possible = self.st[ki].slots.iter().flatten().any(|x| x.live() && md5(&x.bytes) != ckv);
                if !mismatch_possible {
                    return Err(self.fail(
                        "get_with_validation-rejects-without-mismatching-entry",
                        format!("get_with_validation({key:?}, Some(ck)) -> Err({e}), but every value a layer may hold for the key hashes to ck"),
                    ));
                }
                // the entry is reported as corrupted: it must be gone from every layer from now on
                self.flags.validated_reject = true;
                self.model_drop_key(ki, DeadHow::Dropped);
                Ok(())
            }
        }
    }

    fn do_fault(&mut self, sel: u16, kind: FaultKind) -> R {
        let d = self.disk();
        let targets: Vec<usize> = (0..self.keys.len())
            .filter(|&ki| self.st[ki].slots[d].as_ref().is_some_and(|x| !x.deleted) && self.sut.disk_path(&self.keys[ki]).is_file())
            .collect();
        if targets.is_empty() {
            self.flags.fault_noop = true;
            return Ok(());
        }
        let ki = targets[vh_engine::pick_idx(sel, targets.len())];
        let path = self.sut.disk_path(&self.keys[ki]);
        match kind {
            FaultKind::Overwrite { len } => {
                let (_, junk) = self.fresh(len);
                if let Err(e) = std::fs::write(&path, &junk) {
                    return Err(self.abandon(format!("fault: cannot overwrite {}: {e}", path.display())));
                }
                let sl = self.st[ki].slots[d].as_mut().unwrap();
                sl.bytes = junk;
                sl.tainted = true;
                self.flags.fault_overwrite = true;
            }
            FaultKind::Truncate { keep } => {
                let cur = match std::fs::read(&path) {
                    Ok(c) => c,
                    Err(e) => return Err(self.abandon(format!("fault: cannot read {}: {e}", path.display()))),
                };
                if cur.is_empty() {
                    self.flags.fault_noop = true;
                    return Ok(());
                }
                let n = vh_engine::pick_idx(keep, cur.len());
                let r = std::fs::OpenOptions::new().write(true).open(&path).and_then(|f| f.set_len(n as u64));
                if let Err(e) = r {
                    return Err(self.abandon(format!("fault: cannot truncate {}: {e}", path.display())));
                }
                let sl = self.st[ki].slots[d].as_mut().unwrap();
                sl.bytes = cur[..n].to_vec();
                sl.tainted = true;
                self.flags.fault_truncate = true;
            }
            FaultKind::Delete => {
                if let Err(e) = std::fs::remove_file(&path) {
                    return Err(self.abandon(format!("fault: cannot delete {}: {e}", path.display())));
                }
                self.st[ki].slots[d].as_mut().unwrap().deleted = true;
                self.flags.fault_delete = true;
            }
        }
        Ok(())
    }

    fn exec(&mut self, op: &Op) -> R {
        match op {
            Op::Put { k, len } => self.do_put_kind(self.idx(*k), *len, PutKind::Plain),
            Op::PutTtl { k, len, zero } => self.do_put_kind(self.idx(*k), *len, PutKind::Ttl { zero: *zero }),
            Op::PutToLayer { k, len, layer } => self.do_put_kind(self.idx(*k), *len, PutKind::Layer(self.layer(*layer))),
            Op::Get { k, probe } => self.multi_get(self.idx(*k), *probe).map(|_| ()),
            Op::GetFromLayer { k, layer } => self.layer_get(self.idx(*k), self.layer(*layer)).map(|_| ()),
            Op::Promote { k, from, to } => self.do_promote(self.idx(*k), self.layer(*from), self.layer(*to)),
            Op::Remove { k } => self.do_remove(self.idx(*k)),
            Op::Clear => self.do_clear(),
            Op::Contains { k } => self.do_contains(self.idx(*k)),
            Op::BatchGet { ks } => self.do_batch_get(ks),
            Op::BatchPut { items } => self.do_batch_put(items),
            Op::PutValidated { k, len, wrong } => self.do_put_validated(self.idx(*k), *len, *wrong),
            Op::GetValidated { k, expect, damaged } => {
                let dmg: Vec<usize> = (0..self.keys.len()).filter(|&ki| self.st[ki].slots.iter().flatten().any(|x| x.tainted || x.deleted)).collect();
                let ki = match damaged {
                    Some(sel) if !dmg.is_empty() => dmg[vh_engine::pick_idx(*sel, dmg.len())],
                    _ => self.idx(*k),
                };
                self.do_get_validated(ki, *expect)
            }
            Op::Fault { sel, kind } => self.do_fault(*sel, *kind),
        }
    }

    /// Final sweep: every layer and the multi-layer lookup, for every key.
    fn sweep(&mut self) -> R {
        for ki in 0..self.keys.len() {
            self.do_contains(ki)?;
            for l in 0..self.layers {
                self.layer_get(ki, l)?;
            }
            self.multi_get(ki, false)?;
        }
        Ok(())
    }

    pub fn run(mut self) -> Verdict {
        if let Ok(mut p) = self.progress.lock() {
            p.started = true;
            // SAFETY: gettid has no preconditions.
            p.tid = unsafe { libc::gettid() };
        }
        let ops = &self.case.ops;
        let mut failure: Option<Fail> = None;
        for (i, op) in ops.iter().enumerate() {
            self.step = i;
            if let Err(f) = self.exec(op) {
                failure = Some(f);
                break;
            }
        }
        if failure.is_none() {
            self.step = ops.len();
            if let Err(f) = self.sweep() {
                failure = Some(f);
            }
        }
        self.note("done", String::new(), false);
        let fl = &self.flags;
        let nontrivial = fl.hit_lower || fl.validated_after_fault;
        let mut v = Verdict::pass()
            .nontrivial(nontrivial)
            .class_if(self.layers == 3, "three-layers")
            .class_if(self.layers == 2, "two-layers")
            .class_if(fl.hit_layer0, "hit-served-by-layer0")
            .class_if(fl.hit_lower, "hit-served-by-slower-layer")
            .class_if(fl.miss, "miss")
            .class_if(fl.must_hit, "must-hit-checked")
            .class_if(fl.lower_only_found, "entry-only-in-slower-layer-looked-up")
            .class_if(fl.stale, "stale-value-observed")
            .class_if(fl.hang_predicted, "self-deadlock-predicted")
            .class_if(fl.tainted_served, "fault-content-served-unvalidated")
            .class_if(fl.validated_ok, "validated-get-ok")
            .class_if(fl.validated_reject, "validated-get-rejects")
            .class_if(fl.validated_after_fault, "validated-get-after-fault")
            .class_if(fl.fault_overwrite, "fault-overwrite")
            .class_if(fl.fault_truncate, "fault-truncate")
            .class_if(fl.fault_delete, "fault-delete")
            .class_if(fl.fault_noop, "fault-noop")
            .class_if(fl.eviction_possible, "layer0-full")
            .class_if(fl.bytes_pressure, "layer0-byte-budget-reached")
            .class_if(fl.evicted_observed, "layer0-eviction-observed")
            .class_if(fl.promote_true, "promote-true")
            .class_if(fl.remove_live, "remove-of-live-key")
            .class_if(fl.clear_live, "clear-with-live-keys")
            .class_if(fl.batch_get, "batch_get")
            .class_if(fl.batch_put, "batch_put")
            .class_if(fl.probe_diff, "probe-differential")
            .class_if(fl.zero_ttl_put, "zero-ttl-put")
            .class_if(fl.put_rejected, "put_with_validation-rejected")
            .class_if(fl.put_validated_with_ttl, "put_with_validation_and_ttl")
            .class_if(fl.layer_error_tolerated, "disk-error-after-delete-fault")
            .class_if(fl.abandoned, "abandoned-on-put-error");
        v.known_hits = self.known_hits.clone();
        match failure {
            None => v,
            Some(f) if f.key == "ABANDON" => v,
            Some(f) => v.with_fail(f.key, f.msg),
        }
    }
}

#[derive(Clone, Copy)]
enum PutKind {
    Plain,
    Ttl { zero: bool },
    Layer(usize),
}
