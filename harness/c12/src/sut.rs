//! Synchronous facade over `MultiLayerCacheImpl<SKey>`.
//!
//! Layers: [Memory(tiny), Disk(tmp, flat)] or [Memory(tiny), Memory(8), Disk(tmp, flat)].
//! All background intervals are one year; the runtime is a current-thread one and
//! every operation completes without yielding, so the spawned cleanup / sync
//! tasks are never polled (no `sync` process, no background purge).

use bytes::Bytes;
use cascette_cache::config::{DiskCacheConfig, MemoryCacheConfig, MultiLayerCacheConfig, PromotionStrategy};
use cascette_cache::key::CacheKey;
use cascette_cache::multi_layer::MultiLayerCacheImpl;
use cascette_cache::traits::{AsyncCache, EvictionPolicy, MultiLayerCache};
use cascette_cache::validation::{Md5ValidationHooks, NgdpValidationHooks, ValidationHooks};
use cascette_crypto::ContentKey;
use serde::{Deserialize, Serialize};
use std::path::{Path, PathBuf};
use std::sync::Arc;
use std::time::Duration;
use tokio::runtime::Runtime;

pub const HOUR: Duration = Duration::from_secs(3600);
pub const YEAR: Duration = Duration::from_secs(365 * 24 * 3600);
/// capacity of the middle memory layer of the three-layer system
pub const MID_CAP: usize = 8;

/// Cache key over an arbitrary (file-name safe) string.
#[derive(Debug, Clone, PartialEq, Eq, Hash)]
pub struct SKey(pub String);

impl CacheKey for SKey {
    fn as_cache_key(&self) -> &str {
        &self.0
    }
}

#[derive(Debug, Clone, Copy, PartialEq, Eq, Serialize, Deserialize)]
pub enum Pol {
    Lru,
    Lfu,
    Fifo,
    Random,
    Ttl,
}

impl Pol {
    pub fn to_policy(self) -> EvictionPolicy {
        match self {
            Pol::Lru => EvictionPolicy::Lru,
            Pol::Lfu => EvictionPolicy::Lfu,
            Pol::Fifo => EvictionPolicy::Fifo,
            Pol::Random => EvictionPolicy::Random,
            Pol::Ttl => EvictionPolicy::Ttl,
        }
    }
}

#[derive(Debug, Clone, Copy, PartialEq, Eq, Serialize, Deserialize)]
pub enum Layout {
    /// [Memory(l0_max), Disk]
    MemDisk { l0_max: usize },
    /// [Memory(l0_max), Memory(8), Disk]
    MemMemDisk { l0_max: usize },
}

impl Layout {
    pub fn layers(self) -> usize {
        match self {
            Layout::MemDisk { .. } => 2,
            Layout::MemMemDisk { .. } => 3,
        }
    }
    pub fn l0_max(self) -> usize {
        match self {
            Layout::MemDisk { l0_max } | Layout::MemMemDisk { l0_max } => l0_max.max(1),
        }
    }
    pub fn disk_layer(self) -> usize {
        self.layers() - 1
    }
}

/// All promotion strategies. None of them changes what a call may return
/// (automatic promotion is deferred in the implementation); they only steer
/// the promotion-tracker code path that `get` runs.
#[derive(Debug, Clone, Copy, PartialEq, Serialize, Deserialize)]
pub enum Strat {
    OnHit,
    AfterNHits(u32),
    /// threshold in thousandths of hits per second
    Frequency { milli: u32 },
    /// `min_age` ZERO or 1 h
    Age { zero: bool },
    Manual,
}

impl Strat {
    pub fn to_strategy(self) -> PromotionStrategy {
        match self {
            Strat::OnHit => PromotionStrategy::OnHit,
            Strat::AfterNHits(n) => PromotionStrategy::AfterNHits(n),
            Strat::Frequency { milli } => PromotionStrategy::FrequencyBased { threshold: f64::from(milli) / 1000.0 },
            Strat::Age { zero } => PromotionStrategy::AgeBased { min_age: if zero { Duration::ZERO } else { HOUR } },
            Strat::Manual => PromotionStrategy::Manual,
        }
    }
}

#[derive(Debug, Clone, Copy, PartialEq, Eq, Serialize, Deserialize)]
pub enum Hooks {
    None,
    Md5,
    Ngdp,
}

pub struct Sut {
    // declared before `rt`: dropped first, while the runtime still exists
    cache: MultiLayerCacheImpl<SKey>,
    rt: Runtime,
    disk_dir: PathBuf,
}

fn s<E: std::fmt::Display>(e: E) -> String {
    e.to_string()
}

impl Sut {
    pub fn new(layout: Layout, policy: Pol, strat: Strat, hooks: Hooks, l0_bytes: Option<u32>, dir: &Path) -> Result<Self, String> {
        let rt = tokio::runtime::Builder::new_current_thread().enable_time().build().map_err(s)?;
        let mem = |max_entries: usize, max_bytes: Option<u32>| MemoryCacheConfig {
            max_entries,
            max_memory_bytes: max_bytes.map(|b| b as usize),
            default_ttl: Some(HOUR),
            eviction_policy: policy.to_policy(),
            cleanup_interval: YEAR,
            ..MemoryCacheConfig::default()
        };
        let disk = DiskCacheConfig {
            default_ttl: Some(HOUR),
            use_subdirectories: false,
            cleanup_interval: YEAR,
            sync_interval: YEAR,
            max_disk_bytes: None,
            ..DiskCacheConfig::new(dir)
        };
        let mut cfg = MultiLayerCacheConfig::new().with_promotion_strategy(strat.to_strategy());
        cfg = cfg.add_memory_layer(mem(layout.l0_max(), l0_bytes));
        if let Layout::MemMemDisk { .. } = layout {
            cfg = cfg.add_memory_layer(mem(MID_CAP, None));
        }
        cfg = cfg.add_disk_layer(disk);
        let mut cache = {
            let _g = rt.enter();
            MultiLayerCacheImpl::<SKey>::new(cfg).map_err(s)?
        };
        match hooks {
            Hooks::None => {}
            Hooks::Md5 => cache.set_validation_hooks(Some(Arc::new(Md5ValidationHooks::new()) as Arc<dyn ValidationHooks>)),
            Hooks::Ngdp => cache.set_validation_hooks(Some(Arc::new(NgdpValidationHooks::new()) as Arc<dyn ValidationHooks>)),
        }
        if cache.layer_count() != layout.layers() {
            return Err(format!("layer_count() = {} for a {}-layer configuration", cache.layer_count(), layout.layers()));
        }
        Ok(Sut { cache, rt, disk_dir: dir.to_path_buf() })
    }

    /// Path of the disk layer's value file for `key`: flat layout, `cache_dir.join(key)`
    /// (DiskCache::get_file_path with `use_subdirectories == false`).
    pub fn disk_path(&self, key: &str) -> PathBuf {
        self.disk_dir.join(key)
    }

    fn k(key: &str) -> SKey {
        SKey(key.to_string())
    }

    pub fn get(&self, key: &str) -> Result<Option<Vec<u8>>, String> {
        self.rt.block_on(self.cache.get(&Self::k(key))).map(|o| o.map(|b| b.to_vec())).map_err(s)
    }

    pub fn put(&self, key: &str, v: &[u8]) -> Result<(), String> {
        self.rt.block_on(self.cache.put(Self::k(key), Bytes::copy_from_slice(v))).map_err(s)
    }

    pub fn put_with_ttl(&self, key: &str, v: &[u8], ttl: Duration) -> Result<(), String> {
        self.rt.block_on(self.cache.put_with_ttl(Self::k(key), Bytes::copy_from_slice(v), ttl)).map_err(s)
    }

    pub fn put_to_layer(&self, key: &str, v: &[u8], layer: usize) -> Result<(), String> {
        self.rt.block_on(self.cache.put_to_layer(Self::k(key), Bytes::copy_from_slice(v), layer)).map_err(s)
    }

    pub fn get_from_layer(&self, key: &str, layer: usize) -> Result<Option<Vec<u8>>, String> {
        self.rt.block_on(self.cache.get_from_layer(&Self::k(key), layer)).map(|o| o.map(|b| b.to_vec())).map_err(s)
    }

    pub fn promote(&self, key: &str, from: usize, to: usize) -> Result<bool, String> {
        self.rt.block_on(self.cache.promote(&Self::k(key), from, to)).map_err(s)
    }

    pub fn remove(&self, key: &str) -> Result<bool, String> {
        self.rt.block_on(self.cache.remove(&Self::k(key))).map_err(s)
    }

    pub fn clear(&self) -> Result<(), String> {
        self.rt.block_on(self.cache.clear()).map_err(s)
    }

    pub fn contains(&self, key: &str) -> Result<bool, String> {
        self.rt.block_on(self.cache.contains(&Self::k(key))).map_err(s)
    }

    pub fn batch_get(&self, keys: &[String]) -> Result<Vec<Option<Vec<u8>>>, String> {
        let ks: Vec<SKey> = keys.iter().map(|k| SKey(k.clone())).collect();
        self.rt.block_on(self.cache.batch_get(&ks)).map(|v| v.into_iter().map(|o| o.map(|b| b.to_vec())).collect()).map_err(s)
    }

    pub fn batch_put(&self, items: &[(String, Vec<u8>)]) -> Result<(), String> {
        let it: Vec<(SKey, Bytes)> = items.iter().map(|(k, v)| (SKey(k.clone()), Bytes::copy_from_slice(v))).collect();
        self.rt.block_on(self.cache.batch_put(it)).map_err(s)
    }

    pub fn put_with_validation(&self, key: &str, ck: [u8; 16], v: &[u8]) -> Result<(), String> {
        self.rt
            .block_on(self.cache.put_with_validation(Self::k(key), ContentKey::from_bytes(ck), Bytes::copy_from_slice(v)))
            .map(|_| ())
            .map_err(s)
    }

    /// the TTL variant of the validated put (one hour: as good as no expiry for a history)
    pub fn put_with_validation_and_ttl(&self, key: &str, ck: [u8; 16], v: &[u8]) -> Result<(), String> {
        self.rt
            .block_on(self.cache.put_with_validation_and_ttl(Self::k(key), ContentKey::from_bytes(ck), Bytes::copy_from_slice(v), std::time::Duration::from_secs(3600)))
            .map(|_| ())
            .map_err(s)
    }

    pub fn get_with_validation(&self, key: &str, ck: Option<[u8; 16]>) -> Result<Option<Vec<u8>>, String> {
        self.rt
            .block_on(self.cache.get_with_validation(&Self::k(key), ck.map(ContentKey::from_bytes)))
            .map(|o| o.map(|b| b.into_bytes().to_vec()))
            .map_err(s)
    }
}
