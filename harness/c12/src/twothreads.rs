//! C12 / two-threads-slow-hash: "every call returns … however often the key was accessed before",
//! with a second thread at work. `multi_layer.rs` has no schedule hooks, so the windows between
//! its lock operations are stretched from outside: the cache key's `Hash` sleeps on the thread
//! that the harness marks (the promotion tracker hashes the key while it holds, or between two
//! acquisitions of, its lock). Thread A looks a tracked key up again and again (served by a lower
//! layer) while thread B keeps writing, removing and promoting other keys. Both threads must
//! finish; a cache in which two threads wait for each other for ever does not.

use bytes::Bytes;
use cascette_cache::config::{DiskCacheConfig, MemoryCacheConfig, MultiLayerCacheConfig, PromotionStrategy};
use cascette_cache::key::CacheKey;
use cascette_cache::multi_layer::MultiLayerCacheImpl;
use cascette_cache::traits::{AsyncCache, MultiLayerCache};
use serde::{Deserialize, Serialize};
use std::cell::Cell;
use std::hash::{Hash, Hasher};
use std::sync::Arc;
use std::sync::atomic::{AtomicBool, AtomicU64, Ordering};
use std::time::Duration;
use vh_engine::Verdict;

thread_local! {
    static SLOW_MS: Cell<u64> = const { Cell::new(0) };
}

#[derive(Debug, Clone, PartialEq, Eq)]
pub struct SlowKey(pub String);

impl Hash for SlowKey {
    fn hash<H: Hasher>(&self, state: &mut H) {
        let ms = SLOW_MS.with(Cell::get);
        if ms > 0 {
            std::thread::sleep(Duration::from_millis(ms));
        }
        self.0.hash(state);
    }
}

impl CacheKey for SlowKey {
    fn as_cache_key(&self) -> &str {
        &self.0
    }
}

#[derive(Debug, Clone, Serialize, Deserialize)]
pub struct TwoCase {
    /// what thread A repeats: 0 get, 1 get_with_validation(no key), 2 batch_get, 3 contains
    pub reader: u8,
    /// what thread B repeats: 0 put, 1 put + remove, 2 put_to_layer + promote, 3 clear now and then
    pub writer: u8,
    /// promotion strategy: 0 on hit, 1 after 2 hits, 2 never
    pub strat: u8,
    /// milliseconds thread A's key hash sleeps
    pub slow_ms: u8,
}

pub fn all_cases() -> Vec<TwoCase> {
    let mut v = Vec::new();
    for reader in 0..4u8 {
        for writer in 0..4u8 {
            for strat in 0..3u8 {
                v.push(TwoCase { reader, writer, strat, slow_ms: 6 });
            }
        }
    }
    v
}

pub fn check(c: &TwoCase) -> Verdict {
    let Ok(dir) = tempfile::Builder::new().prefix("vh-c12t-").tempdir() else { return Verdict::pass().class("VACUOUS:no-tempdir") };
    let year = Duration::from_secs(365 * 24 * 3600);
    let mem = MemoryCacheConfig { max_entries: 2, default_ttl: Some(Duration::from_secs(3600)), cleanup_interval: year, ..MemoryCacheConfig::default() };
    let disk = DiskCacheConfig { default_ttl: Some(Duration::from_secs(3600)), use_subdirectories: false, cleanup_interval: year, sync_interval: year, ..DiskCacheConfig::new(dir.path()) };
    let strat = match c.strat {
        0 => PromotionStrategy::OnHit,
        1 => PromotionStrategy::AfterNHits(2),
        _ => PromotionStrategy::Manual,
    };
    let cfg = MultiLayerCacheConfig::new().with_promotion_strategy(strat).add_memory_layer(mem).add_disk_layer(disk);
    let Ok(rt0) = tokio::runtime::Builder::new_current_thread().enable_all().build() else { return Verdict::pass().class("VACUOUS:no-runtime") };
    let cache = {
        let _g = rt0.enter();
        match MultiLayerCacheImpl::<SlowKey>::new(cfg) {
            Ok(c) => Arc::new(c),
            Err(e) => return Verdict::fail("C12:two-threads:cannot-construct-cache", e.to_string()),
        }
    };
    let hot = SlowKey("hot-key".into());
    // the hot key lives in the disk layer only and has been hit once (tracked)
    if rt0.block_on(cache.put_to_layer(hot.clone(), Bytes::from_static(b"hot value"), 1)).is_err() {
        return Verdict::pass().class("VACUOUS:setup-put-failed");
    }
    let _ = rt0.block_on(cache.get(&hot));
    let stop = Arc::new(AtomicBool::new(false));
    let progress = [Arc::new(AtomicU64::new(0)), Arc::new(AtomicU64::new(0))];
    let done = [Arc::new(AtomicBool::new(false)), Arc::new(AtomicBool::new(false))];
    // thread A: the reader, with a slow key hash
    {
        let (cache, hot, stop, prog, fin, reader, slow) = (Arc::clone(&cache), hot.clone(), Arc::clone(&stop), Arc::clone(&progress[0]), Arc::clone(&done[0]), c.reader, u64::from(c.slow_ms));
        std::thread::spawn(move || {
            let rt = tokio::runtime::Builder::new_current_thread().enable_all().build().expect("runtime");
            SLOW_MS.with(|s| s.set(slow));
            for _ in 0..8 {
                if stop.load(Ordering::SeqCst) {
                    break;
                }
                match reader {
                    0 => {
                        let _ = rt.block_on(cache.get(&hot));
                    }
                    1 => {
                        let _ = rt.block_on(cache.get_with_validation(&hot, None));
                    }
                    2 => {
                        let _ = rt.block_on(cache.batch_get(&[hot.clone(), SlowKey("absent".into())]));
                    }
                    _ => {
                        let _ = rt.block_on(cache.contains(&hot));
                        let _ = rt.block_on(cache.get(&hot));
                    }
                }
                // keep the hot key out of the first layer so that the next lookup is a lower-layer hit again
                let _ = rt.block_on(cache.put_to_layer(hot.clone(), Bytes::from_static(b"hot value"), 1));
                prog.fetch_add(1, Ordering::SeqCst);
            }
            fin.store(true, Ordering::SeqCst);
        });
    }
    // thread B: the writer
    {
        let (cache, stop, prog, fin, writer) = (Arc::clone(&cache), Arc::clone(&stop), Arc::clone(&progress[1]), Arc::clone(&done[1]), c.writer);
        std::thread::spawn(move || {
            let rt = tokio::runtime::Builder::new_current_thread().enable_all().build().expect("runtime");
            let mut i = 0u64;
            while !stop.load(Ordering::SeqCst) && i < 200_000 {
                let k = SlowKey(format!("other-{}", i % 7));
                match writer {
                    0 => {
                        let _ = rt.block_on(cache.put(k, Bytes::from_static(b"v")));
                    }
                    1 => {
                        let _ = rt.block_on(cache.put(k.clone(), Bytes::from_static(b"v")));
                        let _ = rt.block_on(cache.remove(&k));
                    }
                    2 => {
                        let _ = rt.block_on(cache.put_to_layer(k.clone(), Bytes::from_static(b"v"), 1));
                        let _ = rt.block_on(cache.promote(&k, 1, 0));
                    }
                    _ => {
                        let _ = rt.block_on(cache.put(k, Bytes::from_static(b"v")));
                        if i % 16 == 0 {
                            let _ = rt.block_on(cache.remove(&SlowKey(format!("other-{}", (i + 3) % 7))));
                        }
                    }
                }
                i += 1;
                prog.fetch_add(1, Ordering::SeqCst);
            }
            fin.store(true, Ordering::SeqCst);
        });
    }
    // the reader makes 8 rounds of some dozen 6 ms hashes each: seconds. Progress of either thread
    // standing still for 60 s while it has not finished: the threads wait for each other.
    let mut last = (0u64, 0u64);
    let mut still_since = std::time::Instant::now();
    let t0 = std::time::Instant::now();
    loop {
        std::thread::sleep(Duration::from_millis(100));
        if done[0].load(Ordering::SeqCst) {
            stop.store(true, Ordering::SeqCst);
        }
        if done[0].load(Ordering::SeqCst) && done[1].load(Ordering::SeqCst) {
            break;
        }
        let now = (progress[0].load(Ordering::SeqCst), progress[1].load(Ordering::SeqCst));
        let a_stuck = !done[0].load(Ordering::SeqCst) && now.0 == last.0;
        let b_stuck = !done[1].load(Ordering::SeqCst) && now.1 == last.1;
        if !(a_stuck && b_stuck) && !(a_stuck && done[1].load(Ordering::SeqCst)) && !(b_stuck && done[0].load(Ordering::SeqCst)) {
            last = now;
            still_since = std::time::Instant::now();
        }
        if still_since.elapsed() > Duration::from_secs(60) {
            stop.store(true, Ordering::SeqCst);
            return Verdict::fail(
                "C12:two-threads:calls-do-not-return",
                format!(
                    "{c:?}: no call of either thread has returned for 60 s (reader finished {} rounds, writer {} operations, after {:?}): the threads wait for each other",
                    now.0,
                    now.1,
                    t0.elapsed()
                ),
            );
        }
        if t0.elapsed() > Duration::from_secs(600) {
            stop.store(true, Ordering::SeqCst);
            return Verdict::pass().class("infrastructure-trouble:too-slow");
        }
    }
    Verdict::pass().nontrivial(progress[0].load(Ordering::SeqCst) >= 5 && progress[1].load(Ordering::SeqCst) >= 10)
}
