//! C12 — layered caching is coherent and validated (stub, being written).
fn main() {}
