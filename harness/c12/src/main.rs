//! C12 — layered caching is coherent and never serves content that fails validation.
//!
//! Sections
//!   layered-history   random histories of 1..=30 operations over
//!                     [Memory(2..=3), Disk] and [Memory(1..=2), Memory(8), Disk],
//!                     every eviction policy, promotion strategy and hook set,
//!                     interleaved with faults on the disk layer's value files
//!   byte-budget-growth  histories of 10..=40 operations, mostly puts of 4..=400 bytes over <= 6
//!                     keys, on [Memory(8 entries, 64/160/320 bytes), Disk]
//!   large-values      fixed histories with values around the disk layer's 16 MiB read threshold
//!   short-histories   every sequence of up to N operations from a 10-letter
//!                     alphabet on one hot key (+2 filler keys), both layouts
//! Oracle: model.rs (hard clauses H1..H6, latest-value clause L1).
//! "Every call returns" (H7): every case runs on a watchdog-supervised thread
//! (`supervised` below).

mod model;
mod sut;
mod twothreads;

use model::{Case, Expect, FaultKind, HANG_CONFIRMED, Interp, K_HANG, Op, Progress};
use proptest::prelude::*;
use std::collections::HashMap;
use std::sync::atomic::{AtomicU64, Ordering};
use std::sync::{Arc, Mutex};
use std::time::Duration;
use sut::{Hooks, Layout, Pol, Strat};
use vh_engine::util::{catch_panic, fnv64, with_timeout};
use vh_engine::{Check, Known, Section, Verdict};

// ---------------------------------------------------------------------------
// watchdog
// ---------------------------------------------------------------------------

/// A case normally takes milliseconds. The machine may be heavily loaded, so a
/// case counts as hung only if it does not complete within FIRST seconds *and*
/// a second, fresh execution of the same case does not complete within SECOND
/// seconds, both stuck inside the same cache call, and the kernel shows the
/// second case thread blocked (state S, no CPU time over two seconds) rather
/// than running or waiting for the disk.
fn limits() -> (Duration, Duration) {
    let get = |name: &str, def: u64| std::env::var(name).ok().and_then(|s| s.parse::<u64>().ok()).unwrap_or(def);
    // the overrides exist for developing the watchdog path itself; the registered commands never set them
    (Duration::from_secs(get("VH_C12_T1", 60)), Duration::from_secs(get("VH_C12_T2", 180)))
}

static INFRA_EVENTS: Mutex<Vec<String>> = Mutex::new(Vec::new());
static SLOW_RERUNS: AtomicU64 = AtomicU64::new(0);
/// failures of cases that hung without the tracker model predicting it (case hash -> key, msg)
static UNPREDICTED: Mutex<Option<HashMap<u64, (String, String)>>> = Mutex::new(None);

/// after an unpredicted hang has been confirmed (and is reported), every further real execution
/// may cost minutes and leaves a stuck thread behind, so no shard executes further cases
static RUN_STOPPED: std::sync::atomic::AtomicBool = std::sync::atomic::AtomicBool::new(false);

enum Attempt {
    Done(Verdict),
    Panic(vh_engine::util::PanicInfo),
    Setup(String),
    /// no completion within the limit; what the case thread was doing, and whether the
    /// kernel shows it blocked (see `thread_blocked`)
    Hang(Progress, Option<ThreadState>),
}

fn attempt(case: &Case, known: &Known, limit: Duration) -> Attempt {
    // the directory belongs to the supervisor: it is removed even if the case thread never returns
    let dir = match tempfile::Builder::new().prefix("vh-c12-").tempdir() {
        Ok(d) => d,
        Err(e) => return Attempt::Setup(format!("cannot create a temporary directory: {e}")),
    };
    let progress: model::Shared = Arc::new(Mutex::new(Progress::default()));
    let (c, k, p, path) = (case.clone(), known.clone(), Arc::clone(&progress), dir.path().to_path_buf());
    let r = with_timeout(limit, move || {
        catch_panic(move || match Interp::new(&c, &k, &path, p) {
            Ok(i) => Ok(i.run()),
            Err(e) => Err(e),
        })
    });
    match r {
        Some(Ok(Ok(v))) => Attempt::Done(v),
        Some(Ok(Err(e))) => Attempt::Setup(format!("cannot construct the cache: {e}")),
        Some(Err(p)) => Attempt::Panic(p),
        None => {
            let p = progress.lock().map(|g| g.clone()).unwrap_or_default();
            let blocked = thread_blocked(p.tid, limit);
            Attempt::Hang(p, blocked)
        }
    }
}

/// What the kernel shows for the case thread after a timeout, sampled twice two seconds apart.
#[derive(Clone, Copy, Debug, PartialEq, Eq)]
enum ThreadState {
    /// sleeping, no CPU time consumed between the samples
    Blocked,
    /// runnable in both samples, consuming CPU time between them, and `SPIN_CPU_SECS` of CPU
    /// time consumed by the thread since the history started: a loop that does not end
    Spinning,
    /// waiting for the disk, or making some progress: a slow machine
    Other,
}

/// CPU seconds of the case thread beyond which a history that is stuck in one call counts as spinning.
const SPIN_CPU_SECS: u64 = 10;

fn thread_blocked(tid: i32, limit: Duration) -> Option<ThreadState> {
    fn sample(tid: i32) -> Option<(char, u64)> {
        let txt = std::fs::read_to_string(format!("/proc/self/task/{tid}/stat")).ok()?;
        let rest = &txt[txt.rfind(')')? + 1..];
        let f: Vec<&str> = rest.split_whitespace().collect();
        // after the command name: state, then utime / stime are fields 12 and 13 of the remainder
        let state = f.first()?.chars().next()?;
        let ticks = f.get(11)?.parse::<u64>().ok()? + f.get(12)?.parse::<u64>().ok()?;
        Some((state, ticks))
    }
    if tid <= 0 {
        return None;
    }
    // SAFETY: sysconf has no preconditions.
    let hz = u64::try_from(unsafe { libc::sysconf(libc::_SC_CLK_TCK) }).ok().filter(|h| *h > 0).unwrap_or(100);
    let a = sample(tid)?;
    std::thread::sleep(Duration::from_secs(2));
    let b = sample(tid)?;
    if a.0 == 'S' && b.0 == 'S' && a.1 == b.1 {
        return Some(ThreadState::Blocked);
    }
    // CPU time of the thread itself does not depend on how loaded the machine is: a history of
    // this check costs milliseconds of it (the largest values: about a second)
    let _ = limit;
    if a.0 == 'R' && b.0 == 'R' && b.1 > a.1 && b.1 >= hz * SPIN_CPU_SECS {
        return Some(ThreadState::Spinning);
    }
    Some(ThreadState::Other)
}

fn is_cache_call(what: &str) -> bool {
    !matches!(what, "" | "judging" | "done")
}

fn supervised(case: &Case, known: &Known) -> Verdict {
    let hash = fnv64(serde_json::to_string(case).unwrap_or_default().as_bytes());
    if let Ok(g) = UNPREDICTED.lock() {
        if let Some((k, m)) = g.as_ref().and_then(|m| m.get(&hash)) {
            return Verdict::fail(k.clone(), m.clone());
        }
    }
    if RUN_STOPPED.load(Ordering::SeqCst) {
        return Verdict::pass().class("not-executed-after-unpredicted-hang");
    }
    let (t1, t2) = limits();
    let infra = |msg: String| {
        if let Ok(mut g) = INFRA_EVENTS.lock() {
            if g.len() < 20 {
                g.push(msg);
            }
        }
        Verdict::pass().class("infrastructure-trouble")
    };
    let panic_verdict = |p: vh_engine::util::PanicInfo| {
        Verdict::fail(format!("C12:multi:panic:{}:{}", p.file, p.norm_msg()), format!("panic at {}:{}: {}", p.file, p.line, p.msg))
    };
    let first = match attempt(case, known, t1) {
        Attempt::Done(v) => return v,
        Attempt::Panic(p) => return panic_verdict(p),
        Attempt::Setup(e) => return infra(e),
        Attempt::Hang(p, _) => p,
    };
    if !first.started {
        return infra(format!("case thread did not start within {t1:?}"));
    }
    // second, fresh execution with the long limit
    let mut spinning = false;
    let second = match attempt(case, known, t2) {
        Attempt::Done(v) => {
            SLOW_RERUNS.fetch_add(1, Ordering::Relaxed);
            return v.class("completed-on-watchdog-rerun");
        }
        Attempt::Panic(p) => return panic_verdict(p),
        Attempt::Setup(e) => return infra(format!("re-run after a timeout could not be set up: {e}")),
        Attempt::Hang(p, Some(ThreadState::Other)) => {
            return infra(format!("case did not complete within {t1:?} and {t2:?}, but its thread is running or waiting for the disk (op#{} {}): machine too slow", p.step, p.what));
        }
        Attempt::Hang(p, Some(ThreadState::Spinning)) => {
            spinning = true;
            p
        }
        Attempt::Hang(p, _) => p,
    };
    if !second.started || !is_cache_call(second.what) || !is_cache_call(first.what) || first.step != second.step || first.what != second.what {
        return infra(format!(
            "case timed out twice but not inside the same cache call (first: op#{} {}, second: op#{} {}): machine too slow?",
            first.step, first.what, second.step, second.what
        ));
    }
    let msg = format!(
        "op#{} {}({}) did not return within {t1:?}, and again not within {t2:?} on a fresh execution of the same history",
        second.step, second.what, second.detail
    );
    if spinning {
        // the thread has consumed SPIN_CPU_SECS of CPU time and is still runnable inside one cache
        // call, in two executions at the same operation: a loop that does not end
        let key = format!("C12:multi:{}-never-returns:spinning", second.what);
        let msg = format!("{msg}; the thread is runnable and has consumed more than {SPIN_CPU_SECS} s of CPU time inside the call");
        if let Ok(mut g) = UNPREDICTED.lock() {
            g.get_or_insert_with(HashMap::new).insert(hash, (key.clone(), msg.clone()));
        }
        RUN_STOPPED.store(true, Ordering::SeqCst);
        return Verdict::fail(key, msg);
    }
    if second.predicted_hang && second.what == "get" {
        HANG_CONFIRMED.store(true, Ordering::SeqCst);
        return Verdict::fail(K_HANG, msg);
    }
    let key = format!("C12:multi:{}-never-returns:not-predicted-by-tracker-model", second.what);
    if let Ok(mut g) = UNPREDICTED.lock() {
        g.get_or_insert_with(HashMap::new).insert(hash, (key.clone(), msg.clone()));
    }
    RUN_STOPPED.store(true, Ordering::SeqCst);
    Verdict::fail(key, msg)
}

// ---------------------------------------------------------------------------
// stderr filter
// ---------------------------------------------------------------------------

/// The cache reports every rejected validation and every layer error with
/// `eprintln!` (thousands of lines per run). While the sections run, stderr goes
/// through a pipe and only lines that are not that chatter are passed on.
struct StderrFilter {
    real: i32,
    reader: Option<std::thread::JoinHandle<u64>>,
}

fn is_cache_chatter(line: &str) -> bool {
    line.starts_with("Validation error for cached content key")
        || line.starts_with("Content validation failed for key")
        || line.starts_with("Cache corruption detected")
        || (line.starts_with("Layer ") && line.contains(" error for key "))
}

impl StderrFilter {
    fn install() -> Option<Self> {
        use std::io::{BufRead, BufReader, Write};
        use std::os::fd::FromRawFd;
        let mut fds = [0i32; 2];
        // SAFETY: plain POSIX descriptor plumbing on descriptors owned by this process.
        let (real, rd) = unsafe {
            if libc::pipe(fds.as_mut_ptr()) != 0 {
                return None;
            }
            let real = libc::dup(2);
            if real < 0 || libc::dup2(fds[1], 2) < 0 {
                return None;
            }
            libc::close(fds[1]);
            (real, fds[0])
        };
        let reader = std::thread::spawn(move || {
            // SAFETY: `rd` and the duplicate of `real` are open descriptors handed over to this thread.
            let (inp, mut out) = unsafe { (std::fs::File::from_raw_fd(rd), std::fs::File::from_raw_fd(libc::dup(real))) };
            let mut dropped = 0u64;
            for line in BufReader::new(inp).split(b'\n').map_while(Result::ok) {
                let txt = String::from_utf8_lossy(&line);
                if is_cache_chatter(&txt) {
                    dropped += 1;
                } else {
                    let _ = out.write_all(&line);
                    let _ = out.write_all(b"\n");
                }
            }
            dropped
        });
        Some(StderrFilter { real, reader: Some(reader) })
    }

    /// Put the real stderr back and return the number of suppressed lines.
    fn remove(mut self) -> u64 {
        // SAFETY: restores descriptor 2 from the duplicate taken in `install`; this closes the pipe's only write end.
        unsafe {
            libc::dup2(self.real, 2);
            libc::close(self.real);
        }
        self.reader.take().and_then(|h| h.join().ok()).unwrap_or(0)
    }
}

// ---------------------------------------------------------------------------
// generators
// ---------------------------------------------------------------------------

fn key_s() -> BoxedStrategy<usize> {
    prop_oneof![5 => 0usize..2, 4 => 0usize..4, 1 => 0usize..6].boxed()
}

fn len_s() -> BoxedStrategy<usize> {
    prop_oneof![6 => 4usize..=24, 2 => 4usize..=300, 1 => 1000usize..=6000].boxed()
}

fn layer_s() -> BoxedStrategy<u8> {
    prop_oneof![2 => Just(0u8), 3 => Just(1u8), 3 => Just(2u8)].boxed()
}

fn op_s() -> BoxedStrategy<Op> {
    let put = (key_s(), len_s()).prop_map(|(k, len)| Op::Put { k, len });
    let put_ttl = (key_s(), len_s(), any::<bool>()).prop_map(|(k, len, zero)| Op::PutTtl { k, len, zero });
    let put_layer = (key_s(), len_s(), layer_s()).prop_map(|(k, len, layer)| Op::PutToLayer { k, len, layer });
    let get = (key_s(), prop::bool::weighted(0.3)).prop_map(|(k, probe)| Op::Get { k, probe });
    let get_layer = (key_s(), layer_s()).prop_map(|(k, layer)| Op::GetFromLayer { k, layer });
    let promote = (key_s(), 0u8..3, 0u8..3).prop_map(|(k, from, to)| Op::Promote { k, from, to });
    let promote_up = (key_s(), 1u8..3).prop_map(|(k, from)| Op::Promote { k, from, to: 0 });
    let remove = key_s().prop_map(|k| Op::Remove { k });
    let contains = key_s().prop_map(|k| Op::Contains { k });
    let batch_get = proptest::collection::vec(key_s(), 1..=6).prop_map(|ks| Op::BatchGet { ks });
    let batch_put = proptest::collection::vec((key_s(), len_s()), 1..=5).prop_map(|items| Op::BatchPut { items });
    let put_val = (key_s(), len_s(), prop::bool::weighted(0.25)).prop_map(|(k, len, wrong)| Op::PutValidated { k, len, wrong });
    let expect = prop_oneof![
        6 => Just(Expect::Latest),
        2 => any::<u16>().prop_map(|which| Expect::Older { which }),
        1 => Just(Expect::Garbage),
        1 => Just(Expect::NoKey),
    ];
    let get_val = (key_s(), expect, prop_oneof![1 => Just(None), 1 => any::<u16>().prop_map(Some)]).prop_map(|(k, expect, damaged)| Op::GetValidated { k, expect, damaged });
    let kind = prop_oneof![
        3 => len_s().prop_map(|len| FaultKind::Overwrite { len }),
        2 => any::<u16>().prop_map(|keep| FaultKind::Truncate { keep }),
        2 => Just(FaultKind::Delete),
    ];
    let fault = (any::<u16>(), kind).prop_map(|(sel, kind)| Op::Fault { sel, kind });
    prop_oneof![
        13 => put,
        7 => put_ttl,
        15 => put_layer,
        20 => get,
        7 => get_layer,
        3 => promote,
        5 => promote_up,
        4 => remove,
        1 => Just(Op::Clear),
        3 => contains,
        4 => batch_get,
        3 => batch_put,
        5 => put_val,
        10 => get_val,
        9 => fault,
    ]
    .boxed()
}

fn strat_s() -> BoxedStrategy<Strat> {
    prop_oneof![
        3 => Just(Strat::OnHit),
        2 => proptest::sample::select(vec![1u32, 2, 3, 1000]).prop_map(Strat::AfterNHits),
        2 => proptest::sample::select(vec![0u32, 1000, u32::MAX]).prop_map(|milli| Strat::Frequency { milli }),
        2 => any::<bool>().prop_map(|zero| Strat::Age { zero }),
        2 => Just(Strat::Manual),
    ]
    .boxed()
}

fn case_s() -> BoxedStrategy<Case> {
    (
        prop_oneof![(2usize..=3).prop_map(|l0_max| Layout::MemDisk { l0_max }), (1usize..=2).prop_map(|l0_max| Layout::MemMemDisk { l0_max }),],
        prop_oneof![3 => Just(Pol::Lru), 2 => Just(Pol::Lfu), 2 => Just(Pol::Fifo), 2 => Just(Pol::Random), 1 => Just(Pol::Ttl)],
        strat_s(),
        prop_oneof![4 => Just(Hooks::Md5), 1 => Just(Hooks::Ngdp), 1 => Just(Hooks::None)],
        prop_oneof![6 => 0u8..6, 1 => 240u8..246],
        prop_oneof![1 => Just(1usize), 3 => Just(2usize), 4 => Just(3usize), 3 => Just(4usize), 1 => Just(5usize), 1 => Just(6usize)],
        any::<u64>(),
        proptest::collection::vec(op_s(), 1..=30),
        prop_oneof![5 => Just(None), 1 => Just(Some(30u32)), 1 => Just(Some(64u32)), 1 => Just(Some(320u32)), 1 => Just(Some(7000u32))],
    )
        .prop_map(|(layout, policy, strat, hooks, key_style, pool, content_seed, ops, l0_bytes)| Case { layout, policy, strat, hooks, key_style, pool, content_seed, ops, l0_bytes })
        .boxed()
}

/// [Memory(8 entries, byte budget), Disk]: the count limit is never reached with <= 6 keys, the
/// byte budget is; mostly puts of 4..=120 bytes, so entries grow and shrink in place.
fn budget_case_s() -> BoxedStrategy<Case> {
    let len = prop_oneof![4 => 4usize..=24, 3 => 25usize..=60, 2 => 61usize..=120, 1 => 121usize..=400];
    let op = prop_oneof![
        12 => (0usize..6, len.clone()).prop_map(|(k, len)| Op::Put { k, len }),
        2 => (0usize..6, len.clone()).prop_map(|(k, len)| Op::PutTtl { k, len, zero: false }),
        2 => (0usize..6, len).prop_map(|(k, len)| Op::PutValidated { k, len, wrong: false }),
        4 => (0usize..6, Just(false)).prop_map(|(k, probe)| Op::Get { k, probe }),
        1 => (0usize..6, 1u8..2).prop_map(|(k, from)| Op::Promote { k, from, to: 0 }),
        1 => (0usize..6).prop_map(|k| Op::Remove { k }),
    ];
    (
        prop_oneof![3 => Just(Pol::Lru), 2 => Just(Pol::Lfu), 2 => Just(Pol::Fifo), 2 => Just(Pol::Random)],
        prop_oneof![2 => Just(Hooks::Md5), 1 => Just(Hooks::None)],
        prop_oneof![1 => Just(4usize), 2 => Just(6usize)],
        any::<u64>(),
        proptest::collection::vec(op, 10..=40),
        prop_oneof![1 => Just(64u32), 2 => Just(160u32), 1 => Just(320u32)],
    )
        .prop_map(|(policy, hooks, pool, content_seed, ops, l0)| Case {
            layout: Layout::MemDisk { l0_max: 8 },
            policy,
            strat: Strat::OnHit,
            hooks,
            key_style: 0,
            pool,
            content_seed,
            ops,
            l0_bytes: Some(l0),
        })
        .boxed()
}

/// The alphabet of the exhaustive section: one hot key (0), two filler keys.
fn alphabet(layout: Layout) -> Vec<Op> {
    let disk = layout.disk_layer() as u8;
    vec![
        Op::Put { k: 0, len: 8 },
        Op::PutToLayer { k: 0, len: 8, layer: disk },
        Op::Get { k: 0, probe: false },
        Op::GetValidated { k: 0, expect: Expect::Latest, damaged: None },
        Op::Remove { k: 0 },
        Op::Promote { k: 0, from: disk, to: 0 },
        Op::Put { k: 1, len: 8 },
        Op::Put { k: 2, len: 8 },
        Op::Fault { sel: 0, kind: FaultKind::Overwrite { len: 8 } },
        Op::PutTtl { k: 0, len: 8, zero: true },
    ]
}

fn short_histories(max_len: usize, seed: u64) -> impl Iterator<Item = Case> + Send {
    let layouts = [Layout::MemDisk { l0_max: 2 }, Layout::MemMemDisk { l0_max: 1 }];
    (1..=max_len).flat_map(move |n| {
        layouts.into_iter().flat_map(move |layout| {
            let a = alphabet(layout);
            let m = a.len();
            let total = m.pow(n as u32);
            (0..total).map(move |mut x| {
                let mut ops = Vec::with_capacity(n);
                for _ in 0..n {
                    ops.push(a[x % m].clone());
                    x /= m;
                }
                Case { layout, policy: Pol::Lru, strat: Strat::OnHit, hooks: Hooks::Md5, key_style: 0, pool: 3, content_seed: seed ^ (n as u64) << 40, ops, l0_bytes: None }
            })
        })
    })
}

fn main() {
    let mut ck = Check::from_args("C12", "exploration");
    let tier = ck.tier;
    let seed = ck.seed;
    ck.extra(
        "rule",
        "histories of put / put_with_ttl(ZERO|1h) / put_to_layer / get / get_from_layer / promote / remove / clear / contains / batch_get / batch_put / \
         put_with_validation / get_with_validation over a 2- or 3-layer cache with a 1..3-entry first layer, interleaved with overwrite / truncate / delete of \
         the disk layer's value files, judged against a per-key per-layer model after every operation and in a final sweep of every layer; every case runs on \
         a watchdog-supervised thread; non-trivial = a multi-layer lookup was answered by a layer > 0, or a validated get (hooks + content key) ran on a key \
         whose disk file had been damaged; distinct by case hash"
            .into(),
    );
    ck.assume("Duration::ZERO TTL = already expired, 1 h = never expires within a case; no other TTL is used; every layer's default TTL is 1 h");
    ck.assume("the key pool has at most 6 keys, so the disk layer and the 8-entry middle memory layer never evict within a case; the first layer may evict anything once the model counts max_entries possible entries in it");
    ck.assume("a plain (unvalidated) read may return the bytes a fault planted in the disk file: nothing in the cache can tell them from the stored value; only hooks + content key are required to reject them");
    ck.assume("get_from_layer answers for one layer only: an older value held by that layer is not a stale answer of the cache (the latest-value clause is applied to get, batch_get and get_with_validation)");
    ck.assume("a put / remove / clear / promote that returns Err ends the history without a verdict (class abandoned-on-put-error); a get that returns Err is a violation, except get_from_layer / promote on the disk layer once after its file was deleted");
    ck.assume("a case counts as hung only if two fresh executions both fail to complete (60 s, then 180 s) inside the same cache call and /proc shows the second case thread sleeping without consuming CPU time; one slow execution is re-run and judged normally, anything else is reported as infrastructure trouble (exit 2)");
    ck.assume("the background cleanup / sync tasks of the layers (interval one year) are never polled: current-thread runtime, no operation yields");

    // In --replay mode nothing is tolerated inside a history: the first finding ends the case
    // with its key and the engine reports it as KNOWN-FINDING / VIOLATION.
    let known = if ck.is_replay() { Known::default() } else { ck.known().clone() };
    let filter = if ck.is_replay() { None } else { StderrFilter::install() };

    let k1 = known.clone();
    ck.run(Section::pbt("layered-history", tier.pick(3000, 150_000), case_s, move |c: &Case| supervised(c, &k1)).shards(16).shrink_iters(1500));

    // First layer limited by bytes, not by count: puts that grow an entry the layer already holds
    // and thereby force other entries out.
    let k3 = known.clone();
    ck.run(
        Section::pbt("byte-budget-growth", tier.pick(2500, 100_000), budget_case_s, move |c: &Case| supervised(c, &k3))
            .shards(16)
            .shrink_iters(1500),
    );

    // The disk layer reads files of 16 MiB and more through its own path
    let k4 = known.clone();
    ck.run(
        Section::enumerate(
            "large-values",
            "values of 16 MiB - 1, 16 MiB, 16 MiB + 4321, 17.5 MiB and 64 MiB - 1, 64 MiB, 64 MiB + 1 on [Memory(2), Disk] and [Memory(1), Memory(8), Disk], MD5 hooks: put_to_layer(k0, disk), get, get_from_layer(disk), get_with_validation(key of latest), promote(disk -> 0), get, put_with_validation(k1), remove k1's first-layer copy by two more puts, get_with_validation(k1)",
            || {
                const MIB: usize = 1024 * 1024;
                let mut v = Vec::new();
                for len in [16 * MIB - 1, 16 * MIB, 16 * MIB + 4321, 17 * MIB + MIB / 2, 64 * MIB - 1, 64 * MIB, 64 * MIB + 1] {
                    for layout in [Layout::MemDisk { l0_max: 2 }, Layout::MemMemDisk { l0_max: 1 }] {
                        let disk = layout.disk_layer() as u8;
                        let ops = vec![
                            Op::PutToLayer { k: 0, len, layer: disk },
                            Op::Get { k: 0, probe: false },
                            Op::GetFromLayer { k: 0, layer: disk },
                            Op::GetValidated { k: 0, expect: Expect::Latest, damaged: None },
                            Op::Promote { k: 0, from: disk, to: 0 },
                            Op::Get { k: 0, probe: false },
                            Op::PutValidated { k: 1, len, wrong: false },
                            Op::Promote { k: 1, from: 0, to: disk },
                            Op::Put { k: 2, len: 8 },
                            Op::Put { k: 3, len: 8 },
                            Op::Put { k: 4, len: 8 },
                            Op::GetValidated { k: 1, expect: Expect::Latest, damaged: None },
                            Op::GetFromLayer { k: 1, layer: disk },
                        ];
                        v.push(Case { layout, policy: Pol::Lru, strat: Strat::OnHit, hooks: Hooks::Md5, key_style: 0, pool: 5, content_seed: len as u64, ops, l0_bytes: None });
                    }
                }
                Box::new(v.into_iter())
            },
            move |c: &Case| supervised(c, &k4),
        )
        .shards(8),
    );

    let k2 = known.clone();
    let max_len = tier.pick(4usize, 5usize);
    ck.run(
        Section::enumerate(
            "short-histories",
            format!(
                "every sequence of 1..={max_len} operations from {{put k0, put_to_layer(k0, disk), get k0, get_with_validation(k0, key of latest), remove k0, \
                 promote(k0, disk->0), put k1, put k2, overwrite k0's disk file, put_with_ttl(k0, ZERO)}} on [Memory(2), Disk] and [Memory(1), Memory(8), Disk], LRU, OnHit, MD5 hooks"
            ),
            move || Box::new(short_histories(max_len, seed)),
            move |c: &Case| supervised(c, &k2),
        )
        .shards(16),
    );

    if let Some(f) = filter {
        ck.extra("cache_stderr_lines_suppressed", f.remove().into());
    }
    if let Ok(g) = INFRA_EVENTS.lock() {
        for e in g.iter() {
            ck.infra(e.clone());
        }
    }
    ck.extra("cases_completed_only_on_watchdog_rerun", SLOW_RERUNS.load(Ordering::Relaxed).into());
    // two threads, windows stretched by a slow key hash (multi_layer.rs has no schedule hooks)
    ck.run(
        Section::enumerate(
            "two-threads-slow-hash",
            "thread A repeats get / get_with_validation / batch_get / contains+get of a tracked key that a lower layer serves, with a key hash that sleeps 6 ms on that thread; thread B keeps putting / putting and removing / put_to_layer + promote / putting and sometimes removing other keys; promotion strategies OnHit, AfterNHits(2), Manual: both threads finish (no progress of a stuck pair for 60 s = the calls do not return)".to_string(),
            || Box::new(twothreads::all_cases().into_iter()),
            twothreads::check,
        )
        .shards(16),
    );
    ck.finish();
}
