//! Generators: random databases, the single-feature enumeration, hostile traffic.

use crate::HostileCase;
use crate::model::*;
use crate::net::Hostile;
use proptest::prelude::*;
use vh_engine::pick_idx;

const BENIGN_CHARS: &str = "ABCDEFGHIJKLMNOPQRSTUVWXYZabcdefghijklmnopqrstuvwxyz0123456789_.-";
const PATH_CHARS: &str = "abcdefghijklmnopqrstuvwxyz0123456789_-/";

/// Content that `BuildRecord::validate` lets through in free-text fields.
pub const SPECIALS: [&str; 18] = [
    "|", " ", "#", "!", "\u{e9}", "\u{65e5}", "\u{1F600}", "\r", "\n", "\r\n", "\t", "%", "?", "\"", "\\", ":", "=", "\u{a0}",
];

pub const OFFSETS: [i32; 18] = [0, 60, 120, 330, 345, 540, 840, -60, -300, -480, -720, -210, -570, -150, -45, 765, 525, -1];

/// 2019-01-01T00:00:00Z
const T0: i64 = 1_546_300_800;

fn chars_of(set: &'static str, min: usize, max: usize) -> impl Strategy<Value = String> {
    let v: Vec<char> = set.chars().collect();
    proptest::collection::vec(proptest::sample::select(v), min..=max).prop_map(|v| v.into_iter().collect())
}

fn benign(max: usize) -> impl Strategy<Value = String> {
    chars_of(BENIGN_CHARS, 1, max)
}

pub fn insert_at(base: &str, special: &str, pos: u16) -> String {
    let chars: Vec<char> = base.chars().collect();
    let at = pick_idx(pos, chars.len() + 1);
    let mut s: String = chars[..at].iter().collect();
    s.push_str(special);
    s.extend(chars[at..].iter());
    s
}

fn with_special(max: usize) -> impl Strategy<Value = String> {
    (
        chars_of(BENIGN_CHARS, 0, max),
        proptest::sample::select(SPECIALS.to_vec()),
        prop_oneof![Just(0u16), Just(u16::MAX), any::<u16>()],
    )
        .prop_map(|(b, s, p)| insert_at(&b, s, p))
}

fn product_name() -> impl Strategy<Value = String> {
    prop_oneof![
        70 => benign(16),
        18 => proptest::sample::select(vec!["wow", "wow_classic", "wow_classic_era", "wowt", "agent", "bna", "d3", "pro", "s2", "hsb", "fenris"]).prop_map(str::to_string),
        9 => with_special(8),
        2 => (benign(6), any::<u16>()).prop_map(|(b, p)| insert_at(&b, "/", p)),
        1 => proptest::sample::select(vec![".", "..", "...", "-", "_"]).prop_map(str::to_string),
        // validation puts no bound on the length of a product code
        2 => (proptest::sample::select(vec![200usize, 480, 500, 520, 1000, 2000]), benign(6)).prop_map(|(n, tail)| format!("{}{tail}", "p".repeat(n))),
    ]
}

/// A 32-digit hash, or (one in ten) a spelling close to one that a lenient check may let through:
/// a sign, a radix prefix, a blank, an underscore, a letter beyond f.
fn adv_hash() -> impl Strategy<Value = String> {
    prop_oneof![
        9 => hash32().boxed(),
        1 => (hash32(), 0u8..8, any::<u16>()).prop_map(|(h, how, p)| {
            let at = pick_idx(p, 32);
            match how {
                0 => format!("+{}", &h[1..]),
                1 => format!("-{}", &h[1..]),
                2 => format!("0x{}", &h[2..]),
                3 => format!("{} ", &h[1..]),
                4 => format!(" {}", &h[1..]),
                5 => format!("{}_{}", &h[..at], &h[(at + 1).min(32)..]),
                6 => format!("{}g{}", &h[..at], &h[(at + 1).min(32)..]),
                _ => format!("+{}", &h[1..]).to_ascii_uppercase(),
            }
        }).boxed(),
    ]
}

fn version() -> impl Strategy<Value = String> {
    prop_oneof![
        42 => benign(16),
        42 => (1u32..12, 0u32..20, 0u32..10, 1u32..70_000).prop_map(|(a, b, c, d)| format!("{a}.{b}.{c}.{d}")),
        16 => with_special(12),
    ]
}

fn build_number() -> impl Strategy<Value = String> {
    prop_oneof![
        76 => (0u32..=999_999).prop_map(|n| n.to_string()),
        6 => (1usize..=4, 0u32..100_000).prop_map(|(z, n)| format!("{}{n}", "0".repeat(z))),
        3 => Just(u32::MAX.to_string()),
        5 => prop_oneof![Just(4_294_967_296u64), Just(i64::MAX as u64), (u64::from(u32::MAX) + 1)..=(i64::MAX as u64)].prop_map(|n| n.to_string()),
        3 => prop_oneof![
            Just("9223372036854775808".to_string()),
            Just("18446744073709551616".to_string()),
            chars_of("123456789", 20, 30),
        ],
        4 => prop_oneof![
            (0u32..100_000, chars_of("abcxyzABC", 1, 3)).prop_map(|(n, s)| format!("{n}{s}")),
            chars_of("abcdefxyzXYZ", 1, 8),
            (0u32..100_000, 0u32..100).prop_map(|(a, b)| format!("{a}.{b}")),
            (0u32..100_000).prop_map(|n| format!("0x{n:x}")),
        ],
        2 => (prop_oneof![Just("+"), Just("-")], 0u32..100_000).prop_map(|(s, n)| format!("{s}{n}")),
        1 => (0u32..100_000, any::<bool>()).prop_map(|(n, lead)| if lead { format!(" {n}") } else { format!("{n} ") }),
    ]
}

fn hash32() -> impl Strategy<Value = String> {
    (any::<[u8; 16]>(), 0u8..4).prop_map(|(b, case)| {
        let lower = hex::encode(b);
        match case {
            0 | 1 => lower,
            2 => lower.to_ascii_uppercase(),
            _ => lower
                .chars()
                .enumerate()
                .map(|(i, c)| if i % 2 == 0 { c.to_ascii_uppercase() } else { c })
                .collect(),
        }
    })
}

fn keyring() -> impl Strategy<Value = Option<String>> {
    prop_oneof![
        40 => Just(None),
        44 => hash32().prop_map(Some),
        3 => Just(Some(String::new())),
        5 => proptest::collection::vec(any::<u8>(), 1..=20).prop_map(|v| Some(hex::encode(v))),
        4 => prop_oneof![
            chars_of("ghijklmnopqrstuvwxyzGHIXYZ", 32, 32),
            (hash32(), any::<u16>()).prop_map(|(h, p)| {
                let at = pick_idx(p, 32);
                let mut c: Vec<char> = h.chars().collect();
                c[at] = 'g';
                c.into_iter().collect::<String>()
            }),
            chars_of("ghxyz-_ ", 1, 8),
        ]
        .prop_map(Some),
        4 => (proptest::collection::vec(any::<u8>(), 0..=16), chars_of("0123456789abcdef", 1, 1)).prop_map(|(v, c)| Some(format!("{}{c}", hex::encode(v)))),
    ]
}

fn cdn_path() -> impl Strategy<Value = Option<String>> {
    prop_oneof![
        52 => Just(None),
        36 => chars_of(PATH_CHARS, 1, 12).prop_map(Some),
        2 => Just(Some(String::new())),
        10 => (chars_of(PATH_CHARS, 0, 8), proptest::sample::select(SPECIALS.to_vec()), prop_oneof![Just(0u16), Just(u16::MAX), any::<u16>()])
            .prop_map(|(b, s, p)| Some(insert_at(&b, s, p))),
    ]
}

fn instant() -> impl Strategy<Value = i64> {
    prop_oneof![
        55 => (0i64..8).prop_map(|k| T0 + k * 1800),
        30 => (0i64..96).prop_map(|k| T0 + 86_400 * 400 + k * 1800 + 17),
        15 => (0i64..200_000_000).prop_map(|s| T0 + s),
        // far from today: around the epoch, the 31- and 32-bit second counts, placeholder dates
        6 => proptest::sample::select(vec![
            0i64,
            -1,
            86_399,
            2_147_483_647,
            2_147_483_648,
            4_294_967_295,
            4_294_967_296,
            4_294_967_296 + 86_400 * 365,
            32_503_680_000,      // 3000-01-01
            253_402_300_799,     // 9999-12-31T23:59:59Z
            253_402_300_799 - 86_400,
            -62_135_596_800 + 86_400, // 0001-01-02
        ]),
    ]
}

fn plain_product_name() -> impl Strategy<Value = String> {
    prop_oneof![
        75 => benign(16),
        23 => proptest::sample::select(vec!["wow", "wow_classic", "wow_classic_era", "wowt", "agent", "bna", "d3", "pro", "s2", "hsb", "fenris"]).prop_map(str::to_string),
        2 => proptest::sample::select(vec![".", "..", "...", "-", "_"]).prop_map(str::to_string),
    ]
}

fn plain_version() -> impl Strategy<Value = String> {
    prop_oneof![
        50 => benign(16),
        50 => (1u32..12, 0u32..20, 0u32..10, 1u32..70_000).prop_map(|(a, b, c, d)| format!("{a}.{b}.{c}.{d}")),
    ]
}

fn plain_build_number() -> impl Strategy<Value = String> {
    prop_oneof![
        82 => (0u32..=999_999).prop_map(|n| n.to_string()),
        6 => (1usize..=4, 0u32..100_000).prop_map(|(z, n)| format!("{}{n}", "0".repeat(z))),
        4 => Just(u32::MAX.to_string()),
        8 => prop_oneof![Just(4_294_967_296u64), Just(i64::MAX as u64), (u64::from(u32::MAX) + 1)..=(i64::MAX as u64)].prop_map(|n| n.to_string()),
    ]
}

fn plain_keyring() -> impl Strategy<Value = Option<String>> {
    prop_oneof![45 => Just(None), 55 => hash32().prop_map(Some)]
}

fn plain_cdn_path() -> impl Strategy<Value = Option<String>> {
    prop_oneof![55 => Just(None), 45 => chars_of(PATH_CHARS, 1, 12).prop_map(Some)]
}

/// (build, own offset pick). `adv`: strings that validation lets through
/// although they are not what the field is documented to hold.
fn build(adv: bool) -> BoxedStrategy<(BuildD, u16)> {
    let text = if adv {
        (version(), build_number(), adv_hash(), adv_hash()).boxed()
    } else {
        (plain_version(), plain_build_number(), hash32(), hash32()).boxed()
    };
    let opt = if adv {
        (keyring(), proptest::option::weighted(0.5, adv_hash()), cdn_path()).boxed()
    } else {
        (plain_keyring(), proptest::option::weighted(0.5, hash32()), plain_cdn_path()).boxed()
    };
    (text, opt, (instant(), any::<u16>()))
        .prop_map(|((version, build, build_config, cdn_config), (keyring, product_config, cdn_path), (utc_secs, off))| {
            (BuildD { version, build, build_config, cdn_config, keyring, product_config, cdn_path, utc_secs, offset_min: 0 }, off)
        })
        .boxed()
}

#[derive(Debug, Clone, Copy)]
enum OffsetMode {
    AllUtc,
    Same(i32),
    Mixed,
}

/// 65 % of the databases hold only strings of the documented kinds (they stay
/// acceptable under any stricter validation); 35 % mix in the adversarial ones.
pub fn db_strategy() -> impl Strategy<Value = DbDesc> {
    prop_oneof![65 => db_of(false), 35 => db_of(true)]
}

fn db_of(adv: bool) -> BoxedStrategy<DbDesc> {
    let name = if adv { product_name().boxed() } else { plain_product_name().boxed() };
    (
        proptest::collection::vec((name, proptest::collection::vec(build(adv), 1..=4)), 1..=6),
        prop_oneof![
            60 => Just(OffsetMode::AllUtc),
            12 => proptest::sample::select(OFFSETS.to_vec()).prop_map(OffsetMode::Same),
            28 => Just(OffsetMode::Mixed),
        ],
        proptest::sample::select(vec!["cdn.test.com", "a.example.com b.example.com"]),
        proptest::sample::select(vec!["test/path", "tpr/wow"]),
        prop_oneof![2 => Just(0u8), 1 => Just(1u8), 1 => Just(2u8), 1 => Just(3u8)],
    )
        .prop_map(|(products, mode, hosts, path, id_mode)| DbDesc {
            id_mode,
            products: products
                .into_iter()
                .map(|(name, builds)| ProductD {
                    name,
                    builds: builds
                        .into_iter()
                        .map(|(mut b, off)| {
                            b.offset_min = match mode {
                                OffsetMode::AllUtc => 0,
                                OffsetMode::Same(o) => o,
                                OffsetMode::Mixed => OFFSETS[pick_idx(off, OFFSETS.len())],
                            };
                            b
                        })
                        .collect(),
                })
                .collect(),
            cdn_hosts: hosts.to_string(),
            cdn_path: path.to_string(),
        })
        .boxed()
}

// ---------------------------------------------------------------------------
// single-feature enumeration

fn base_build() -> BuildD {
    BuildD {
        version: "1.13.2.32600".into(),
        build: "32600".into(),
        build_config: "596c212114208f0f849c6b6e596e6680".into(),
        cdn_config: "bf4672a701f0795b21ad63bf6b98ae0a".into(),
        keyring: None,
        product_config: None,
        cdn_path: None,
        utc_secs: 1_574_361_215,
        offset_min: 0,
    }
}

fn older_build() -> BuildD {
    BuildD {
        version: "1.13.1.31000".into(),
        build: "31000".into(),
        build_config: "0123456789abcdef0123456789abcdef".into(),
        cdn_config: "fedcba9876543210fedcba9876543210".into(),
        keyring: None,
        product_config: None,
        cdn_path: None,
        utc_secs: 1_574_361_215 - 86_400 * 30,
        offset_min: 0,
    }
}

fn one(name: &str, builds: Vec<BuildD>) -> DbDesc {
    DbDesc { id_mode: (builds.len() % 4) as u8, products: vec![ProductD { name: name.into(), builds }], cdn_hosts: "cdn.test.com".into(), cdn_path: "test/path".into() }
}

pub fn feature_cases() -> Vec<DbDesc> {
    let mut v = Vec::new();
    let b = base_build;
    // plain, and orderings of two builds
    v.push(one("wow_classic", vec![b()]));
    v.push(one("wow_classic", vec![b(), older_build()]));
    v.push(one("wow_classic", vec![older_build(), b()]));
    v.push(one("wow_classic", vec![older_build(), b(), older_build()]));
    // ties
    let mut tie = older_build();
    tie.utc_secs = b().utc_secs;
    v.push(one("wow_classic", vec![b(), tie.clone()]));
    v.push(one("wow_classic", vec![tie.clone(), b()]));
    // same non-zero offset
    for off in [330, -480] {
        let (mut x, mut y) = (b(), older_build());
        x.offset_min = off;
        y.offset_min = off;
        v.push(one("wow", vec![y.clone(), x.clone()]));
        // one hour apart around local midnight
        y.utc_secs = x.utc_secs - 3600;
        v.push(one("wow", vec![x, y]));
    }
    // every offset of the pool on the newer / on the older of two builds half an hour (and 100 s) apart
    for off in OFFSETS {
        for gap in [1800i64, 100] {
            let (mut newer, mut older) = (b(), older_build());
            newer.utc_secs = 1_704_103_200;
            older.utc_secs = newer.utc_secs - gap;
            newer.offset_min = off;
            v.push(one("wow", vec![older.clone(), newer.clone()]));
            newer.offset_min = 0;
            older.offset_min = off;
            v.push(one("wow", vec![newer, older]));
        }
    }
    // mixed offsets: string order agrees / disagrees with time
    {
        let (mut newer, mut older) = (b(), older_build());
        newer.utc_secs = 1_704_103_200; // 2024-01-01T10:00:00Z
        older.utc_secs = 1_704_088_800; // 2024-01-01T06:00:00Z, written as 11:00+05:00
        older.offset_min = 300;
        v.push(one("wow", vec![newer.clone(), older.clone()]));
        v.push(one("wow", vec![older.clone(), newer.clone()]));
        // agrees: older written with a negative offset
        older.offset_min = -300;
        v.push(one("wow", vec![older.clone(), newer.clone()]));
        // same instant, different offsets (a tie in time, not in text)
        older.utc_secs = newer.utc_secs;
        older.offset_min = 540;
        v.push(one("wow", vec![older, newer]));
    }
    // optional fields
    for (kr, pc, cp) in [
        (Some("3ca57fe7319a297346440e4d2a03a0cd"), None, None),
        (None, Some("53020d32e1a25648c8e1eafd5771935f"), None),
        (None, None, Some("tpr/wow")),
        (Some("3CA57FE7319A297346440E4D2A03A0CD"), Some("53020D32E1A25648C8E1EAFD5771935F"), Some("tpr/configs/data")),
        (Some(""), None, Some("")),
        (Some("abcd"), None, None),
        (Some("ab"), None, None),
        (Some("3ca57fe7319a297346440e4d2a03a0cd3ca57fe7319a297346440e4d2a03a0cd"), None, None),
        (Some("zzzzzzzzzzzzzzzzzzzzzzzzzzzzzzzz"), None, None),
        (Some("abc"), None, None),
        (Some("none"), None, None),
    ] {
        let mut x = b();
        x.keyring = kr.map(str::to_string);
        x.product_config = pc.map(str::to_string);
        x.cdn_path = cp.map(str::to_string);
        v.push(one("wow", vec![x]));
    }
    // upper-case hashes
    {
        let mut x = b();
        x.build_config = x.build_config.to_ascii_uppercase();
        x.cdn_config = "BF4672a701F0795b21AD63bf6B98ae0A".into();
        v.push(one("wow", vec![x]));
    }
    // build numbers
    for s in [
        "0", "1", "007", "00000", "4294967295", "4294967296", "9223372036854775807", "9223372036854775808", "18446744073709551616", "12a", "abc", "+5", "-5", " 5", "5 ",
        "1.5", "0x10", "1e3",
    ] {
        let mut x = b();
        x.build = s.to_string();
        v.push(one("wow", vec![x]));
    }
    // every special x {version, cdn_path, product} x {start, middle, end}
    for sp in SPECIALS {
        for pos in [0u16, 0x8000, u16::MAX] {
            let mut x = b();
            x.version = insert_at("1.13.2", sp, pos);
            v.push(one("wow", vec![x]));
            let mut x = b();
            x.cdn_path = Some(insert_at("tpr/wow", sp, pos));
            v.push(one("wow", vec![x]));
            v.push(one(&insert_at("wowx", sp, pos), vec![b()]));
        }
        // the special alone
        let mut x = b();
        x.version = (*sp).to_string();
        v.push(one("wow", vec![x]));
        v.push(one(sp, vec![b()]));
    }
    // long non-ASCII version (moves every byte offset of the answer)
    for n in [1usize, 2, 3, 5, 8, 13, 21, 34] {
        let mut x = b();
        x.version = "\u{e9}".repeat(n);
        v.push(one("wow", vec![x]));
        let mut x = b();
        x.version = format!("{}\u{65e5}", "v".repeat(n));
        v.push(one("wow", vec![x]));
    }
    // product names: slash, dots, same product listed twice
    v.push(one("a/b", vec![b()]));
    v.push(one(".", vec![b()]));
    v.push(one("..", vec![b()]));
    v.push(DbDesc {
        id_mode: 1,
        products: vec![ProductD { name: "wow".into(), builds: vec![older_build()] }, ProductD { name: "wow".into(), builds: vec![b()] }],
        cdn_hosts: "a.example.com b.example.com".into(),
        cdn_path: "tpr/wow".into(),
    });
    // several products, one of them hostile to the summary only
    v.push(DbDesc {
        id_mode: 1,
        products: vec![
            ProductD { name: "wow".into(), builds: vec![b()] },
            ProductD { name: "wowt".into(), builds: vec![older_build(), b()] },
            ProductD { name: "agent".into(), builds: vec![older_build()] },
        ],
        cdn_hosts: "cdn.test.com".into(),
        cdn_path: "test/path".into(),
    });
    v
}

// ---------------------------------------------------------------------------
// hostile traffic

fn hostile(thorough: bool) -> BoxedStrategy<Hostile> {
    let base = prop_oneof![
        (any::<bool>(), prop_oneof![1 => 0u8..3, 2 => 3u8..24]).prop_map(|(v2, endpoint)| Hostile::TcpUnknownProduct { v2, endpoint }),
        any::<bool>().prop_map(|v2| Hostile::TcpUnknownEndpoint { v2 }),
        (0u8..8).prop_map(|variant| Hostile::TcpWrongArity { variant }),
        (0u8..4).prop_map(|variant| Hostile::TcpEmpty { variant }),
        (any::<bool>(), 0u8..3).prop_map(|(terminated, variant)| Hostile::TcpOversized { terminated, variant }),
        (0u8..4).prop_map(|variant| Hostile::TcpNonUtf8 { variant }),
        (0u8..6).prop_map(|variant| Hostile::TcpUnknownPrefix { variant }),
        (0u8..3).prop_map(|endpoint| Hostile::HttpUnknownProduct { endpoint }),
        Just(Hostile::HttpUnknownEndpoint),
        (0u8..5).prop_map(|variant| Hostile::HttpGarbage { variant }),
    ];
    if thorough {
        prop_oneof![
            10 => base,
            2 => (0u8..3).prop_map(|variant| Hostile::TcpNeverTerminated { variant }),
            1 => Just(Hostile::HttpNeverTerminated),
            1 => (14u8..=20).prop_map(|n| Hostile::TcpUnterminatedBurst { n }),
        ]
        .boxed()
    } else {
        base.boxed()
    }
}

/// A small mostly-benign database plus 4 hostile clients with 1-4 requests each.
pub fn hostile_strategy(thorough: bool) -> impl Strategy<Value = HostileCase> {
    (
        proptest::collection::vec((benign(12), proptest::collection::vec(build(false), 1..=2)), 0..=2),
        proptest::collection::vec(proptest::collection::vec(hostile(thorough), 1..=4), 4),
        prop_oneof![12 => Just(0u16), 1 => Just(70u16), 1 => Just(130u16)],
    )
        .prop_map(|(products, clients, silent_crowd)| HostileCase {
            silent_crowd,
            db: DbDesc {
                id_mode: 0,
                products: products
                    .into_iter()
                    .map(|(name, builds)| ProductD { name, builds: builds.into_iter().map(|(b, _)| b).collect() })
                    .collect(),
                cdn_hosts: "cdn.test.com".into(),
                cdn_path: "test/path".into(),
            },
            clients,
        })
}
