//! Database description (the case), its rendering into the server's JSON
//! schema, and the oracle: what a client must read back.

use cascette_formats::bpsv::{BpsvDocument, BpsvValue};
use serde::{Deserialize, Serialize};
use std::collections::BTreeMap;

#[derive(Debug, Clone, Serialize, Deserialize, PartialEq, Eq)]
pub struct BuildD {
    pub version: String,
    pub build: String,
    pub build_config: String,
    pub cdn_config: String,
    pub keyring: Option<String>,
    pub product_config: Option<String>,
    pub cdn_path: Option<String>,
    /// instant of build creation, seconds since the Unix epoch
    pub utc_secs: i64,
    /// UTC offset the timestamp is written with, in minutes
    pub offset_min: i32,
}

#[derive(Debug, Clone, Serialize, Deserialize, PartialEq, Eq)]
pub struct ProductD {
    pub name: String,
    pub builds: Vec<BuildD>,
}

#[derive(Debug, Clone, Serialize, Deserialize, PartialEq, Eq)]
pub struct DbDesc {
    /// how record ids relate to creation time: 0 = increasing with the instant of creation,
    /// 1 = decreasing with it, 2 = file order (round-robin over products), 3 = a fixed scramble.
    /// The `id` field is documented as "unique, monotonically increasing" — nothing ties it to
    /// `build_time`, and the validator accepts any unique ids — while the documented order of a
    /// product's builds is by `build_time`.
    #[serde(default)]
    pub id_mode: u8,
    pub products: Vec<ProductD>,
    /// ServerConfig.cdn_hosts
    pub cdn_hosts: String,
    /// ServerConfig.cdn_path (default path)
    pub cdn_path: String,
}

pub struct Rec<'a> {
    pub b: &'a BuildD,
    pub time_str: String,
    pub file_pos: usize,
}

fn civil_from_days(z: i64) -> (i64, i64, i64) {
    let z = z + 719_468;
    let era = z.div_euclid(146_097);
    let doe = z.rem_euclid(146_097);
    let yoe = (doe - doe / 1460 + doe / 36_524 - doe / 146_096) / 365;
    let y = yoe + era * 400;
    let doy = doe - (365 * yoe + yoe / 4 - yoe / 100);
    let mp = (5 * doy + 2) / 153;
    let d = doy - (153 * mp + 2) / 5 + 1;
    let m = if mp < 10 { mp + 3 } else { mp - 9 };
    (if m <= 2 { y + 1 } else { y }, m, d)
}

/// The documented shape: `2019-11-21T18:33:35+00:00`.
pub fn fmt_ts(utc_secs: i64, offset_min: i32) -> String {
    let local = utc_secs + i64::from(offset_min) * 60;
    let days = local.div_euclid(86_400);
    let sod = local.rem_euclid(86_400);
    let (y, m, d) = civil_from_days(days);
    let sign = if offset_min < 0 { '-' } else { '+' };
    let a = offset_min.abs();
    format!(
        "{y:04}-{m:02}-{d:02}T{:02}:{:02}:{:02}{sign}{:02}:{:02}",
        sod / 3600,
        sod % 3600 / 60,
        sod % 60,
        a / 60,
        a % 60
    )
}

pub fn self_test() -> Option<String> {
    let checks = [
        (1_574_361_215i64, 0i32, "2019-11-21T18:33:35+00:00"),
        (1_704_067_200, 0, "2024-01-01T00:00:00+00:00"),
        (1_704_067_200, -480, "2023-12-31T16:00:00-08:00"),
        (1_704_067_200, 330, "2024-01-01T05:30:00+05:30"),
        (951_782_400, 0, "2000-02-29T00:00:00+00:00"),
    ];
    for (t, o, want) in checks {
        let got = fmt_ts(t, o);
        if got != want {
            return Some(format!("fmt_ts({t},{o}) = {got}, want {want}"));
        }
    }
    None
}

impl DbDesc {
    /// Builds in file order: round-robin over the products, so one product's
    /// builds are not contiguous in the file.
    pub fn file_order(&self) -> Vec<(usize, &BuildD)> {
        let mut out = Vec::new();
        let depth = self.products.iter().map(|p| p.builds.len()).max().unwrap_or(0);
        for j in 0..depth {
            for (i, p) in self.products.iter().enumerate() {
                if let Some(b) = p.builds.get(j) {
                    out.push((i, b));
                }
            }
        }
        out
    }

    /// The JSON document handed to the server.
    pub fn to_records(&self) -> Vec<cascette_ribbit::BuildRecord> {
        let order = self.file_order();
        let mut rank: Vec<usize> = (0..order.len()).collect();
        match self.id_mode % 4 {
            0 => rank.sort_by_key(|&i| (order[i].1.utc_secs, i)),
            1 => rank.sort_by_key(|&i| (std::cmp::Reverse(order[i].1.utc_secs), i)),
            2 => {}
            _ => rank.sort_by_key(|&i| (i.wrapping_mul(7919) % 13, i)),
        }
        let mut id_of = vec![0u64; order.len()];
        for (r, &i) in rank.iter().enumerate() {
            id_of[i] = r as u64 + 1;
        }
        order
            .iter()
            .enumerate()
            .map(|(pos, (pi, b))| {
                let id = id_of[pos];
                cascette_ribbit::BuildRecord {
                    id,
                    product: self.products[*pi].name.clone(),
                    version: b.version.clone(),
                    build: b.build.clone(),
                    build_config: b.build_config.clone(),
                    cdn_config: b.cdn_config.clone(),
                    keyring: b.keyring.clone(),
                    product_config: b.product_config.clone(),
                    build_time: fmt_ts(b.utc_secs, b.offset_min),
                    encoding_ekey: format!("{:032x}", 0xe000_0000_0000_0000u64 as u128 + u128::from(id)),
                    root_ekey: format!("{:032x}", 0xa000_0000_0000_0000u64 as u128 + u128::from(id)),
                    install_ekey: format!("{:032x}", 0xb000_0000_0000_0000u64 as u128 + u128::from(id)),
                    download_ekey: format!("{:032x}", 0xd000_0000_0000_0000u64 as u128 + u128::from(id)),
                    cdn_path: b.cdn_path.clone(),
                }
            })
            .collect()
    }

    /// product name -> its builds (products listed twice are one product)
    pub fn index(&self) -> BTreeMap<String, Vec<Rec<'_>>> {
        let mut m: BTreeMap<String, Vec<Rec<'_>>> = BTreeMap::new();
        for (pos, (pi, b)) in self.file_order().into_iter().enumerate() {
            m.entry(self.products[pi].name.clone()).or_default().push(Rec {
                b,
                time_str: fmt_ts(b.utc_secs, b.offset_min),
                file_pos: pos,
            });
        }
        m
    }
}

#[derive(Debug, Clone, Copy, PartialEq, Eq)]
pub enum Transport {
    V1,
    V2,
    Http,
}

impl Transport {
    pub const ALL: [Transport; 3] = [Transport::V1, Transport::V2, Transport::Http];
    pub fn name(self) -> &'static str {
        match self {
            Transport::V1 => "tcp-v1",
            Transport::V2 => "tcp-v2",
            Transport::Http => "http",
        }
    }
}

#[derive(Debug, Clone, Copy, PartialEq, Eq)]
pub enum Endpoint {
    Versions,
    Cdns,
    Bgdl,
}

impl Endpoint {
    pub const ALL: [Endpoint; 3] = [Endpoint::Versions, Endpoint::Cdns, Endpoint::Bgdl];
    pub fn name(self) -> &'static str {
        match self {
            Endpoint::Versions => "versions",
            Endpoint::Cdns => "cdns",
            Endpoint::Bgdl => "bgdl",
        }
    }
}

/// What one client call produced.
pub enum Outcome {
    Doc(BpsvDocument),
    /// the client refused the answer (parse error, checksum mismatch, ...)
    Unreadable(String),
    /// HTTP status other than 200
    Status(u16),
    ClientPanic { file: String, msg: String },
    /// connection-level failure that is not a timeout (after one retry)
    Trouble(String),
}

impl Outcome {
    fn describe(&self) -> String {
        match self {
            Outcome::Doc(d) => {
                let mut s = format!("document: header [{}]", d.schema().to_header());
                for r in d.rows().iter().take(8) {
                    s.push_str(&format!(" row [{}]", r.to_line()));
                }
                s
            }
            Outcome::Unreadable(m) => format!("client error: {m}"),
            Outcome::Status(c) => format!("HTTP status {c}"),
            Outcome::ClientPanic { file, msg } => format!("client panicked at {file}: {}", msg.chars().take(160).collect::<String>()),
            Outcome::Trouble(m) => format!("no answer: {m}"),
        }
    }
}

#[derive(Debug, Clone)]
pub struct Finding {
    pub key: String,
    pub msg: String,
}

pub const VERSION_REGIONS: [&str; 7] = ["us", "eu", "cn", "kr", "tw", "sg", "xx"];
pub const CDN_REGIONS: [&str; 5] = ["us", "eu", "kr", "tw", "cn"];

fn hex_value(s: &str) -> Option<Vec<u8>> {
    if s.len() % 2 != 0 {
        return None;
    }
    hex::decode(s).ok()
}

/// Expected typed value of a column.
#[derive(Debug, PartialEq, Eq)]
enum Exp {
    Empty,
    Hex(Vec<u8>),
    Dec(i64),
    Str(String),
    /// the database string has no value in the column's type
    NoSuchValue,
}

fn exp_hex(s: Option<&str>) -> Exp {
    match s {
        None | Some("") => Exp::Empty,
        Some(s) => hex_value(s).map_or(Exp::NoSuchValue, Exp::Hex),
    }
}

fn exp_str(s: &str) -> Exp {
    if s.is_empty() { Exp::Empty } else { Exp::Str(s.to_string()) }
}

fn exp_dec(s: &str) -> Exp {
    s.parse::<i64>().map_or(Exp::NoSuchValue, Exp::Dec)
}

fn value_is(v: &BpsvValue, e: &Exp) -> bool {
    match (v, e) {
        (BpsvValue::Empty, Exp::Empty) => true,
        (BpsvValue::Hex(a), Exp::Hex(b)) => a == b,
        (BpsvValue::Dec(a), Exp::Dec(b)) => a == b,
        (BpsvValue::String(a), Exp::Str(b)) => a == b,
        _ => false,
    }
}

fn regions_of(doc: &BpsvDocument, col: &str, want: &[&str]) -> Result<(), String> {
    let schema = doc.schema();
    let mut got: Vec<String> = Vec::new();
    for row in doc.rows() {
        match row.get_by_name(col, schema) {
            Some(BpsvValue::String(s)) => got.push(s.clone()),
            other => return Err(format!("column {col} holds {other:?}")),
        }
    }
    got.sort();
    let mut w: Vec<String> = want.iter().map(|s| (*s).to_string()).collect();
    w.sort();
    if got != w {
        return Err(format!("regions {got:?}, server's list is {w:?}"));
    }
    Ok(())
}

fn columns(doc: &BpsvDocument, cols: &[(&str, Exp)]) -> Result<(), String> {
    let schema = doc.schema();
    for (name, _) in cols {
        if !schema.has_field(name) {
            return Err(format!("column {name} missing from header [{}]", schema.to_header()));
        }
    }
    for (ri, row) in doc.rows().iter().enumerate() {
        for (name, exp) in cols {
            let got = row.get_by_name(name, schema);
            match got {
                Some(v) if value_is(v, exp) => {}
                other => return Err(format!("row {ri} column {name}: client read {other:?}, database says {exp:?}")),
            }
        }
    }
    Ok(())
}

fn doc_is_versions_of(doc: &BpsvDocument, b: &BuildD) -> Result<(), String> {
    regions_of(doc, "Region", &VERSION_REGIONS)?;
    columns(
        doc,
        &[
            ("BuildConfig", exp_hex(Some(&b.build_config))),
            ("CDNConfig", exp_hex(Some(&b.cdn_config))),
            ("KeyRing", exp_hex(b.keyring.as_deref())),
            ("BuildId", exp_dec(&b.build)),
            ("VersionsName", exp_str(&b.version)),
            ("ProductConfig", exp_hex(b.product_config.as_deref())),
        ],
    )
}

fn doc_is_cdns_of(doc: &BpsvDocument, b: &BuildD, db: &DbDesc) -> Result<(), String> {
    regions_of(doc, "Name", &CDN_REGIONS)?;
    let path = b.cdn_path.clone().unwrap_or_else(|| db.cdn_path.clone());
    columns(doc, &[("Path", exp_str(&path)), ("Hosts", exp_str(&db.cdn_hosts))])?;
    // ConfigPath: "usually same as path" - the override or the default are both accepted
    let schema = doc.schema();
    for (ri, row) in doc.rows().iter().enumerate() {
        let got = row.get_by_name("ConfigPath", schema);
        let ok = got.is_some_and(|v| value_is(v, &exp_str(&path)) || value_is(v, &exp_str(&db.cdn_path)));
        if !ok {
            return Err(format!("row {ri} column ConfigPath: client read {got:?}, database says {path:?}"));
        }
        match row.get_by_name("Servers", schema) {
            Some(BpsvValue::String(_)) => {}
            other => return Err(format!("row {ri} column Servers: client read {other:?}")),
        }
    }
    Ok(())
}

fn outcome_is(out: &Outcome, ep: Endpoint, b: &BuildD, db: &DbDesc) -> Result<(), String> {
    match out {
        Outcome::Doc(d) => match ep {
            Endpoint::Cdns => doc_is_cdns_of(d, b, db),
            Endpoint::Versions | Endpoint::Bgdl => doc_is_versions_of(d, b),
        },
        other => Err(other.describe()),
    }
}

// ---------------------------------------------------------------------------
// conditions: which accepted-but-problematic content a string carries

pub fn is_benign_text(s: &str) -> bool {
    !s.is_empty() && s.chars().all(|c| c.is_ascii_alphanumeric() || matches!(c, '_' | '.' | '-' | '/'))
}

/// Label of the highest-priority problematic content of a free-text field.
fn text_condition(s: &str) -> Option<&'static str> {
    if s.contains('\n') {
        Some("linebreak")
    } else if s.contains('|') {
        Some("pipe")
    } else if s.contains('\r') {
        Some("carriage-return")
    } else if !s.is_ascii() {
        Some("non-ascii")
    } else if s.trim() != s {
        Some("edge-whitespace")
    } else if !is_benign_text(s) {
        Some("punctuation")
    } else {
        None
    }
}

/// Condition of build `b` that can explain a wrong/unreadable answer of `ep`.
fn build_condition(ep: Endpoint, b: &BuildD) -> Option<String> {
    match ep {
        Endpoint::Versions | Endpoint::Bgdl => {
            match text_condition(&b.version) {
                Some("linebreak") => return Some("db-validation:linebreak-in-version-breaks-rows".into()),
                Some("pipe") => return Some("db-validation:pipe-in-version-shifts-columns".into()),
                _ => {}
            }
            if exp_dec(&b.build) == Exp::NoSuchValue {
                let digits = b.build.bytes().all(|c| c.is_ascii_digit());
                return Some(if digits {
                    "db-validation:build-number-over-i64-unreadable-as-DEC".into()
                } else {
                    "db-validation:non-numeric-build-unreadable-as-DEC".into()
                });
            }
            if exp_hex(b.keyring.as_deref()) == Exp::NoSuchValue {
                return Some("db-validation:non-hex-keyring-unreadable-as-HEX".into());
            }
            None
        }
        Endpoint::Cdns => {
            let p = b.cdn_path.as_deref()?;
            match text_condition(p) {
                Some("linebreak") => Some("db-validation:linebreak-in-cdn_path-breaks-rows".into()),
                Some("pipe") => Some("db-validation:pipe-in-cdn_path-shifts-columns".into()),
                // the reader trims each line, and ConfigPath is the last column
                _ if p.trim_end() != p => Some("db-validation:trailing-whitespace-of-cdn_path-lost-from-last-column".into()),
                _ => None,
            }
        }
    }
}

pub fn judge_product_query(db: &DbDesc, recs: &[Rec<'_>], product: &str, ep: Endpoint, tr: Transport, out: &Outcome) -> Option<Finding> {
    let max_t = recs.iter().map(|r| r.b.utc_secs).max()?;
    let newest: Vec<&Rec<'_>> = recs.iter().filter(|r| r.b.utc_secs == max_t).collect();
    let mut why = Vec::new();
    for r in &newest {
        match outcome_is(out, ep, r.b, db) {
            Ok(()) => return None,
            Err(e) => why.push(e),
        }
    }
    let ctx = format!(
        "product {product:?} {} over {}: {}{}; timestamps of the product: {:?}",
        ep.name(),
        tr.name(),
        if matches!(out, Outcome::Doc(_)) { format!("{}; ", why.first().cloned().unwrap_or_default()) } else { String::new() },
        out.describe(),
        recs.iter().map(|r| r.time_str.as_str()).collect::<Vec<_>>()
    );
    // what the documented "sorted by build_time" does when it is done on the strings
    let max_s = recs.iter().map(|r| r.time_str.as_str()).max()?;
    let strpick = recs.iter().filter(|r| r.time_str == max_s).min_by_key(|r| r.file_pos)?;
    let offsets_differ = recs.iter().any(|r| r.b.offset_min != recs[0].b.offset_min);
    let wrong_pick = offsets_differ && !newest.iter().any(|n| n.file_pos == strpick.file_pos);
    if wrong_pick && outcome_is(out, ep, strpick.b, db).is_ok() {
        return Some(Finding {
            key: "C15:newest-build:timestamps-compared-as-strings-across-utc-offsets".into(),
            msg: format!("served the build stamped {} although {} is later; {ctx}", strpick.time_str, newest[0].time_str),
        });
    }
    if let Outcome::ClientPanic { file, msg } = out {
        return Some(Finding { key: format!("C15:client:panic:{file}:{}", vh_engine::util::normalise(msg)), msg: ctx });
    }
    let mut cands = newest.clone();
    if wrong_pick {
        cands.push(strpick);
    }
    if let Some(cond) = cands.iter().find_map(|r| build_condition(ep, r.b)) {
        return Some(Finding { key: format!("C15:{cond}"), msg: ctx });
    }
    let kind = match out {
        Outcome::Doc(_) => "rows-differ-from-newest-build",
        Outcome::Unreadable(_) => "client-cannot-read-answer",
        Outcome::Status(_) => "existing-product-refused",
        Outcome::ClientPanic { .. } => "client-panicked",
        Outcome::Trouble(_) => "well-formed-query-not-answered",
    };
    Some(Finding { key: format!("C15:{}:{}:{kind}", tr.name(), ep.name()), msg: ctx })
}

pub fn judge_summary(db: &DbDesc, out: &Outcome) -> Option<Finding> {
    let mut want: Vec<String> = db.index().keys().cloned().collect();
    want.sort();
    let why = match out {
        Outcome::Doc(d) => {
            let schema = d.schema();
            if !schema.has_field("Product") || !schema.has_field("Seqn") {
                format!("header [{}]", schema.to_header())
            } else {
                let mut got: Vec<String> = Vec::new();
                let mut bad = None;
                for row in d.rows() {
                    match row.get_by_name("Product", schema) {
                        Some(BpsvValue::String(s)) => got.push(s.clone()),
                        Some(BpsvValue::Empty) => got.push(String::new()),
                        other => bad = Some(format!("Product column holds {other:?}")),
                    }
                    if !matches!(row.get_by_name("Seqn", schema), Some(BpsvValue::Dec(_))) {
                        bad = Some("Seqn column is not a number".to_string());
                    }
                }
                got.sort();
                match bad {
                    Some(b) => b,
                    None if got == want => return None,
                    None => format!("summary lists {got:?}, database has {want:?}"),
                }
            }
        }
        other => other.describe(),
    };
    let msg = format!("v1/summary: {why}; products {want:?}");
    if let Outcome::ClientPanic { file, msg: pm } = out {
        return Some(Finding { key: format!("C15:client:panic:{file}:{}", vh_engine::util::normalise(pm)), msg });
    }
    let cond = |f: &dyn Fn(&str) -> bool| want.iter().any(|p| f(p));
    let key = if cond(&|p| p.contains('\n')) {
        "C15:db-validation:linebreak-in-product-breaks-summary".to_string()
    } else if cond(&|p| p.contains('|')) {
        "C15:db-validation:pipe-in-product-breaks-summary".to_string()
    } else if cond(&|p| p.trim_start().starts_with('#')) {
        "C15:db-validation:product-starting-with-hash-read-as-comment-in-summary".to_string()
    } else if cond(&|p| p.trim_start() != p) {
        "C15:db-validation:leading-whitespace-of-product-lost-in-summary".to_string()
    } else {
        match out {
            Outcome::Doc(_) => "C15:tcp-v1:summary:rows-differ-from-database".to_string(),
            Outcome::Trouble(_) => "C15:tcp-v1:summary:well-formed-query-not-answered".to_string(),
            _ => "C15:tcp-v1:summary:client-cannot-read-answer".to_string(),
        }
    };
    Some(Finding { key, msg })
}

/// Generator histogram labels of a database.
pub fn db_classes(db: &DbDesc) -> Vec<&'static str> {
    let mut out: Vec<&'static str> = Vec::new();
    let idx = db.index();
    let mut add = |b: bool, l: &'static str| {
        if b && !out.contains(&l) {
            out.push(l);
        }
    };
    add(idx.len() >= 3, "products>=3");
    for (name, recs) in &idx {
        add(recs.len() >= 2, "product-with>=2-builds");
        let max_t = recs.iter().map(|r| r.b.utc_secs).max().unwrap_or(0);
        add(recs.iter().filter(|r| r.b.utc_secs == max_t).count() >= 2, "tied-newest");
        let differ = recs.iter().any(|r| r.b.offset_min != recs[0].b.offset_min);
        add(differ, "mixed-utc-offsets");
        if differ {
            let max_s = recs.iter().map(|r| r.time_str.as_str()).max().unwrap_or("");
            add(recs.iter().any(|r| r.time_str == max_s && r.b.utc_secs != max_t), "string-order-disagrees-with-time");
        }
        add(recs.iter().any(|r| r.b.offset_min != 0) && !differ, "same-nonzero-offset");
        add(recs.len() >= 2 && recs.iter().min_by_key(|r| r.file_pos).is_some_and(|r| r.b.utc_secs != max_t), "newest-not-first-in-file");
        if let Some(c) = text_condition(name) {
            add(true, match c {
                "linebreak" => "product:linebreak",
                "pipe" => "product:pipe",
                "carriage-return" => "product:cr",
                "non-ascii" => "product:non-ascii",
                "edge-whitespace" => "product:edge-whitespace",
                _ => "product:punctuation",
            });
        }
        add(name.contains('/'), "product:slash");
        for r in recs.iter() {
            let b = r.b;
            add(b.keyring.as_deref().is_some_and(|k| !k.is_empty()), "keyring-present");
            add(b.product_config.is_some(), "product_config-present");
            add(b.cdn_path.is_some(), "cdn_path-present");
            add(b.build_config.chars().any(|c| c.is_ascii_uppercase()), "uppercase-hex");
            add(b.build.len() > 1 && b.build.starts_with('0') && b.build.bytes().all(|c| c.is_ascii_digit()), "build:leading-zeros");
            add(b.build.parse::<i64>().is_ok_and(|n| n > i64::from(u32::MAX)), "build:>u32");
            add(b.build.parse::<i64>().is_err(), "build:not-an-i64");
            add(exp_hex(b.keyring.as_deref()) == Exp::NoSuchValue, "keyring:not-hex");
            add(b.keyring.as_deref().is_some_and(|k| !k.is_empty() && k.len() != 32 && hex_value(k).is_some()), "keyring:short-hex");
            if let Some(c) = text_condition(&b.version) {
                add(true, match c {
                    "linebreak" => "version:linebreak",
                    "pipe" => "version:pipe",
                    "carriage-return" => "version:cr",
                    "non-ascii" => "version:non-ascii",
                    "edge-whitespace" => "version:edge-whitespace",
                    _ => "version:punctuation",
                });
            }
            if let Some(c) = b.cdn_path.as_deref().and_then(text_condition) {
                add(true, match c {
                    "linebreak" => "cdn_path:linebreak",
                    "pipe" => "cdn_path:pipe",
                    "carriage-return" => "cdn_path:cr",
                    "non-ascii" => "cdn_path:non-ascii",
                    "edge-whitespace" => "cdn_path:edge-whitespace",
                    _ => "cdn_path:punctuation",
                });
            }
        }
    }
    out
}

/// DESIGN rule: >= 2 builds for a queried product or an optional field present.
pub fn db_nontrivial(db: &DbDesc) -> bool {
    db.index().values().any(|recs| {
        recs.len() >= 2
            || recs.iter().any(|r| r.b.keyring.as_deref().is_some_and(|k| !k.is_empty()) || r.b.product_config.is_some() || r.b.cdn_path.is_some())
    })
}
