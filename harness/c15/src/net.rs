//! The real servers on loopback, this project's clients, and the two case runners.

use crate::model::*;
use crate::{Ctx, HostileCase};
use cascette_protocol::{ProtocolError, RibbitClient, TactClient};
use cascette_ribbit::{AppState, ServerConfig, ServerError};
use serde::{Deserialize, Serialize};
use std::cell::RefCell;
use std::net::SocketAddr;
use std::sync::{Arc, Mutex};
use std::time::Duration;
use tokio::io::{AsyncReadExt, AsyncWriteExt};
use tokio::net::TcpStream;
use tokio::runtime::Runtime;
use tokio::task::JoinHandle;

/// Real-time watchdog for one client call. Never a verdict by itself.
const WATCHDOG: Duration = Duration::from_secs(120);
/// The statement's "keeps answering": generous bound, re-tried once.
const ANSWER_LIMIT: Duration = Duration::from_secs(60);

pub const PROBE_PRODUCT: &str = "probe-product-0001";
pub const ABSENT_PRODUCT: &str = "no-such-product-0001";

pub enum CaseAbort {
    Rejected(String),
    Infra(String),
}

pub struct CaseRun {
    pub findings: Vec<Finding>,
    pub classes: Vec<&'static str>,
    pub nontrivial: bool,
}

// ---------------------------------------------------------------------------
// panic log (thread-local: every case runs its servers and clients on the
// calling thread's current-thread runtime)

thread_local! {
    static PANICS: RefCell<Vec<(String, String)>> = const { RefCell::new(Vec::new()) };
}

pub fn install_panic_log() {
    let prev = std::panic::take_hook();
    std::panic::set_hook(Box::new(move |info| {
        let file = info.location().map(|l| vh_engine::util::shorten_path(l.file())).unwrap_or_else(|| "?".into());
        let msg = if let Some(s) = info.payload().downcast_ref::<&str>() {
            (*s).to_string()
        } else if let Some(s) = info.payload().downcast_ref::<String>() {
            s.clone()
        } else {
            "<non-string panic>".to_string()
        };
        let _ = PANICS.try_with(|p| {
            if let Ok(mut p) = p.try_borrow_mut() {
                if p.len() < 64 {
                    p.push((file, msg));
                }
            }
        });
        prev(info);
    }));
}

fn panics_clear() {
    PANICS.with(|p| p.borrow_mut().clear());
}

fn panics_pop() {
    PANICS.with(|p| {
        p.borrow_mut().pop();
    });
}

fn panics_take() -> Vec<(String, String)> {
    PANICS.with(|p| std::mem::take(&mut *p.borrow_mut()))
}

// ---------------------------------------------------------------------------
// servers

pub struct Servers {
    pub tcp_port: u16,
    pub http_port: u16,
    pub tcp: JoinHandle<Result<(), ServerError>>,
    pub http: JoinHandle<Result<(), ServerError>>,
}

fn free_port() -> std::io::Result<u16> {
    let l = std::net::TcpListener::bind("127.0.0.1:0")?;
    Ok(l.local_addr()?.port())
}

fn local(port: u16) -> SocketAddr {
    SocketAddr::from(([127, 0, 0, 1], port))
}

async fn can_connect(port: u16) -> bool {
    TcpStream::connect(local(port)).await.is_ok()
}

/// Start the real servers on probed free ports. `start_server` binds
/// internally (bind on a `SocketAddr` completes in the task's first poll), so:
/// spawn, let the tasks run, and accept the ports only if both tasks are still
/// alive (a lost bind race ends the task with `*BindFailed`) and connectable.
async fn start_servers(state: Arc<AppState>) -> Result<Servers, String> {
    let mut last = String::new();
    for _attempt in 0..40 {
        let (tcp_port, http_port) = match (free_port(), free_port()) {
            (Ok(a), Ok(b)) if a != b => (a, b),
            (Err(e), _) | (_, Err(e)) => {
                last = format!("cannot probe a free port: {e}");
                continue;
            }
            _ => continue,
        };
        let tcp = tokio::spawn(cascette_ribbit::tcp::start_server(local(tcp_port), state.clone()));
        let http = tokio::spawn(cascette_ribbit::http::start_server(local(http_port), state.clone()));
        let mut up = false;
        // a bound on time, not on polls: on a loaded machine the accept loops may need a while
        let t0 = std::time::Instant::now();
        let mut i = 0u32;
        while t0.elapsed() < Duration::from_secs(20) {
            tokio::task::yield_now().await;
            if tcp.is_finished() || http.is_finished() {
                break;
            }
            if i >= 4 && can_connect(tcp_port).await && can_connect(http_port).await {
                up = true;
                break;
            }
            i += 1;
            if i % 64 == 0 {
                tokio::time::sleep(Duration::from_millis(2)).await;
            }
        }
        if up && !tcp.is_finished() && !http.is_finished() {
            return Ok(Servers { tcp_port, http_port, tcp, http });
        }
        for (name, h) in [("tcp", tcp), ("http", http)] {
            if h.is_finished() {
                match h.await {
                    Ok(Err(e)) => last = format!("{name} server did not start: {e}"),
                    Ok(Ok(())) => last = format!("{name} server returned at once"),
                    Err(e) => last = format!("{name} server task failed at start: {e}"),
                }
            } else {
                h.abort();
            }
        }
    }
    Err(format!("servers could not be started on probed ports (40 attempts): {}", if last.is_empty() { "no attempt became connectable within 20 s" } else { &last }))
}

struct World {
    rt: Runtime,
    servers: Servers,
    ribbit: RibbitClient,
    tact: TactClient,
    _dir: tempfile::TempDir,
}

fn build_world(db: &DbDesc) -> Result<World, CaseAbort> {
    let dir = tempfile::tempdir().map_err(|e| CaseAbort::Infra(format!("tempdir: {e}")))?;
    let path = dir.path().join("builds.json");
    let json = serde_json::to_vec(&db.to_records()).map_err(|e| CaseAbort::Infra(format!("serialise db: {e}")))?;
    std::fs::write(&path, json).map_err(|e| CaseAbort::Infra(format!("write db: {e}")))?;
    let config = ServerConfig {
        http_bind: local(0),
        tcp_bind: local(0),
        builds: path,
        cdn_hosts: db.cdn_hosts.clone(),
        cdn_path: db.cdn_path.clone(),
        tls_cert: None,
        tls_key: None,
    };
    let state = match AppState::new(&config) {
        Ok(s) => Arc::new(s),
        Err(e) => return Err(CaseAbort::Rejected(e.to_string())),
    };
    let rt = tokio::runtime::Builder::new_current_thread()
        .enable_all()
        .build()
        .map_err(|e| CaseAbort::Infra(format!("runtime: {e}")))?;
    let servers = rt.block_on(start_servers(state)).map_err(CaseAbort::Infra)?;
    let ribbit = RibbitClient::new(format!("tcp://127.0.0.1:{}", servers.tcp_port)).map_err(|e| CaseAbort::Infra(format!("RibbitClient::new: {e}")))?;
    let tact = {
        let _g = rt.enter();
        TactClient::new(format!("http://127.0.0.1:{}", servers.http_port), false).map_err(|e| CaseAbort::Infra(format!("TactClient::new: {e}")))?
    };
    Ok(World { rt, servers, ribbit, tact, _dir: dir })
}

impl World {
    /// Ends the server tasks; reports how they ended if they already had.
    fn server_findings(&mut self, findings: &mut Vec<Finding>, ctx: &Ctx) {
        let tcp_done = self.servers.tcp.is_finished();
        let http_done = self.servers.http.is_finished();
        for (name, done) in [("tcp", tcp_done), ("http", http_done)] {
            if !done {
                continue;
            }
            let h = if name == "tcp" { &mut self.servers.tcp } else { &mut self.servers.http };
            let res = self.rt.block_on(h);
            match res {
                Err(e) if e.is_panic() => findings.push(Finding {
                    key: format!("C15:server:{name}-listener-task-panicked"),
                    msg: format!("{e}"),
                }),
                Err(e) => ctx.infra(format!("{name} server task: {e}")),
                Ok(r) => {
                    let m = format!("{r:?}");
                    if m.contains("Too many open files") {
                        ctx.infra(format!("{name} server: {m}"));
                    } else {
                        findings.push(Finding { key: format!("C15:server:{name}-listener-task-ended"), msg: m });
                    }
                }
            }
        }
        for (file, msg) in panics_take() {
            findings.push(Finding {
                key: format!("C15:server:task-panicked:{file}:{}", vh_engine::util::normalise(&msg)),
                msg: format!("a server-side task panicked at {file}: {msg}"),
            });
        }
        self.servers.tcp.abort();
        self.servers.http.abort();
    }
}

// ---------------------------------------------------------------------------
// client calls

fn pct_encode(s: &str) -> String {
    let mut o = String::new();
    for b in s.bytes() {
        if b.is_ascii_alphanumeric() || matches!(b, b'-' | b'_' | b'.' | b'~') {
            o.push(b as char);
        } else {
            o.push_str(&format!("%{b:02X}"));
        }
    }
    o
}

pub fn tcp_can_name(product: &str) -> bool {
    !product.contains('/') && !product.contains('\n')
}

pub fn http_can_name(product: &str) -> bool {
    product != "." && product != ".."
}

enum Raw {
    Out(Outcome),
    /// timeout-like: never a verdict
    Timeout(String),
}

fn classify(e: ProtocolError) -> Raw {
    match e {
        ProtocolError::Parse(m) => Raw::Out(Outcome::Unreadable(m)),
        ProtocolError::Utf8(e) => Raw::Out(Outcome::Unreadable(format!("utf-8: {e}"))),
        ProtocolError::HttpStatus(s) | ProtocolError::ServerError(s) => Raw::Out(Outcome::Status(s.as_u16())),
        ProtocolError::RateLimited { .. } => Raw::Out(Outcome::Status(429)),
        ProtocolError::ServiceUnavailable => Raw::Out(Outcome::Status(503)),
        ProtocolError::Timeout => Raw::Timeout("client timeout".into()),
        ProtocolError::Http(e) => {
            if e.is_timeout() {
                Raw::Timeout(format!("http timeout: {e}"))
            } else {
                Raw::Out(Outcome::Trouble(format!("http: {e:?}")))
            }
        }
        ProtocolError::Network(e) => {
            if e.kind() == std::io::ErrorKind::TimedOut {
                Raw::Timeout(format!("io timeout: {e}"))
            } else {
                Raw::Out(Outcome::Trouble(format!("io: {e}")))
            }
        }
        other => Raw::Out(Outcome::Unreadable(format!("{other}"))),
    }
}

impl World {
    fn call_once(&self, tr: Transport, endpoint: &str, limit: Duration) -> Raw {
        let r = vh_engine::util::catch_panic(|| {
            self.rt.block_on(async {
                match tr {
                    Transport::V1 | Transport::V2 => tokio::time::timeout(limit, self.ribbit.query(endpoint)).await,
                    Transport::Http => tokio::time::timeout(limit, self.tact.query(endpoint)).await,
                }
            })
        });
        match r {
            Err(p) => {
                panics_pop();
                Raw::Out(Outcome::ClientPanic { file: p.file, msg: p.msg })
            }
            Ok(Err(_elapsed)) => Raw::Timeout(format!("no result within {limit:?}")),
            Ok(Ok(Ok(doc))) => Raw::Out(Outcome::Doc(doc)),
            Ok(Ok(Err(e))) => classify(e),
        }
    }

    /// One query with the watchdog discipline: a timeout is retried once and
    /// then reported as infrastructure trouble (None); a connection-level
    /// failure is retried once and then handed to the oracle.
    fn call(&self, ctx: &Ctx, tr: Transport, endpoint: &str) -> Option<Outcome> {
        match self.call_once(tr, endpoint, WATCHDOG) {
            Raw::Out(Outcome::Trouble(_)) | Raw::Timeout(_) => {}
            Raw::Out(o) => return Some(o),
        }
        match self.call_once(tr, endpoint, WATCHDOG) {
            Raw::Out(o) => Some(o),
            Raw::Timeout(m) => {
                ctx.infra(format!("{} {endpoint:?}: {m} (twice)", tr.name()));
                None
            }
        }
    }

    fn endpoint(tr: Transport, product: &str, ep: Endpoint) -> String {
        match tr {
            Transport::V1 => format!("v1/products/{product}/{}", ep.name()),
            Transport::V2 => format!("v2/products/{product}/{}", ep.name()),
            Transport::Http => format!("{}/{}", pct_encode(product), ep.name()),
        }
    }
}

// ---------------------------------------------------------------------------
// section 1/2: database round trip

pub fn run_db_case(ctx: &Ctx, db: &DbDesc) -> Result<CaseRun, CaseAbort> {
    panics_clear();
    let mut w = build_world(db)?;
    let idx = db.index();
    let mut findings: Vec<Finding> = Vec::new();
    let mut classes = db_classes(db);
    let mut answered = 0usize;
    for (product, recs) in &idx {
        for tr in Transport::ALL {
            let nameable = match tr {
                Transport::Http => http_can_name(product),
                _ => tcp_can_name(product),
            };
            if !nameable {
                let l = if tr == Transport::Http { "excluded:http-dot-segment-product" } else { "excluded:tcp-unnameable-product" };
                if !classes.contains(&l) {
                    classes.push(l);
                }
                continue;
            }
            for ep in Endpoint::ALL {
                let Some(out) = w.call(ctx, tr, &World::endpoint(tr, product, ep)) else { continue };
                if matches!(out, Outcome::Doc(_)) {
                    answered += 1;
                }
                if let Some(f) = judge_product_query(db, recs, product, ep, tr, &out) {
                    if !findings.iter().any(|g| g.key == f.key) {
                        findings.push(f);
                    }
                }
            }
        }
    }
    if let Some(out) = w.call(ctx, Transport::V1, "v1/summary") {
        if matches!(out, Outcome::Doc(_)) {
            answered += 1;
        }
        if let Some(f) = judge_summary(db, &out) {
            findings.push(f);
        }
    }
    w.server_findings(&mut findings, ctx);
    Ok(CaseRun { findings, classes, nontrivial: answered > 0 && db_nontrivial(db) })
}

// ---------------------------------------------------------------------------
// section 3: hostile clients

#[derive(Debug, Clone, Serialize, Deserialize, PartialEq, Eq)]
pub enum Hostile {
    /// `v{1,2}/products/<absent>/<endpoint>`
    TcpUnknownProduct { v2: bool, endpoint: u8 },
    /// existing product, endpoint that does not exist
    TcpUnknownEndpoint { v2: bool },
    /// too few / too many path parts
    TcpWrongArity { variant: u8 },
    /// empty line, blank line, or connect-and-close
    TcpEmpty { variant: u8 },
    /// 64 KiB line, terminated or ended by half-close
    TcpOversized { terminated: bool, variant: u8 },
    TcpNonUtf8 { variant: u8 },
    TcpUnknownPrefix { variant: u8 },
    /// partial line, connection held open until the end of the case (thorough)
    TcpNeverTerminated { variant: u8 },
    HttpUnknownProduct { endpoint: u8 },
    HttpUnknownEndpoint,
    HttpGarbage { variant: u8 },
    /// partial request head, held open (thorough)
    HttpNeverTerminated,
    /// `n` unterminated TCP connections opened at once and held open (thorough):
    /// a server that serves connections one after the other would need n x 10 s
    TcpUnterminatedBurst { n: u8 },
}

impl Hostile {
    fn label(&self) -> &'static str {
        match self {
            Hostile::TcpUnknownProduct { .. } => "tcp-unknown-product",
            Hostile::TcpUnknownEndpoint { .. } => "tcp-unknown-endpoint",
            Hostile::TcpWrongArity { .. } => "tcp-wrong-arity",
            Hostile::TcpEmpty { .. } => "tcp-empty",
            Hostile::TcpOversized { .. } => "tcp-64KiB-line",
            Hostile::TcpNonUtf8 { .. } => "tcp-non-utf8",
            Hostile::TcpUnknownPrefix { .. } => "tcp-unknown-version-prefix",
            Hostile::TcpNeverTerminated { .. } => "tcp-never-terminated",
            Hostile::HttpUnknownProduct { .. } => "http-unknown-product",
            Hostile::HttpUnknownEndpoint => "http-unknown-endpoint",
            Hostile::HttpGarbage { .. } => "http-garbage",
            Hostile::HttpNeverTerminated => "http-never-terminated",
            Hostile::TcpUnterminatedBurst { .. } => "tcp-unterminated-burst",
        }
    }
}

const EP: [&str; 3] = ["versions", "cdns", "bgdl"];

enum Plan {
    /// raw bytes to the given port; half-close after writing?; hold the connection open without reading?
    Raw { http: bool, bytes: Vec<u8>, half_close: bool, hold: bool },
    /// TactClient query that must not be answered with a document
    Tact(String),
    /// n held connections with a partial line
    Burst(u8),
}

fn plan(h: &Hostile) -> Plan {
    let line = |s: String| Plan::Raw { http: false, bytes: format!("{s}\r\n").into_bytes(), half_close: false, hold: false };
    match h {
        Hostile::TcpUnknownProduct { v2, endpoint } => {
            // endpoint / 3 picks the spelling of the absent product: plain, or long names of multi-byte
            // characters (whatever a server does with a name - logging, statistics keys, truncation -
            // it does it at byte offsets)
            let product: String = match endpoint / 3 {
                0 => ABSENT_PRODUCT.to_string(),
                1 => "\u{20ac}".repeat(100),
                2 => format!("a{}", "\u{20ac}".repeat(100)),
                3 => format!("ab{}", "\u{65e5}".repeat(120)),
                4 => "\u{e9}".repeat(200),
                5 => format!("x{}", "\u{e9}".repeat(200)),
                6 => "\u{1F600}".repeat(70),
                _ => format!("{}\u{20ac}\u{20ac}", "x".repeat(255)),
            };
            line(format!("v{}/products/{product}/{}", if *v2 { 2 } else { 1 }, EP[*endpoint as usize % 3]))
        }
        Hostile::TcpUnknownEndpoint { v2 } => line(format!("v{}/products/{PROBE_PRODUCT}/nonsense", if *v2 { 2 } else { 1 })),
        Hostile::TcpWrongArity { variant } => line(match variant % 8 {
            0 => format!("v1/products/{PROBE_PRODUCT}"),
            1 => format!("v1/products/{PROBE_PRODUCT}/versions/extra"),
            2 => "v1/products".to_string(),
            3 => "v1/".to_string(),
            4 => "v1/products//versions".to_string(),
            5 => format!("v2/products/{PROBE_PRODUCT}"),
            6 => format!("v2/{PROBE_PRODUCT}/versions"),
            _ => "v1/summary/extra".to_string(),
        }),
        Hostile::TcpEmpty { variant } => match variant % 4 {
            0 => Plan::Raw { http: false, bytes: b"\r\n".to_vec(), half_close: false, hold: false },
            1 => Plan::Raw { http: false, bytes: b"\n".to_vec(), half_close: false, hold: false },
            2 => Plan::Raw { http: false, bytes: b"   \t \r\n".to_vec(), half_close: false, hold: false },
            _ => Plan::Raw { http: false, bytes: Vec::new(), half_close: true, hold: false },
        },
        Hostile::TcpOversized { terminated, variant } => {
            let mut bytes = match variant % 3 {
                0 => Vec::new(),
                1 => b"v1/products/".to_vec(),
                _ => b"v2/products/x/".to_vec(),
            };
            bytes.resize(64 * 1024, b'A');
            if *terminated {
                bytes.extend_from_slice(b"\r\n");
            }
            Plan::Raw { http: false, bytes, half_close: !*terminated, hold: false }
        }
        Hostile::TcpNonUtf8 { variant } => {
            let bytes: Vec<u8> = match variant % 4 {
                0 => b"\xff\xfe\xfd\r\n".to_vec(),
                1 => format!("v1/products/{PROBE_PRODUCT}\u{0}/vers").into_bytes().into_iter().chain(*b"\xc3\x28ions\r\n").collect(),
                2 => b"v1/products/\xf0\x28\x8c\x28/versions\r\n".to_vec(),
                _ => b"v2/\x80\r\n".to_vec(),
            };
            Plan::Raw { http: false, bytes, half_close: false, hold: false }
        }
        Hostile::TcpUnknownPrefix { variant } => line(match variant % 6 {
            0 => format!("v3/products/{PROBE_PRODUCT}/versions"),
            1 => format!("V1/products/{PROBE_PRODUCT}/versions"),
            2 => format!("products/{PROBE_PRODUCT}/versions"),
            3 => "HELLO".to_string(),
            4 => "v1".to_string(),
            _ => format!("GET /{PROBE_PRODUCT}/versions HTTP/1.1"),
        }),
        Hostile::TcpNeverTerminated { variant } => Plan::Raw {
            http: false,
            bytes: match variant % 3 {
                0 => format!("v1/products/{PROBE_PRODUCT}/versions").into_bytes(),
                1 => b"v".to_vec(),
                _ => Vec::new(),
            },
            half_close: false,
            hold: true,
        },
        Hostile::HttpUnknownProduct { endpoint } => Plan::Tact(format!("{ABSENT_PRODUCT}/{}", EP[*endpoint as usize % 3])),
        Hostile::HttpUnknownEndpoint => Plan::Tact(format!("{PROBE_PRODUCT}/nonsense")),
        Hostile::HttpGarbage { variant } => Plan::Raw {
            http: true,
            bytes: match variant % 5 {
                0 => b"\x00\x01\x02garbage\r\n\r\n".to_vec(),
                1 => b"GET\r\n\r\n".to_vec(),
                2 => {
                    let mut b = b"GET /".to_vec();
                    b.resize(64 * 1024, b'a');
                    b.extend_from_slice(b"/versions HTTP/1.1\r\nHost: x\r\n\r\n");
                    b
                }
                3 => Vec::new(),
                _ => format!("POST /{PROBE_PRODUCT}/versions HTTP/1.1\r\nHost: x\r\nContent-Length: 0\r\n\r\n").into_bytes(),
            },
            half_close: true,
            hold: false,
        },
        Hostile::TcpUnterminatedBurst { n } => Plan::Burst(*n),
        Hostile::HttpNeverTerminated => Plan::Raw { http: true, bytes: format!("GET /{PROBE_PRODUCT}/versions HTTP/1.1\r\nHost:").into_bytes(), half_close: false, hold: true },
    }
}

enum HostileResult {
    /// reply bytes (possibly none) and then the connection ended
    Ended(Vec<u8>),
    /// client-level result for TactClient requests: Err(description) or Ok(document text)
    Tact(Result<String, String>),
    Held,
    ConnectFailed(String),
    Watchdog,
}

async fn raw_exchange(port: u16, bytes: Vec<u8>, half_close: bool, hold: bool, held: Arc<Mutex<Vec<TcpStream>>>) -> HostileResult {
    let fut = async {
        let mut s = match TcpStream::connect(local(port)).await {
            Ok(s) => s,
            Err(e) => return HostileResult::ConnectFailed(e.to_string()),
        };
        let w = s.write_all(&bytes).await;
        if hold {
            held.lock().unwrap().push(s);
            return HostileResult::Held;
        }
        if half_close {
            let _ = s.shutdown().await;
        }
        let mut reply = Vec::new();
        if w.is_ok() {
            let mut buf = [0u8; 4096];
            loop {
                match s.read(&mut buf).await {
                    Ok(0) | Err(_) => break,
                    Ok(n) => {
                        reply.extend_from_slice(&buf[..n]);
                        if reply.len() > (1 << 20) {
                            break;
                        }
                    }
                }
            }
        }
        HostileResult::Ended(reply)
    };
    match tokio::time::timeout(WATCHDOG, fut).await {
        Ok(r) => r,
        Err(_) => HostileResult::Watchdog,
    }
}

async fn hostile_client(list: Vec<Hostile>, tcp_port: u16, http_port: u16, held: Arc<Mutex<Vec<TcpStream>>>) -> Vec<(Hostile, HostileResult)> {
    let mut out = Vec::new();
    let mut tact: Option<TactClient> = None;
    for h in list {
        let r = match plan(&h) {
            Plan::Raw { http, bytes, half_close, hold } => raw_exchange(if http { http_port } else { tcp_port }, bytes, half_close, hold, held.clone()).await,
            Plan::Burst(n) => {
                let mut last = HostileResult::Held;
                for _ in 0..n {
                    match raw_exchange(tcp_port, b"v1/products/".to_vec(), false, true, held.clone()).await {
                        HostileResult::Held => {}
                        other => last = other,
                    }
                }
                last
            }
            Plan::Tact(endpoint) => {
                if tact.is_none() {
                    tact = TactClient::new(format!("http://127.0.0.1:{http_port}"), false).ok();
                }
                match &tact {
                    None => HostileResult::ConnectFailed("TactClient::new failed".into()),
                    Some(t) => match tokio::time::timeout(WATCHDOG, t.query(&endpoint)).await {
                        Err(_) => HostileResult::Watchdog,
                        Ok(Ok(doc)) => HostileResult::Tact(Ok(format!("[{}] {} rows", doc.schema().to_header(), doc.row_count()))),
                        Ok(Err(e)) => HostileResult::Tact(Err(e.to_string())),
                    },
                }
            }
        };
        out.push((h, r));
    }
    out
}

fn reply_is_data(http: bool, reply: &[u8]) -> bool {
    let text = String::from_utf8_lossy(reply);
    if http {
        text.starts_with("HTTP/1.1 2") || text.starts_with("HTTP/1.0 2")
    } else {
        // a BPSV header line means a data document (plain or inside MIME)
        text.contains("!STRING:0")
    }
}

fn probe_db(db: &DbDesc) -> DbDesc {
    let mut db = db.clone();
    db.products.push(ProductD {
        name: PROBE_PRODUCT.to_string(),
        builds: vec![
            BuildD {
                version: "1.14.2.42597".into(),
                build: "42597".into(),
                build_config: "0123456789abcdef0123456789abcdef".into(),
                cdn_config: "fedcba9876543210fedcba9876543210".into(),
                keyring: None,
                product_config: None,
                cdn_path: None,
                utc_secs: 1_704_067_200,
                offset_min: 0,
            },
            BuildD {
                version: "1.15.0.52610".into(),
                build: "52610".into(),
                build_config: "1123456789abcdef0123456789abcdef".into(),
                cdn_config: "eedcba9876543210fedcba9876543210".into(),
                keyring: Some("3ca57fe7319a297346440e4d2a03a0cd".into()),
                product_config: Some("53020d32e1a25648c8e1eafd5771935f".into()),
                cdn_path: Some("tpr/probe".into()),
                utc_secs: 1_717_200_000,
                offset_min: 0,
            },
        ],
    });
    db
}

impl World {
    /// The well-formed query that must keep being answered. An attempt ends
    /// after ANSWER_LIMIT or the client's own 30 s read timeout; only four
    /// misses in a row (>= 2 minutes without an answer) are the statement's
    /// "wedged" clause.
    fn probe(&self, db: &DbDesc, recs: &[Rec<'_>], phase: &'static str, tr: Transport, ep: Endpoint, findings: &mut Vec<Finding>) -> bool {
        let endpoint = World::endpoint(tr, PROBE_PRODUCT, ep);
        let mut last = String::new();
        for _ in 0..4 {
            match self.call_once(tr, &endpoint, ANSWER_LIMIT) {
                Raw::Out(Outcome::Trouble(m)) => last = m,
                Raw::Timeout(m) => last = m,
                Raw::Out(out) => {
                    if let Some(mut f) = judge_product_query(db, recs, PROBE_PRODUCT, ep, tr, &out) {
                        f.msg = format!("{phase}: {}", f.msg);
                        if !findings.iter().any(|g| g.key == f.key) {
                            findings.push(f);
                        }
                        return false;
                    }
                    return true;
                }
            }
        }
        let key = format!("C15:robustness:well-formed-query-not-answered:{phase}:{}", tr.name());
        if !findings.iter().any(|g| g.key == key) {
            findings.push(Finding { key, msg: format!("{endpoint:?} got no answer in 4 attempts (limit {ANSWER_LIMIT:?} each, client read timeout 30 s): {last}") });
        }
        false
    }
}

pub fn run_hostile_case(ctx: &Ctx, c: &HostileCase) -> Result<CaseRun, CaseAbort> {
    panics_clear();
    let db = probe_db(&c.db);
    let mut w = build_world(&db)?;
    let idx = db.index();
    let recs = idx.get(PROBE_PRODUCT).ok_or_else(|| CaseAbort::Infra("probe product missing".into()))?;
    let mut findings: Vec<Finding> = Vec::new();
    let mut classes: Vec<&'static str> = Vec::new();
    let held: Arc<Mutex<Vec<TcpStream>>> = Arc::new(Mutex::new(Vec::new()));

    // a crowd of clients that connect and never send a request line: each of them may occupy the
    // server for its read timeout, none of them may keep other clients from being answered
    if c.silent_crowd > 0 {
        let port = w.servers.tcp_port;
        let n = c.silent_crowd;
        let held2 = held.clone();
        let connected = w.rt.block_on(async move {
            let mut ok = 0u16;
            for _ in 0..n {
                if let Ok(Ok(s)) = tokio::time::timeout(WATCHDOG, TcpStream::connect(("127.0.0.1", port))).await {
                    held2.lock().unwrap().push(s);
                    ok += 1;
                }
            }
            // let the accept loop take them all
            tokio::time::sleep(std::time::Duration::from_millis(30)).await;
            ok
        });
        if connected >= 64 {
            classes.push("silent-crowd>=64-connected");
        }
    }

    // hostile clients run as tasks of the same runtime: they make progress
    // exactly while the probes below are in flight ("meanwhile")
    let tasks: Vec<JoinHandle<Vec<(Hostile, HostileResult)>>> = c
        .clients
        .iter()
        .map(|list| w.rt.spawn(hostile_client(list.clone(), w.servers.tcp_port, w.servers.http_port, held.clone())))
        .collect();

    let mut answered_meanwhile = 0usize;
    let mut round = 0usize;
    loop {
        let busy = tasks.iter().any(|t| !t.is_finished());
        for tr in Transport::ALL {
            let ep = Endpoint::ALL[round % 3];
            if w.probe(&db, recs, "during-hostile-traffic", tr, ep, &mut findings) && busy {
                answered_meanwhile += 1;
            }
        }
        round += 1;
        if !busy || round >= 400 {
            break;
        }
    }
    let mut results: Vec<(Hostile, HostileResult)> = Vec::new();
    for t in tasks {
        match w.rt.block_on(async { tokio::time::timeout(WATCHDOG * 2, t).await }) {
            Ok(Ok(v)) => results.extend(v),
            Ok(Err(e)) => {
                if e.is_panic() {
                    panics_pop();
                }
                ctx.infra(format!("hostile client task failed: {e}"))
            }
            Err(_) => ctx.infra("hostile client task did not finish (watchdog)".to_string()),
        }
    }
    let mut completed = 0usize;
    for (h, r) in &results {
        let l = h.label();
        if !classes.contains(&l) {
            classes.push(l);
        }
        let http = matches!(h, Hostile::HttpGarbage { .. } | Hostile::HttpNeverTerminated);
        match r {
            HostileResult::Held => completed += 1,
            HostileResult::Ended(reply) => {
                completed += 1;
                if reply.is_empty() {
                    if !classes.contains(&"closed-without-reply") {
                        classes.push("closed-without-reply");
                    }
                } else if !classes.contains(&"error-reply") {
                    classes.push("error-reply");
                }
                if reply_is_data(http, reply) {
                    findings.push(Finding {
                        key: format!("C15:robustness:malformed-request-answered-with-data:{l}"),
                        msg: format!("{h:?} was answered with {:?}", String::from_utf8_lossy(&reply[..reply.len().min(300)])),
                    });
                }
            }
            HostileResult::Tact(Err(_)) => {
                completed += 1;
                if !classes.contains(&"error-reply") {
                    classes.push("error-reply");
                }
            }
            HostileResult::Tact(Ok(doc)) => findings.push(Finding {
                key: format!("C15:robustness:malformed-request-answered-with-data:{l}"),
                msg: format!("{h:?} was answered with a document: {doc}"),
            }),
            HostileResult::ConnectFailed(e) => findings.push(Finding {
                key: "C15:robustness:server-refuses-connections".to_string(),
                msg: format!("{h:?}: connect failed: {e}"),
            }),
            HostileResult::Watchdog => ctx.infra(format!("{h:?}: neither reply nor close within {WATCHDOG:?}")),
        }
    }
    // afterwards (held connections are still open)
    let mut answered_after = 0usize;
    for tr in Transport::ALL {
        for ep in Endpoint::ALL {
            if w.probe(&db, recs, "after-hostile-traffic", tr, ep, &mut findings) {
                answered_after += 1;
            }
        }
    }
    if answered_meanwhile > 0 {
        classes.push("probe-answered-while-hostile-clients-active");
    }
    if !held.lock().unwrap().is_empty() {
        classes.push("probe-answered-with-unterminated-connections-open");
    }
    w.server_findings(&mut findings, ctx);
    held.lock().unwrap().clear();
    Ok(CaseRun { findings, classes, nontrivial: completed > 0 && answered_after > 0 })
}

// ---------------------------------------------------------------------------
// a well-formed request line that arrives in several TCP segments

#[derive(Debug, Clone, serde::Serialize, serde::Deserialize)]
pub struct SplitCase {
    /// request line without its terminator
    pub command: String,
    /// "\r\n" or "\n"
    pub terminator: String,
    /// 2 or 3 pieces
    pub pieces: u8,
}

pub fn split_cases() -> Vec<SplitCase> {
    let mut v = Vec::new();
    for command in [
        "v1/summary".to_string(),
        format!("v1/products/{PROBE_PRODUCT}/versions"),
        format!("v1/products/{PROBE_PRODUCT}/cdns"),
        format!("v1/products/{PROBE_PRODUCT}/bgdl"),
        format!("v2/products/{PROBE_PRODUCT}/versions"),
        format!("v2/products/{PROBE_PRODUCT}/cdns"),
        format!("v2/products/{PROBE_PRODUCT}/bgdl"),
    ] {
        for terminator in ["\r\n", "\n"] {
            for pieces in [2u8, 3] {
                v.push(SplitCase { command: command.clone(), terminator: terminator.to_string(), pieces });
            }
        }
    }
    v
}

/// An answer without what legitimately changes from one second to the next: the `## seqn` line,
/// the checksum computed over it, and the sequence numbers in the rows of a summary.
fn stable_part(resp: &[u8]) -> Vec<u8> {
    let mut out = Vec::with_capacity(resp.len());
    for line in resp.split_inclusive(|&b| b == b'\n') {
        if line.starts_with(b"## seqn") || line.starts_with(b"Checksum:") {
            continue;
        }
        // the summary also writes the sequence number (a Unix time) into every row
        let mut i = 0;
        while i < line.len() {
            if line[i].is_ascii_digit() {
                let j = line[i..].iter().position(|b| !b.is_ascii_digit()).map_or(line.len(), |p| i + p);
                if j - i >= 9 {
                    out.push(b'#');
                } else {
                    out.extend_from_slice(&line[i..j]);
                }
                i = j;
            } else {
                out.push(line[i]);
                i += 1;
            }
        }
    }
    out
}

async fn raw_pieces(port: u16, pieces: &[&[u8]]) -> Result<Vec<u8>, String> {
    let mut s = tokio::time::timeout(WATCHDOG, TcpStream::connect(local(port))).await.map_err(|_| "connect: watchdog".to_string())?.map_err(|e| format!("connect: {e}"))?;
    let _ = s.set_nodelay(true);
    for (i, p) in pieces.iter().enumerate() {
        s.write_all(p).await.map_err(|e| format!("write: {e}"))?;
        s.flush().await.map_err(|e| format!("flush: {e}"))?;
        if i + 1 < pieces.len() {
            // long enough for the first segment to be delivered and read on its own
            tokio::time::sleep(Duration::from_millis(15)).await;
        }
    }
    let mut out = Vec::new();
    match tokio::time::timeout(WATCHDOG, s.read_to_end(&mut out)).await {
        Err(_) => Err("no end of response: watchdog".into()),
        Ok(Err(e)) if out.is_empty() => Err(format!("read: {e}")),
        Ok(_) => Ok(out),
    }
}

/// The answer to a request line must not depend on how TCP cut it into segments: the first and last three and every third cut
/// position (2 pieces) or 14 pairs of cut positions (3 pieces) against the one-piece answer.
pub fn run_split_case(_ctx: &Ctx, c: &SplitCase) -> Result<CaseRun, CaseAbort> {
    panics_clear();
    let db = probe_db(&crate::strat::feature_cases()[0]);
    let mut w = build_world(&db)?;
    let port = w.servers.tcp_port;
    let line = format!("{}{}", c.command, c.terminator).into_bytes();
    let mut findings: Vec<Finding> = Vec::new();
    let whole = w.rt.block_on(raw_pieces(port, &[&line]));
    let again = w.rt.block_on(raw_pieces(port, &[&line]));
    let (whole, again) = match (whole, again) {
        (Ok(a), Ok(b)) => (a, b),
        (Err(e), _) | (_, Err(e)) => return Err(CaseAbort::Infra(format!("one-piece request {:?}: {e}", c.command))),
    };
    let mut classes: Vec<&'static str> = vec![if c.pieces == 2 { "two-pieces" } else { "three-pieces" }];
    if whole.is_empty() {
        return Err(CaseAbort::Infra(format!("one-piece request {:?} got an empty answer", c.command)));
    }
    let whole = stable_part(&whole);
    if whole != stable_part(&again) {
        // answers carry something else that changes from call to call: nothing to compare
        classes.push("answer-not-repeatable");
        return Ok(CaseRun { findings, classes, nontrivial: false });
    }
    let n = line.len();
    let mut cuts: Vec<Vec<usize>> = Vec::new();
    if c.pieces == 2 {
        for a in 1..n {
            if a <= 3 || a + 3 >= n || a % 3 == 0 {
                cuts.push(vec![a]);
            }
        }
    } else {
        let mut k = 0;
        for a in 1..n {
            for b in a + 1..n {
                k += 1;
                if k % 7 == 0 {
                    cuts.push(vec![a, b]);
                }
            }
        }
        cuts.truncate(14);
    }
    for cut in cuts {
        let mut pieces: Vec<&[u8]> = Vec::new();
        let mut from = 0;
        for &at in &cut {
            pieces.push(&line[from..at]);
            from = at;
        }
        pieces.push(&line[from..]);
        let got = w.rt.block_on(raw_pieces(port, &pieces));
        let bad = match &got {
            Ok(g) => stable_part(g) != whole,
            Err(_) => true,
        };
        if bad {
            let what = match got {
                Ok(g) => format!("{} bytes: {:?}", g.len(), String::from_utf8_lossy(&g[..g.len().min(80)])),
                Err(e) => e,
            };
            findings.push(Finding {
                key: "C15:tcp:answer-depends-on-how-the-request-line-is-segmented".into(),
                msg: format!("request line {:?} sent as pieces cut at {:?}: {what}; sent in one piece it is answered with {} bytes", String::from_utf8_lossy(&line), cut, whole.len()),
            });
            break;
        }
    }
    w.server_findings(&mut findings, _ctx);
    Ok(CaseRun { findings, classes, nontrivial: true })
}
