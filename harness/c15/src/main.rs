//! C15 — what the Ribbit server emits, the Ribbit client reads back as the database says.
//!
//! Generated build databases are loaded by the real `AppState::new`; the real
//! `cascette_ribbit::tcp::start_server` and `http::start_server` run on probed
//! loopback ports inside the case's own current-thread runtime; this project's
//! own clients (`RibbitClient` v1 + v2, `TactClient`) query every product and
//! endpoint; the oracle is the generated database.

mod strat;
mod model;
mod net;

use model::*;
use net::*;
use serde::{Deserialize, Serialize};
use std::sync::{Arc, Mutex};
use vh_engine::{Check, Known, Section, Tier, Verdict};

pub struct Ctx {
    pub known: Known,
    pub infra: Mutex<Vec<String>>,
    pub tier: Tier,
}

impl Ctx {
    pub fn infra(&self, s: String) {
        let mut g = self.infra.lock().unwrap();
        if g.len() < 32 {
            g.push(s);
        }
    }
}

/// One database case: every product x endpoint x transport is queried.
#[derive(Debug, Clone, Serialize, Deserialize)]
pub struct DbCase {
    pub db: DbDesc,
}

/// Hostile traffic case.
#[derive(Debug, Clone, Serialize, Deserialize)]
pub struct HostileCase {
    pub db: DbDesc,
    /// one request list per concurrent hostile client
    pub clients: Vec<Vec<Hostile>>,
    /// number of TCP clients that connect and then stay silent (no request line) while the probes run
    #[serde(default)]
    pub silent_crowd: u16,
}

fn verdict_from(ctx: &Ctx, mut v: Verdict, findings: Vec<Finding>) -> Verdict {
    for f in findings {
        if ctx.known.is_open(&f.key) {
            if !v.known_hits.contains(&f.key) {
                v.known_hits.push(f.key);
            }
        } else {
            v = v.with_fail(f.key, f.msg);
        }
    }
    v
}

fn check_db(ctx: &Ctx, c: &DbCase) -> Verdict {
    let run = match run_db_case(ctx, &c.db) {
        Ok(r) => r,
        Err(CaseAbort::Rejected(_why)) => return Verdict::pass().class("db-rejected-by-validation"),
        Err(CaseAbort::Infra(m)) => {
            ctx.infra(m);
            return Verdict::pass().class("infra-skipped");
        }
    };
    let mut v = Verdict::pass().nontrivial(run.nontrivial);
    for cl in &run.classes {
        v = v.class(cl);
    }
    verdict_from(ctx, v, run.findings)
}

fn check_hostile(ctx: &Ctx, c: &HostileCase) -> Verdict {
    let run = match run_hostile_case(ctx, c) {
        Ok(r) => r,
        Err(CaseAbort::Rejected(_why)) => return Verdict::pass().class("db-rejected-by-validation"),
        Err(CaseAbort::Infra(m)) => {
            ctx.infra(m);
            return Verdict::pass().class("infra-skipped");
        }
    };
    let mut v = Verdict::pass().nontrivial(run.nontrivial);
    for cl in &run.classes {
        v = v.class(cl);
    }
    verdict_from(ctx, v, run.findings)
}

fn drain_infra(ck: &mut Check, ctx: &Ctx) {
    let msgs: Vec<String> = std::mem::take(&mut *ctx.infra.lock().unwrap());
    for m in msgs {
        ck.infra(m);
    }
}

fn main() {
    let mut ck = Check::from_args("C15", "exploration");
    install_panic_log();
    let tier = ck.tier;
    let thorough = tier == Tier::Thorough;
    ck.extra(
        "rule",
        "generated build databases (1-6 products x 1-4 builds; benign and adversarial strings that validation lets through; \
         same-offset, mixed-offset and tied timestamps) served by the real tcp/http start_server on loopback; every queryable \
         product x {versions,cdns,bgdl} x {RibbitClient v1, RibbitClient v2, TactClient http} + v1/summary compared with the \
         database (typed values; newest = chronologically latest, ties: any). Non-trivial = database accepted, at least one \
         query answered, and a queried product has >= 2 builds or an optional field present. Hostile section: non-trivial = \
         at least one hostile request completed while a well-formed probe was answered."
            .into(),
    );
    ck.assume("region lists (7 for versions/bgdl, 5 for cdns) and the Hosts/Path defaults are read from the server code and ServerConfig, not from the database");
    ck.assume("HTTP requests are made with the product percent-encoded (RFC 3986 path segment); products '.' and '..' are not requested over HTTP");
    ck.assume("TCP requests are made only for products without '/' and without a line feed (they cannot be named in a request line)");
    ck.assume("'several clients at once' runs on the real kernel with tasks interleaved on one runtime thread: best effort, not all schedules");
    if let Some(e) = model::self_test() {
        ck.infra(format!("model self-test failed: {e}"));
        ck.finish();
    }
    let ctx = Arc::new(Ctx { known: ck.known().clone(), infra: Mutex::new(Vec::new()), tier });

    // 1. one feature at a time (deterministic)
    let c1 = ctx.clone();
    ck.run(
        Section::enumerate(
            "db-features",
            "hand-enumerated single-feature databases: every special character x {product, version, cdn_path} x {start, middle, end}; \
             build/keyring/hash-case/timestamp variants one at a time",
            || Box::new(strat::feature_cases().into_iter().map(|db| DbCase { db })),
            move |c: &DbCase| check_db(&c1, c),
        )
        .shards(tier.pick(12, 16)),
    );
    drain_infra(&mut ck, &ctx);

    // 2. random databases
    let c2 = ctx.clone();
    ck.run(
        Section::pbt(
            "db-roundtrip",
            tier.pick(3_000, 150_000),
            || {
                use proptest::strategy::Strategy;
                strat::db_strategy().prop_map(|db| DbCase { db }).boxed()
            },
            move |c: &DbCase| check_db(&c2, c),
        )
        .shards(tier.pick(12, 16))
        .shrink_iters(tier.pick(300, 1000)),
    );
    drain_infra(&mut ck, &ctx);

    // 3. hostile request lines from 4 concurrent clients
    let c3 = ctx.clone();
    ck.run(
        Section::pbt(
            "hostile-clients",
            tier.pick(500, 20_000),
            move || {
                use proptest::strategy::Strategy;
                strat::hostile_strategy(thorough).boxed()
            },
            move |c: &HostileCase| check_hostile(&c3, c),
        )
        .shards(tier.pick(8, 16))
        // a "not answered" case costs minutes of real time per evaluation
        .shrink_iters(tier.pick(100, 30)),
    );
    drain_infra(&mut ck, &ctx);

    // 4. one request line, many segmentations
    let c4 = ctx.clone();
    ck.run(
        Section::enumerate(
            "split-request-line",
            "v1 summary / versions / cdns / bgdl and v2 versions / cdns / bgdl, terminated by CRLF or LF, written to the TCP server in two pieces (cut at the first three, the last three and every third position; 15 ms apart, TCP_NODELAY) and in three pieces at 14 pairs of positions: the answer must equal the answer to the line written in one piece (the `## seqn` and `Checksum:` lines, which follow the clock, left out)",
            || Box::new(net::split_cases().into_iter()),
            move |c: &net::SplitCase| {
                let run = match net::run_split_case(&c4, c) {
                    Ok(r) => r,
                    Err(CaseAbort::Rejected(_)) => return Verdict::pass().class("db-rejected-by-validation"),
                    Err(CaseAbort::Infra(m)) => {
                        c4.infra(m);
                        return Verdict::pass().class("infra-skipped");
                    }
                };
                let mut v = Verdict::pass().nontrivial(run.nontrivial);
                for cl in &run.classes {
                    v = v.class(cl);
                }
                verdict_from(&c4, v, run.findings)
            },
        )
        .shards(tier.pick(14, 16)),
    );
    drain_infra(&mut ck, &ctx);

    ck.finish();
}
