fn main() {}
