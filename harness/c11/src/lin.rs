//! Wing–Gong linearizability search over a sequential model.
//!
//! A history is a set of completed calls, each with the positions of its
//! invoke and return events on one common time line (the scheduler's log: one
//! task runs at a time, so the events are totally ordered). The history is
//! linearizable iff the calls can be put in a total order that (a) respects
//! real time — a call that returned before another was invoked comes first —
//! and (b) is a legal run of the sequential model, i.e. applying the calls in
//! that order to the model produces exactly the observed results.
//!
//! The model may be non-deterministic (`step` returns every allowed successor
//! state, none = the observed result is impossible in that state): an
//! operation that returned an error may or may not have taken effect, an
//! expired entry may or may not still be physically present, and — only in the
//! "may evict" mode, used when an eviction was observed — a read may miss.
//!
//! Search: depth-first over "minimal" calls (no other pending call returned
//! before their invocation), memoised on (set of linearized calls, state).
//! Histories have at most 9 concurrent calls plus sequential setup/sweep
//! calls, so the search is tiny.

use std::collections::HashSet;
use std::hash::Hash;

pub trait Model {
    type State: Clone + Eq + Hash;
    type Call;
    /// every state the model may be in after `call` (with its *observed* result)
    /// took effect in `state`; empty = the observed result is not allowed here
    fn step(&self, state: &Self::State, call: &Self::Call) -> Vec<Self::State>;
}

pub struct Timed<C> {
    pub call: C,
    pub inv: usize,
    pub ret: usize,
}

pub struct Stuck<S> {
    /// longest legal linearization prefix found (indices into the calls)
    pub prefix: Vec<usize>,
    /// model state after that prefix
    pub state: S,
    /// the minimal calls none of which can be linearized next
    pub blocked: Vec<usize>,
}

pub fn linearize<M: Model>(model: &M, init: M::State, calls: &[Timed<M::Call>]) -> Result<Vec<usize>, Stuck<M::State>> {
    assert!(calls.len() <= 64, "history too long for the bitmask search");
    let full: u64 = if calls.len() == 64 { u64::MAX } else { (1u64 << calls.len()) - 1 };
    let mut seen: HashSet<(u64, M::State)> = HashSet::new();
    let mut order: Vec<usize> = Vec::new();
    let mut best: Option<Stuck<M::State>> = None;
    if dfs(model, calls, full, 0, &init, &mut order, &mut seen, &mut best) {
        Ok(order)
    } else {
        Err(best.unwrap_or(Stuck { prefix: Vec::new(), state: init, blocked: Vec::new() }))
    }
}

#[allow(clippy::too_many_arguments)]
fn dfs<M: Model>(
    model: &M,
    calls: &[Timed<M::Call>],
    full: u64,
    done: u64,
    state: &M::State,
    order: &mut Vec<usize>,
    seen: &mut HashSet<(u64, M::State)>,
    best: &mut Option<Stuck<M::State>>,
) -> bool {
    if done == full {
        return true;
    }
    if !seen.insert((done, state.clone())) {
        return false;
    }
    // earliest return among the pending calls: a call invoked after it cannot be next
    let min_ret = calls.iter().enumerate().filter(|(i, _)| done & (1 << i) == 0).map(|(_, c)| c.ret).min().unwrap_or(usize::MAX);
    let mut minimal = Vec::new();
    for (i, c) in calls.iter().enumerate() {
        if done & (1 << i) != 0 || c.inv > min_ret {
            continue;
        }
        minimal.push(i);
        for next in model.step(state, &c.call) {
            order.push(i);
            if dfs(model, calls, full, done | (1 << i), &next, order, seen, best) {
                return true;
            }
            order.pop();
        }
    }
    if best.as_ref().is_none_or(|b| order.len() > b.prefix.len()) {
        *best = Some(Stuck { prefix: order.clone(), state: state.clone(), blocked: minimal });
    }
    false
}

#[cfg(test)]
mod tests {
    use super::*;

    /// a register: Write(v) / Read -> v
    struct Reg;
    #[derive(Clone, Copy)]
    enum C {
        W(u8),
        R(u8),
    }
    impl Model for Reg {
        type State = u8;
        type Call = C;
        fn step(&self, s: &u8, c: &C) -> Vec<u8> {
            match c {
                C::W(v) => vec![*v],
                C::R(v) => {
                    if v == s {
                        vec![*s]
                    } else {
                        vec![]
                    }
                }
            }
        }
    }

    fn t(call: C, inv: usize, ret: usize) -> Timed<C> {
        Timed { call, inv, ret }
    }

    #[test]
    fn sequential_legal_and_illegal() {
        assert!(linearize(&Reg, 0, &[t(C::W(1), 0, 1), t(C::R(1), 2, 3)]).is_ok());
        assert!(linearize(&Reg, 0, &[t(C::W(1), 0, 1), t(C::R(0), 2, 3)]).is_err());
    }

    #[test]
    fn overlapping_calls_may_reorder() {
        // W(1) overlaps R(0): legal (read first)
        assert!(linearize(&Reg, 0, &[t(C::W(1), 0, 3), t(C::R(0), 1, 2)]).is_ok());
        // W(1) returned, then two reads 1 then 0: stale read is illegal
        assert!(linearize(&Reg, 0, &[t(C::W(1), 0, 1), t(C::R(1), 2, 3), t(C::R(0), 4, 5)]).is_err());
        // W(1) || W(2), then R(1) then R(2) sequentially: illegal
        assert!(linearize(&Reg, 0, &[t(C::W(1), 0, 3), t(C::W(2), 1, 2), t(C::R(1), 4, 5), t(C::R(2), 6, 7)]).is_err());
        // W(1) || W(2), then R(1): legal (W2 first)
        assert!(linearize(&Reg, 0, &[t(C::W(1), 0, 3), t(C::W(2), 1, 2), t(C::R(1), 4, 5)]).is_ok());
    }
}
