//! C11 / memory-with-cleanup-task: the background sweep of `MemoryCache::new_with_cleanup` is one
//! more task that works on the cache while others use it. Paused tokio clock, sweep interval
//! 60 s: two tasks put values (some expired from the start, some good for an hour), the clock is
//! advanced over one or two sweep ticks between and after their operations, the tasks finish;
//! then every key is read and "the reported entry count and byte usage equal the real contents".

use crate::sys::SKey;
use bytes::Bytes;
use cascette_cache::config::MemoryCacheConfig;
use cascette_cache::memory_cache::MemoryCache;
use cascette_cache::traits::AsyncCache;
use serde::{Deserialize, Serialize};
use std::sync::Arc;
use std::time::Duration;
use vh_engine::Verdict;

#[derive(Debug, Clone, Serialize, Deserialize)]
pub struct CleanupCase {
    /// per task: (key index 0..6, expired from the start, value length)
    pub tasks: Vec<Vec<(u8, bool, u8)>>,
    /// advance the clock over a sweep tick after every n-th operation of a task (0: only at the end)
    pub tick_every: u8,
}

pub fn all_cases() -> Vec<CleanupCase> {
    let mut v = Vec::new();
    let plans: [&[(u8, bool, u8)]; 5] = [
        &[(0, true, 10)],
        &[(0, true, 10), (1, false, 20)],
        &[(0, true, 10), (0, false, 7)],
        &[(0, false, 9), (1, true, 30), (2, true, 31)],
        &[(3, true, 5), (4, true, 6), (5, false, 7), (3, false, 8)],
    ];
    for a in plans {
        for b in plans {
            for tick_every in [0u8, 1, 2] {
                v.push(CleanupCase { tasks: vec![a.to_vec(), b.iter().map(|(k, z, l)| ((k + 1) % 6, *z, *l + 1)).collect()], tick_every });
            }
        }
    }
    v
}

pub fn check(c: &CleanupCase) -> Verdict {
    let Ok(rt) = tokio::runtime::Builder::new_current_thread().enable_all().start_paused(true).build() else { return Verdict::pass().class("VACUOUS:no-runtime") };
    let case = c.clone();
    rt.block_on(async move {
        let cfg = MemoryCacheConfig { max_entries: 1000, max_memory_bytes: None, default_ttl: None, cleanup_interval: Duration::from_secs(60), ..MemoryCacheConfig::default() };
        let cache = match MemoryCache::<SKey>::new_with_cleanup(cfg) {
            Ok(c) => Arc::new(c),
            Err(e) => return Verdict::fail("C11:memory-cleanup:cannot-construct-cache", e.to_string()),
        };
        let mut handles = Vec::new();
        for (t, plan) in case.tasks.iter().cloned().enumerate() {
            let (cache, every) = (Arc::clone(&cache), case.tick_every);
            handles.push(tokio::spawn(async move {
                for (i, (k, expired, len)) in plan.into_iter().enumerate() {
                    let v = Bytes::from(vec![0xA0 + t as u8; usize::from(len)]);
                    let ttl = if expired { Duration::ZERO } else { Duration::from_secs(3600) };
                    let _ = cache.put_with_ttl(SKey(format!("key{k}")), v, ttl).await;
                    if every > 0 && (i + 1) % usize::from(every) == 0 {
                        // let the sweep run in between
                        tokio::time::sleep(Duration::from_secs(61)).await;
                    } else {
                        tokio::task::yield_now().await;
                    }
                }
            }));
        }
        for h in handles {
            let _ = h.await;
        }
        // one more sweep tick after all tasks have finished
        tokio::time::sleep(Duration::from_secs(61)).await;
        tokio::task::yield_now().await;
        // the real contents
        let (mut hits, mut bytes) = (0usize, 0usize);
        for k in 0..6 {
            if let Ok(Some(b)) = cache.get(&SKey(format!("key{k}"))).await {
                hits += 1;
                bytes += b.len();
            }
        }
        let size = cache.size().await.unwrap_or(usize::MAX);
        let st = match cache.stats().await {
            Ok(s) => s,
            Err(e) => return Verdict::fail("C11:memory-cleanup:books:figures-returned-error", e.to_string()),
        };
        let v = Verdict::pass().nontrivial(true).class_if(case.tick_every > 0, "sweep-ticks-between-operations");
        if size != hits || st.entry_count != hits || st.memory_usage_bytes != bytes {
            return v.with_fail(
                "C11:memory-cleanup:books:figures-differ-from-contents-after-background-sweep",
                format!("{case:?}: after all tasks and the sweep finished {hits} keys ({bytes} bytes) are retrievable; size() = {size}, stats.entry_count = {}, stats reports {} bytes", st.entry_count, st.memory_usage_bytes),
            );
        }
        v
    })
}
